//! C18 — virtual keys obey press / release / tap / toggle and their timed forms.
//!
//! Oracle: a reference model written from the configuration guide ("Virtual keys"): press (nothing
//! if pressed), release (nothing if up), tap (press+release; only releases if pressed), toggle; the
//! same effect whichever way the operation is triggered (on-press, on-release, the legacy
//! on-press-fakekey / on-release-fakekey forms, a macro item, completion of a defseq sequence, a
//! direct fake-key call as the TCP server makes it). `hold-for-duration D`: one press from the first
//! activation until D after the latest activation, no events on a re-trigger. `on-idle D`: fires
//! once when kanata has been idle for D ticks and not before. The timed forms are compared tick by
//! tick against a model that uses the processing discipline of DESIGN appendix A (one queued event
//! per tick, virtual key events share the queue with physical ones). Part E does the same for
//! hold-for-duration with very small durations and activations that arrive together with other
//! events in one millisecond or in front of an undecided tap-hold, where the countdown can end
//! before the queued press of the virtual key has been processed.
//!
//! Two dimensions of the timed forms:
//! * hold-for-duration with TWO actions of different durations L > S on the same virtual key (timed
//!   part and queued part): the key goes up S (resp. L) after the LATEST activation, whichever
//!   action made it, in both orders and - in the sweep scenarios - at every distance between the two
//!   activations from 2 to L+3 ticks.
//! * on-idle measured from EVERY input event: press, release and OS repeat of keys whose held state
//!   is not a normal key (the on-idle key itself, a layer-while-held key, a no-op key, a key with
//!   only a custom action), held 1 .. D-2 ticks (or longer with OS repeats arriving more often than
//!   every D), with every millisecond driven in the order of the real processing loop (blocking
//!   predicate, event, tick - the order in which nothing but the event itself restarts the idle
//!   count at a release) as well as in the order predicate-between-event-and-tick.
//!
//! Part F (`c18_rapid.rs`): RAPID-FIRE operation histories. The same reference model - operations
//! applied in the order in which they are issued, whatever the spacing - judges histories whose
//! operations follow each other 0, 1, 2 ... ticks apart: direct fake-key calls back to back, physical
//! keys that press a virtual key when pressed and release it when released rolled over each other
//! (plus toggle / tap / inverse keys), and both mixed, on a key and on a layer-while-held virtual key.
//! An operation is then issued while an earlier event of the same virtual key is still waiting in the
//! queue (a press while the release is queued and the key still down, a release while the press is
//! queued, ...); the state the keys end up in and the whole OS stream (with the layer activations
//! sampled after every tick) must be what the operation sequence says.
//!
//! Part G (`c18_idlehold.rs`): on-idle while a hold-for-duration is PENDING. The idle time starts when
//! the key held by hold-for-duration has been released, whether that virtual key carries a plain key,
//! a layer-while-held action or a macro (for the last two nothing is down for the OS during the hold,
//! so only the pending timed operation itself keeps kanata busy): `(multi (hold-for-duration L vh)
//! (on-idle D tap-vkey v))` and the two actions on separate keys, L > D, L just above D and L < D,
//! driven like the real loop, compared tick by tick with the combined model, and in plain form: the
//! on-idle key never comes down while a hold-for-duration is pending.
//!
//! Part H (`c18_idlemulti.rs`): SEVERAL on-idle entries pending at once, measured against the one
//! shared idle time: two or three entries with EQUAL timeouts (in one `multi`, armed by different keys
//! one after the other, or both), mixed equal / different timeouts (two short + one long, one short +
//! two long, timeouts one tick apart) and all different (control). Every pending entry whose timeout
//! has elapsed since the shared start of the idle time fires in the tick in which it becomes due -
//! entries due in the same tick all fire in that tick, in any order - and exactly once; operating a
//! fired virtual key is activity, so an entry with a longer timeout that is left pending waits for a
//! complete new idle time. Compared tick by tick with the on-idle model generalised to a set of
//! entries, and in plain form: the keys of entries that were due together come down together.
//!
//! Part I (`c18_blocks.rs`): virtual keys defined in SEVERAL blocks. 2 and 3 definition blocks in every
//! mix and order of `deffakekeys` and `defvirtualkeys`, 1 or 2 keys per block, the last block(s) before
//! or after the layers; every key of every block pressed / released / tapped / toggled through all the
//! routes of part A and judged by the same per-key model: every key - also those of the later blocks -
//! performs its own action and keeps its own pressed state (the OS state of EVERY virtual key is
//! compared after every operation).
//!
//! Part J (`c18_holdmulti.rs`): hold-for-duration pending for SEVERAL virtual keys at once, with hold
//! times that run out in the same tick (one `multi` with equal durations; keys armed N ticks apart with
//! durations N apart; after a re-arm), one tick apart and further apart: every key goes up when its own
//! time has passed, tick by tick against the model of part B generalised to a set of virtual keys.

use crate::core::sim::{code_name, osc, render_hist, Ev, OutKind, Sim};
use crate::core::{CaseOut, Check, Ctx};
use serde_json::{json, Value};
use std::collections::VecDeque;

#[path = "c18_rapid.rs"]
mod rapid;
#[path = "c18_idlehold.rs"]
mod idlehold;
#[path = "c18_idlemulti.rs"]
mod idlemulti;
#[path = "c18_blocks.rs"]
mod blocks;
#[path = "c18_holdmulti.rs"]
mod holdmulti;

pub struct C18Check;
pub static C18: C18Check = C18Check;

// ------------------------------------------------------------------------------------------------
// part A: operation histories

#[derive(Clone, Copy, PartialEq, Eq, Debug)]
enum Op {
    Press,
    Release,
    Tap,
    Toggle,
}
const OPS: [Op; 4] = [Op::Press, Op::Release, Op::Tap, Op::Toggle];
impl Op {
    fn new_name(self) -> &'static str {
        match self {
            Op::Press => "press-vkey",
            Op::Release => "release-vkey",
            Op::Tap => "tap-vkey",
            Op::Toggle => "toggle-vkey",
        }
    }
    fn old_name(self) -> &'static str {
        match self {
            Op::Press => "press",
            Op::Release => "release",
            Op::Tap => "tap",
            Op::Toggle => "toggle",
        }
    }
    fn ch(self) -> char {
        match self {
            Op::Press => 'p',
            Op::Release => 'r',
            Op::Tap => 't',
            Op::Toggle => 'g',
        }
    }
}

#[derive(Clone, Copy, PartialEq, Eq, Debug)]
enum Kind {
    /// plain key action; the string is the output key
    Key(&'static str),
    /// layer-while-held nav
    Layer,
    /// macro typing one key; only tapped (a macro cannot be "held")
    Macro(&'static str),
}

#[derive(Clone, Copy, PartialEq, Eq, Debug)]
enum Path {
    Direct,
    OnPress,
    OnRelease,
    LegacyPress,
    LegacyRelease,
    MacroItem,
    /// taps through defseq completion, every other operation as a direct call
    Seq,
}
const PATHS: [Path; 7] = [Path::Direct, Path::OnPress, Path::OnRelease, Path::LegacyPress, Path::LegacyRelease, Path::MacroItem, Path::Seq];

struct VSet {
    name: &'static str,
    kinds: &'static [Kind],
}
const VSETS: &[VSet] = &[
    VSet { name: "key", kinds: &[Kind::Key("1")] },
    VSet { name: "key+key", kinds: &[Kind::Key("1"), Kind::Key("2")] },
    VSet { name: "key+layer", kinds: &[Kind::Key("1"), Kind::Layer] },
    VSet { name: "key+layer+macro", kinds: &[Kind::Key("1"), Kind::Layer, Kind::Macro("y")] },
];
const VNAMES: [&str; 3] = ["k1", "k2", "k3"];
const TRIG: [&str; 12] = ["a", "b", "c", "d", "e", "f", "g", "h", "i", "j", "k", "l"];
const PROBE: &str = "z";
const PROBE_NAV: &str = "9";
/// sequence keys per virtual key (typed after the leader key)
const SEQ_KEYS: [[&str; 2]; 3] = [["b", "c"], ["d", "e"], ["f", "g"]];

#[derive(Clone, Debug)]
struct ConfA {
    vset: usize,
    path: Path,
}

impl ConfA {
    fn alphabet(&self) -> Vec<(usize, Op)> {
        let mut v = vec![];
        for (i, k) in VSETS[self.vset].kinds.iter().enumerate() {
            for op in OPS {
                if matches!(k, Kind::Macro(_)) && op != Op::Tap {
                    continue;
                }
                v.push((i, op));
            }
        }
        v
    }
    fn label(&self) -> String {
        format!("{}|{:?}", VSETS[self.vset].name, self.path)
    }
    fn text(&self) -> String {
        let vs = &VSETS[self.vset];
        let legacy = matches!(self.path, Path::LegacyPress | Path::LegacyRelease);
        let mut vk = String::new();
        for (i, k) in vs.kinds.iter().enumerate() {
            let act = match k {
                Kind::Key(o) => o.to_string(),
                Kind::Layer => "(layer-while-held nav)".into(),
                Kind::Macro(o) => format!("(macro {o})"),
            };
            vk.push_str(&format!(" {} {}", VNAMES[i], act));
        }
        let alpha = self.alphabet();
        let mut acts: Vec<String> = vec![];
        for j in 0..TRIG.len() {
            let a = match (self.path, alpha.get(j)) {
                (Path::Direct, _) | (_, None) => "XX".to_string(),
                (Path::Seq, _) => {
                    if j == 0 {
                        "sldr".into()
                    } else {
                        TRIG[j].to_string()
                    }
                }
                (Path::OnPress, Some((v, op))) => format!("(on-press {} {})", op.new_name(), VNAMES[*v]),
                (Path::OnRelease, Some((v, op))) => format!("(on-release {} {})", op.new_name(), VNAMES[*v]),
                (Path::LegacyPress, Some((v, op))) => format!("(on-press-fakekey {} {})", VNAMES[*v], op.old_name()),
                (Path::LegacyRelease, Some((v, op))) => format!("(on-release-fakekey {} {})", VNAMES[*v], op.old_name()),
                (Path::MacroItem, Some((v, op))) => format!("(macro (on-press {} {}))", op.new_name(), VNAMES[*v]),
            };
            acts.push(a);
        }
        if self.path == Path::Seq {
            // every trigger position is a plain key so that sequences can be typed
            for (j, a) in acts.iter_mut().enumerate() {
                if j > 0 {
                    *a = TRIG[j].to_string();
                }
            }
        }
        let mut s = format!("(defcfg process-unmapped-keys yes sequence-timeout 200)\n(defsrc {} {PROBE})\n", TRIG.join(" "));
        s.push_str(&format!("({}{})\n", if legacy { "deffakekeys" } else { "defvirtualkeys" }, vk));
        s.push_str(&format!("(deflayer base {} {PROBE})\n", acts.join(" ")));
        s.push_str(&format!("(deflayer nav {} {PROBE_NAV})\n", vec!["_"; TRIG.len()].join(" ")));
        if self.path == Path::Seq {
            for i in 0..vs.kinds.len() {
                s.push_str(&format!("(defseq {} ({} {}))\n", VNAMES[i], SEQ_KEYS[i][0], SEQ_KEYS[i][1]));
            }
        }
        s
    }
}

fn configs_a() -> Vec<ConfA> {
    let mut v = vec![];
    for vset in 0..VSETS.len() {
        for path in PATHS {
            v.push(ConfA { vset, path });
        }
    }
    v
}

fn hist_len(ctx: &Ctx, c: &ConfA) -> u32 {
    let quick = ctx.tier == crate::core::Tier::Quick;
    match (c.vset, c.path) {
        (0, _) => {
            if quick {
                5
            } else {
                7
            }
        }
        (_, Path::Direct) | (_, Path::OnPress) => {
            if quick {
                5
            } else if c.vset == 3 {
                6
            } else {
                7
            }
        }
        _ => {
            if quick {
                4
            } else {
                6
            }
        }
    }
}

fn n_hist(alpha: u64, n: u32) -> u64 {
    (1..=n).map(|k| alpha.pow(k)).sum()
}

fn decode_hist(mut idx: u64, alpha: u64, nmax: u32) -> Vec<usize> {
    let mut n = 1;
    while n <= nmax {
        let b = alpha.pow(n);
        if idx < b {
            break;
        }
        idx -= b;
        n += 1;
    }
    let mut v = vec![];
    for _ in 0..n {
        v.push((idx % alpha) as usize);
        idx /= alpha;
    }
    v
}

/// thorough tier: histories beyond this many per configuration are sampled with a fixed stride
const CAP_A: u64 = 1_200_000;
const STRIDE: u64 = 1_000_003;
const CHUNK_A: u64 = 2048;

struct NamesA {
    out: Vec<String>, // per vkey: output key name ("" for layer)
    probe: String,
    probe_nav: String,
}

fn quiet_settle(sim: &mut Sim, min: u64, quiet: u64, max: u64) -> bool {
    let start = sim.now;
    loop {
        let since_out = sim.trace.last().map(|o| sim.now - o.at).unwrap_or(u64::MAX);
        let l = sim.k.layout.b();
        let busy = !l.queue.is_empty() || !l.active_sequences.is_empty() || !l.action_queue.is_empty();
        if sim.now - start >= min && since_out >= quiet && !busy {
            return true;
        }
        if sim.now - start >= max {
            return false;
        }
        sim.tick();
    }
}

fn tap_phys(sim: &mut Sim, key: &str, h: &mut Vec<Ev>) {
    let c = osc(key);
    sim.press(c);
    sim.ticks(2);
    sim.release(c);
    sim.ticks(2);
    h.extend([Ev::P(c), Ev::T(2), Ev::R(c), Ev::T(2)]);
}

fn apply_op(sim: &mut Sim, c: &ConfA, j: usize, v: usize, op: Op, h: &mut Vec<Ev>) -> bool {
    let before = sim.now;
    match c.path {
        Path::Direct => {
            sim.fakekey(VNAMES[v], op.ch());
            h.push(Ev::Fk(VNAMES[v].to_string(), op.ch()));
        }
        Path::Seq => {
            if op == Op::Tap {
                tap_phys(sim, TRIG[0], h);
                tap_phys(sim, SEQ_KEYS[v][0], h);
                tap_phys(sim, SEQ_KEYS[v][1], h);
            } else {
                sim.fakekey(VNAMES[v], op.ch());
                h.push(Ev::Fk(VNAMES[v].to_string(), op.ch()));
            }
        }
        _ => tap_phys(sim, TRIG[j], h),
    }
    let ok = quiet_settle(sim, 4, 3, 80);
    h.push(Ev::T((sim.now - before) as u32));
    ok
}

#[derive(Clone, Debug, PartialEq, Eq)]
struct OEv {
    down: bool,
    name: String,
}

fn run_history_a(sim: &mut Sim, c: &ConfA, ops: &[usize], nm: &NamesA) -> Option<(String, String, Value)> {
    let vs = &VSETS[c.vset];
    let alpha = c.alphabet();
    sim.trace.clear();
    sim.last_step_start = 0;
    let mut hist: Vec<Ev> = vec![];
    let mut pressed = vec![false; vs.kinds.len()];
    let mut expected: Vec<OEv> = vec![];
    let form = format!("{:?}", c.path);
    let witness = |sim: &Sim, hist: &[Ev], expected: &[OEv], extra: String| {
        json!({
            "config": c.text(),
            "history": render_hist(hist),
            "operations": ops.iter().map(|j| format!("{}:{:?}", VNAMES[alpha[*j].0], alpha[*j].1)).collect::<Vec<_>>(),
            "observed": sim.trace.iter().filter(|o| !o.redundant).map(|o| format!("{}{}", if o.kind == OutKind::Down { "↓" } else { "↑" }, o.name)).collect::<Vec<_>>(),
            "expected": expected.iter().map(|e| format!("{}{}", if e.down { "↓" } else { "↑" }, e.name)).collect::<Vec<_>>(),
            "detail": extra,
        })
    };
    for (step, j) in ops.iter().enumerate() {
        let (v, op) = alpha[*j];
        // model
        let was = pressed[v];
        let (down_ev, up_ev) = match op {
            Op::Press => (!was, false),
            Op::Release => (false, was),
            Op::Tap => (!was, true),
            Op::Toggle => (!was, was),
        };
        match op {
            Op::Press => pressed[v] = true,
            Op::Release | Op::Tap => pressed[v] = false,
            Op::Toggle => pressed[v] = !was,
        }
        match vs.kinds[v] {
            Kind::Key(_) => {
                if down_ev {
                    expected.push(OEv { down: true, name: nm.out[v].clone() });
                }
                if up_ev {
                    expected.push(OEv { down: false, name: nm.out[v].clone() });
                }
            }
            Kind::Macro(_) => {
                if down_ev {
                    expected.push(OEv { down: true, name: nm.out[v].clone() });
                    expected.push(OEv { down: false, name: nm.out[v].clone() });
                }
            }
            Kind::Layer => {}
        }
        if !apply_op(sim, c, *j, v, op, &mut hist) {
            return Some((format!("C18:ops:{form}:not-settled"), format!("after operation #{step} kanata kept producing output / stayed busy"), witness(sim, &hist, &expected, String::new())));
        }
        // state after the operation
        for (i, k) in vs.kinds.iter().enumerate() {
            match k {
                Kind::Key(_) => {
                    let os_down = sim.os.keys_down.contains(&nm.out[i]);
                    if os_down != pressed[i] {
                        let class = if op == Op::Toggle { "toggle" } else { op.old_name() };
                        return Some((
                            format!("C18:ops:{form}:state-after-{class}"),
                            format!("after operation #{step} ({:?} {}) virtual key {} is {} for the OS but {} in the model", op, VNAMES[v], VNAMES[i], if os_down { "down" } else { "up" }, if pressed[i] { "down" } else { "up" }),
                            witness(sim, &hist, &expected, String::new()),
                        ));
                    }
                }
                Kind::Layer => {
                    let on = sim.k.layout.b().current_layer() != 0;
                    if on != pressed[i] {
                        let class = if op == Op::Toggle { "toggle" } else { op.old_name() };
                        return Some((
                            format!("C18:ops:{form}:layer-state-after-{class}"),
                            format!("after operation #{step} ({:?} {}) the layer held by {} is {} but {} in the model", op, VNAMES[v], VNAMES[i], if on { "active" } else { "inactive" }, if pressed[i] { "active" } else { "inactive" }),
                            witness(sim, &hist, &expected, String::new()),
                        ));
                    }
                }
                Kind::Macro(_) => {}
            }
        }
    }
    // probe the layer through the OS stream
    let layer_on = vs.kinds.iter().enumerate().any(|(i, k)| *k == Kind::Layer && pressed[i]);
    if vs.kinds.contains(&Kind::Layer) {
        tap_phys(sim, PROBE, &mut hist);
        quiet_settle(sim, 3, 2, 40);
        let n = if layer_on { nm.probe_nav.clone() } else { nm.probe.clone() };
        expected.push(OEv { down: true, name: n.clone() });
        expected.push(OEv { down: false, name: n });
    }
    // the whole stream, order level
    let observed: Vec<OEv> = sim
        .trace
        .iter()
        .filter(|o| !o.redundant)
        .map(|o| OEv { down: o.kind == OutKind::Down, name: if matches!(o.kind, OutKind::Down | OutKind::Up) && !o.repress { o.name.clone() } else { format!("<{:?}:{}>", o.kind, o.name) } })
        .collect();
    if observed != expected {
        let acts_o = observed.iter().filter(|e| e.down).count();
        let acts_e = expected.iter().filter(|e| e.down).count();
        let class = if acts_o > acts_e {
            "extra-output"
        } else if acts_o < acts_e {
            "missing-output"
        } else {
            "different-output"
        };
        return Some((format!("C18:ops:{form}:stream:{class}"), "the OS key stream differs from the model's".into(), witness(sim, &hist, &expected, String::new())));
    }
    // reset: release every virtual key directly
    for i in 0..vs.kinds.len() {
        if pressed[i] {
            sim.fakekey(VNAMES[i], 'r');
        }
    }
    quiet_settle(sim, 4, 3, 80);
    if !sim.os.all_up() || sim.k.layout.b().current_layer() != 0 {
        return Some((format!("C18:ops:{form}:reset"), "a direct release of every pressed virtual key did not bring everything up".into(), witness(sim, &hist, &expected, sim.os.describe())));
    }
    None
}

// ------------------------------------------------------------------------------------------------
// parts B and C: timed forms, shared queue model

#[derive(Clone, Copy, PartialEq, Eq, Debug)]
enum QE {
    /// physical press / release of key index k (0 = the timed-action key, 1 = a second key bound to
    /// the same action, 2 = the plain probe key)
    P(u8),
    R(u8),
    /// OS auto-repeat of the held physical key k (an input event that is not queued)
    Rep(u8),
    VPress,
    VRelease,
    /// press / release of the second virtual key (on-idle scenarios whose second key is
    /// `(on-release tap-vkey k2)`)
    V2Press,
    V2Release,
}

/// Order of the two things the processing loop does before the tick of one iteration.
#[derive(Clone, Copy, PartialEq, Eq, Debug)]
enum Order {
    /// the event was handled while the loop was spinning (less than 1 ms since the last tick), so the
    /// blocking predicate is consulted once more between the event and the tick that consumes it
    EventFirst,
    /// the usual iteration of `start_processing_loop`: blocking predicate, `try_recv` + event
    /// handling, tick, sleep 1 ms
    PredFirst,
}

/// What the second key (index 1) of an on-idle configuration is.
#[derive(Clone, Copy, PartialEq, Eq, Debug)]
enum Second {
    /// the same on-idle action as key 0
    Same,
    /// `(layer-while-held nav)`: held state is a layer, not a key
    Layer,
    /// `XX`: no held state at all
    NoOp,
    /// `(on-release tap-vkey k2)`: held state is a custom action; its release taps a second virtual key
    RelTap,
}
impl Second {
    fn name(self) -> &'static str {
        match self {
            Second::Same => "on_idle_key",
            Second::Layer => "layer_while_held_key",
            Second::NoOp => "no_op_key",
            Second::RelTap => "custom_action_key",
        }
    }
}

#[derive(Clone, Debug, PartialEq, Eq)]
struct TOut {
    at: u64,
    down: bool,
    /// 0 = virtual key's output, 1 = probe key, 2 = second virtual key's output
    key: u8,
}

#[derive(Default, Debug, Clone)]
struct TStats {
    rearms: u64,
    episodes: u64,
    /// re-arm by a key whose duration differs from the one of the previous activation
    rearms_other_duration: u64,
    /// re-arm with a duration smaller than the time that was still left (the release moves earlier)
    rearms_shortening: u64,
    /// re-arm with a duration larger than the time that was still left
    rearms_lengthening: u64,
    idle_firings: u64,
    idle_prevented: u64,
    /// a running idle count (> 0, on-idle pending) restarted by: the release of a key whose held
    /// state is not a normal key / the press of such a key / an OS repeat
    idle_restart_release_non_normal: u64,
    /// ... of these, releases of the second key
    idle_restart_release_second: u64,
    idle_restart_press_non_normal: u64,
    idle_restart_repeat: u64,
    /// firings whose last preceding input event was the release of a non-normal key held >= 4 ticks
    idle_firings_after_held_non_normal_release: u64,
}

/// hold-for-duration model. `evs`: (arrival tick, event). Key 0 carries
/// `(hold-for-duration d[0] v)`, key 1 `(hold-for-duration d[1] v)` (same virtual key), key 2 is a
/// plain key. The key goes up d[k] after the latest activation, k being the key that made it.
fn model_hfd(d: [u64; 2], evs: &[(u64, QE)], horizon: u64) -> (Vec<TOut>, TStats) {
    let mut outs = vec![];
    let mut st = TStats::default();
    let mut q: VecDeque<QE> = VecDeque::new();
    let mut next = 0;
    let mut deadline: Option<u64> = None;
    let mut last_d = 0u64;
    for tick in 1..=horizon {
        while next < evs.len() && evs[next].0 < tick {
            q.push_back(evs[next].1);
            next += 1;
        }
        if let Some(e) = q.pop_front() {
            match e {
                QE::P(2) => outs.push(TOut { at: tick, down: true, key: 1 }),
                QE::R(2) => outs.push(TOut { at: tick, down: false, key: 1 }),
                QE::P(k) => {
                    let nd = d[(k & 1) as usize];
                    match deadline {
                        Some(left) => {
                            st.rearms += 1;
                            if nd != last_d {
                                st.rearms_other_duration += 1;
                            }
                            if nd < left {
                                st.rearms_shortening += 1;
                            } else if nd > left {
                                st.rearms_lengthening += 1;
                            }
                            deadline = Some(nd);
                        }
                        None => {
                            q.push_back(QE::VPress);
                            deadline = Some(nd);
                            st.episodes += 1;
                        }
                    }
                    last_d = nd;
                }
                QE::VPress => outs.push(TOut { at: tick, down: true, key: 0 }),
                QE::VRelease => outs.push(TOut { at: tick, down: false, key: 0 }),
                _ => {}
            }
        }
        if let Some(x) = deadline {
            let x = x - 1;
            if x == 0 {
                q.push_back(QE::VRelease);
                deadline = None;
            } else {
                deadline = Some(x);
            }
        }
    }
    (outs, st)
}

/// on-idle model (tap action). Key 0 carries `(on-idle D tap-vkey v)`, key 1 is what `second`
/// says, key 2 is a plain key. One loop iteration per tick: the idle count advances if kanata is
/// idle at the blocking predicate (nothing queued, no output key down), EVERY input event (press,
/// release, OS repeat; of whatever key) restarts it; the action fires in the tick in which the count
/// has reached D. `order` says whether the iteration's event is handled before or after the
/// predicate is consulted. A held key whose held state is not a key (the on-idle key itself, a
/// layer-while-held key, a no-op key, a key with only custom actions) does not make kanata busy by
/// itself; the scenarios keep such holds shorter than D (or interrupted by OS repeats more often
/// than every D), so that reading it the other way gives the same expectation.
fn model_idle(d: u64, evs: &[(u64, QE)], horizon: u64, order: Order, second: Second) -> (Vec<TOut>, TStats) {
    let mut outs = vec![];
    let mut st = TStats::default();
    let mut q: VecDeque<QE> = VecDeque::new();
    let mut next = 0;
    let mut armed = false;
    let mut counter = 0u64;
    // output keys that are down: plain key, virtual key 1, virtual key 2
    let mut down = [false; 3];
    let mut was_counting = false;
    // physical keys: tick of the press
    let mut pressed_at = [0u64; 3];
    // last input event: (was the release of a non-normal key held for at least 4 ticks)
    let mut last_input_held_release = false;
    let non_normal = |k: u8| k != 2;
    for tick in 1..=horizon {
        let predicate = |q: &VecDeque<QE>, down: &[bool; 3], counter: &mut u64, was_counting: &mut bool| {
            let idle = q.is_empty() && !down.iter().any(|x| *x);
            if !idle {
                *counter = 0;
            } else if armed {
                *counter += 1;
                *was_counting = true;
            }
        };
        if order == Order::PredFirst {
            predicate(&q, &down, &mut counter, &mut was_counting);
        }
        while next < evs.len() && evs[next].0 < tick {
            let e = evs[next].1;
            next += 1;
            if armed && was_counting {
                st.idle_prevented += 1;
                was_counting = false;
            }
            if armed && counter > 0 {
                match e {
                    QE::R(k) if non_normal(k) => {
                        st.idle_restart_release_non_normal += 1;
                        if k == 1 {
                            st.idle_restart_release_second += 1;
                        }
                    }
                    QE::P(k) if non_normal(k) => st.idle_restart_press_non_normal += 1,
                    QE::Rep(_) => st.idle_restart_repeat += 1,
                    _ => {}
                }
            }
            last_input_held_release = false;
            match e {
                QE::Rep(_) => {}
                QE::P(k) => {
                    pressed_at[k as usize % 3] = evs[next - 1].0;
                    q.push_back(e);
                }
                QE::R(k) => {
                    last_input_held_release = non_normal(k) && evs[next - 1].0 - pressed_at[k as usize % 3] >= 4;
                    q.push_back(e);
                }
                _ => q.push_back(e),
            }
            counter = 0;
        }
        if order == Order::EventFirst {
            predicate(&q, &down, &mut counter, &mut was_counting);
        }
        if let Some(e) = q.pop_front() {
            match e {
                QE::P(2) => {
                    down[0] = true;
                    outs.push(TOut { at: tick, down: true, key: 1 });
                }
                QE::R(2) => {
                    down[0] = false;
                    outs.push(TOut { at: tick, down: false, key: 1 });
                }
                QE::P(k) => {
                    if k == 0 || second == Second::Same {
                        armed = true;
                        counter = 0;
                    }
                }
                QE::R(k) => {
                    if k == 1 && second == Second::RelTap {
                        q.push_back(QE::V2Press);
                        q.push_back(QE::V2Release);
                    }
                }
                QE::VPress => {
                    down[1] = true;
                    outs.push(TOut { at: tick, down: true, key: 0 });
                }
                QE::VRelease => {
                    down[1] = false;
                    outs.push(TOut { at: tick, down: false, key: 0 });
                }
                QE::V2Press => {
                    down[2] = true;
                    outs.push(TOut { at: tick, down: true, key: 2 });
                }
                QE::V2Release => {
                    down[2] = false;
                    outs.push(TOut { at: tick, down: false, key: 2 });
                }
                QE::Rep(_) => {}
            }
        }
        if armed && counter >= d {
            q.push_back(QE::VPress);
            q.push_back(QE::VRelease);
            armed = false;
            was_counting = false;
            st.idle_firings += 1;
            if last_input_held_release {
                st.idle_firings_after_held_non_normal_release += 1;
            }
        }
    }
    (outs, st)
}

#[derive(Clone, Debug)]
struct ConfT {
    idle: bool,
    d: u32,
    legacy: bool,
    /// hold-for-duration: duration of the action on the second key (same virtual key)
    d2: u32,
    /// on-idle: how one loop iteration is driven
    order: Order,
    /// on-idle: what the second key is
    second: Second,
}
const TKEYS: [&str; 3] = ["h", "j", "z"];
const T_VK2_OUT: &str = "2";

impl ConfT {
    fn hfd(d: u32, d2: u32) -> ConfT {
        ConfT { idle: false, d, legacy: false, d2, order: Order::EventFirst, second: Second::Same }
    }
    fn on_idle(d: u32, legacy: bool, order: Order, second: Second) -> ConfT {
        ConfT { idle: true, d, legacy, d2: d, order, second }
    }
    fn mixed(&self) -> bool {
        !self.idle && self.d != self.d2
    }
    fn text(&self) -> String {
        let act0 = if self.idle {
            if self.legacy {
                format!("(on-idle-fakekey k1 tap {})", self.d)
            } else {
                format!("(on-idle {} tap-vkey k1)", self.d)
            }
        } else {
            format!("(hold-for-duration {} k1)", self.d)
        };
        let act1 = if !self.idle {
            format!("(hold-for-duration {} k1)", self.d2)
        } else {
            match self.second {
                Second::Same => act0.clone(),
                Second::Layer => "(layer-while-held nav)".into(),
                Second::NoOp => "XX".into(),
                Second::RelTap => "(on-release tap-vkey k2)".into(),
            }
        };
        let vk2 = if self.idle && self.second == Second::RelTap { format!(" k2 {T_VK2_OUT}") } else { String::new() };
        let nav = if self.idle && self.second == Second::Layer { format!("(deflayer nav _ _ {})\n", TKEYS[2]) } else { String::new() };
        format!(
            "(defcfg process-unmapped-keys yes)\n(defsrc {} {} {})\n({} k1 1{vk2})\n(deflayer base {act0} {act1} {})\n{nav}",
            TKEYS[0],
            TKEYS[1],
            TKEYS[2],
            if self.legacy { "deffakekeys" } else { "defvirtualkeys" },
            TKEYS[2]
        )
    }
    fn label(&self) -> String {
        if self.idle {
            format!("on-idle|D{}{}|{:?}|second={:?}", self.d, if self.legacy { "|legacy" } else { "" }, self.order, self.second)
        } else if self.mixed() {
            format!("hold-for-duration|D{}+D{}", self.d, self.d2)
        } else {
            format!("hold-for-duration|D{}", self.d)
        }
    }
}

fn configs_t() -> Vec<ConfT> {
    let mut v = vec![
        ConfT::hfd(10, 10),
        ConfT::hfd(40, 40),
        // two actions with different durations on the same virtual key, both orders of long / short
        ConfT::hfd(40, 10),
        ConfT::hfd(10, 40),
        ConfT::hfd(15, 12),
    ];
    for order in [Order::EventFirst, Order::PredFirst] {
        for second in [Second::Same, Second::Layer, Second::NoOp, Second::RelTap] {
            v.push(ConfT::on_idle(10, false, order, second));
        }
        v.push(ConfT::on_idle(40, false, order, Second::Same));
        v.push(ConfT::on_idle(10, true, order, Second::Same));
    }
    v.push(ConfT::on_idle(40, false, Order::PredFirst, Second::Layer));
    v
}

/// dimensions of the tap scenarios of one timed configuration: (gaps, number of hold options,
/// number of hold options of the first activation)
fn timed_dims(c: &ConfT) -> (Vec<u64>, u64, u64) {
    let d = c.d as u64;
    if c.idle {
        (vec![3, d - 1, d, d + 1, d + 2, 2 * d + 5], 5, 2)
    } else if c.mixed() {
        let d2 = c.d2 as u64;
        let (s, l) = (d.min(d2), d.max(d2));
        let mut g = vec![2, 3, 2 * l];
        for x in [s, l] {
            g.extend([x - 2, x - 1, x, x + 1, x + 2]);
        }
        g.extend([l - s - 1, l - s, l - s + 1]);
        g.retain(|x| *x >= 2);
        g.sort();
        g.dedup();
        (g, 2, 1)
    } else {
        (vec![2, 3, d - 2, d - 1, d, d + 1, d + 2, 2 * d], 2, 1)
    }
}

/// on-idle hold options: (hold length, distance of OS repeat events or 0). The last option is a
/// hold longer than 2 D; a key that is not a normal key gets OS repeats every D/2 during it.
fn idle_hold(d: u64, opt: u64, k: u8) -> (u64, u64) {
    match opt {
        0 => (1, 0),
        1 => (4, 0),
        2 => (d / 2, 0),
        3 => (d - 2, 0),
        _ => (2 * d + 3, if k == 2 { 0 } else { d / 2 }),
    }
}

fn push_tap(evs: &mut Vec<(u64, QE)>, t: u64, k: u8, hold: u64, rep: u64) {
    evs.push((t, QE::P(k)));
    if rep > 0 {
        let mut r = t + rep;
        while r < t + hold {
            evs.push((r, QE::Rep(k)));
            r += rep;
        }
    }
    evs.push((t + hold, QE::R(k)));
}

/// Timed scenarios: a first tap of the timed-action key, then up to `n` further taps (of the same
/// key, of the second key, or of the plain key), each a gap after the previous one. For
/// hold-for-duration the gaps are press-to-press distances around the duration(s) (and around their
/// difference); for on-idle they are distances from the previous release around D, the first tap is
/// held 1 or D/2 ticks and every further tap 1, 4, D/2, D-2 or 2D+3 ticks (the last with OS repeats
/// every D/2 for a key that is not a normal key). After these come, for hold-for-duration, the sweep
/// scenarios of `hfd_sweep`.
fn timed_scen(c: &ConfT, mut idx: u64, nmax: u32) -> Option<Vec<(u64, QE)>> {
    let taps = timed_taps_space(c, nmax);
    if idx >= taps {
        return if c.idle { None } else { hfd_sweep(c, idx - taps) };
    }
    let d = c.d as u64;
    let (gaps, nholds, nfirst) = timed_dims(c);
    let kinds: u64 = 3;
    let first = idx % nfirst;
    idx /= nfirst;
    let per = gaps.len() as u64 * kinds * nholds; // gap x key x hold length
    let mut n = 0;
    loop {
        let b = per.pow(n);
        if idx < b {
            break;
        }
        idx -= b;
        n += 1;
        if n > nmax {
            return None;
        }
    }
    let mut evs = vec![];
    let mut t = 0u64;
    let first_hold = if c.idle { [1, d / 2][first as usize] } else { 1 };
    push_tap(&mut evs, t, 0, first_hold, 0);
    let mut last_press = 0u64;
    let mut last_release = first_hold;
    for _ in 0..n {
        let g = gaps[(idx % gaps.len() as u64) as usize];
        idx /= gaps.len() as u64;
        let k = (idx % kinds) as u8;
        idx /= kinds;
        let ho = idx % nholds;
        idx /= nholds;
        let (hold, rep) = if c.idle { idle_hold(d, ho, k) } else { ([1u64, 4][ho as usize], 0) };
        t = if c.idle { last_release + g } else { (last_press + g).max(last_release + 1) };
        push_tap(&mut evs, t, k, hold, rep);
        last_press = t;
        last_release = t + hold;
    }
    Some(evs)
}

fn timed_taps_space(c: &ConfT, nmax: u32) -> u64 {
    let (gaps, nholds, nfirst) = timed_dims(c);
    let per = gaps.len() as u64 * 3 * nholds;
    nfirst * (0..=nmax).map(|n| per.pow(n)).sum::<u64>()
}

fn hfd_sweep_dims(c: &ConfT) -> (u64, Vec<u64>) {
    let (s, l) = ((c.d.min(c.d2)) as u64, (c.d.max(c.d2)) as u64);
    let mut g3 = vec![2, s - 1, s, s + 1, l - 1, l, l + 1];
    if l > s {
        g3.extend([l - s - 1, l - s, l - s + 1]);
    }
    g3.retain(|x| *x >= 2);
    g3.sort();
    g3.dedup();
    (l + 2, g3)
}

fn hfd_sweep_space(c: &ConfT) -> u64 {
    let (m, g3) = hfd_sweep_dims(c);
    4 * m * (1 + 3 * g3.len() as u64)
}

/// hold-for-duration sweep: an activation by key a, a second one by key b at EVERY distance from 2
/// to max(D)+3 ticks, optionally a third tap (either action key or the plain key) at a distance
/// around the durations and their difference after the second. a, b range over both action keys, so
/// with two durations L > S on one virtual key every order (L then S, S then L, same twice) is met
/// at every distance.
fn hfd_sweep(c: &ConfT, mut idx: u64) -> Option<Vec<(u64, QE)>> {
    if idx >= hfd_sweep_space(c) {
        return None;
    }
    let (m, g3) = hfd_sweep_dims(c);
    let a = (idx % 2) as u8;
    idx /= 2;
    let b = (idx % 2) as u8;
    idx /= 2;
    let g = 2 + idx % m;
    idx /= m;
    let mut evs = vec![];
    push_tap(&mut evs, 0, a, 1, 0);
    push_tap(&mut evs, g, b, 1, 0);
    if idx > 0 {
        let r = idx - 1;
        let k = (r % 3) as u8;
        let g2 = g3[(r / 3) as usize];
        push_tap(&mut evs, g + g2, k, 1, 0);
    }
    Some(evs)
}

fn timed_space(c: &ConfT, nmax: u32) -> u64 {
    timed_taps_space(c, nmax) + if c.idle { 0 } else { hfd_sweep_space(c) }
}

fn run_timed(c: &ConfT, evs: &[(u64, QE)], nm: &[String; 3]) -> (Vec<TOut>, Vec<String>, Vec<Ev>, bool) {
    let Ok(mut sim) = Sim::new(&c.text()) else {
        return (vec![], vec!["config rejected".into()], vec![], false);
    };
    let horizon = evs.last().map(|e| e.0).unwrap_or(0) + 3 * c.d.max(c.d2) as u64 + 30;
    let mut hist = vec![];
    let mut next = 0;
    let mut gap = 0u32;
    for tick in 1..=horizon {
        // one iteration of the processing loop: blocking predicate (advances the idle counter),
        // event if one is there, tick
        if c.order == Order::PredFirst {
            let _ = sim.k.can_block_update_idle_waiting(1);
        }
        while next < evs.len() && evs[next].0 < tick {
            if gap > 0 {
                hist.push(Ev::T(gap));
                gap = 0;
            }
            match evs[next].1 {
                QE::P(k) => {
                    let code = osc(TKEYS[k as usize % 3]);
                    sim.press(code);
                    hist.push(Ev::P(code));
                }
                QE::R(k) => {
                    let code = osc(TKEYS[k as usize % 3]);
                    sim.release(code);
                    hist.push(Ev::R(code));
                }
                QE::Rep(k) => {
                    let code = osc(TKEYS[k as usize % 3]);
                    sim.repeat(code);
                    hist.push(Ev::Rep(code));
                }
                _ => {}
            }
            next += 1;
        }
        if c.order == Order::EventFirst {
            let _ = sim.k.can_block_update_idle_waiting(1);
        }
        sim.tick();
        gap += 1;
    }
    hist.push(Ev::T(gap));
    let mut outs = vec![];
    let mut raw = vec![];
    for o in &sim.trace {
        raw.push(o.short());
        if o.redundant {
            continue;
        }
        let key = nm.iter().position(|n| *n == o.name).map(|p| p as u8).unwrap_or(9);
        let down = o.kind == OutKind::Down;
        if !matches!(o.kind, OutKind::Down | OutKind::Up) || o.repress {
            outs.push(TOut { at: o.at, down, key: 9 });
        } else {
            outs.push(TOut { at: o.at, down, key });
        }
    }
    let ok = sim.os.all_up() && sim.is_idle();
    (outs, raw, hist, ok)
}

fn render_touts(v: &[TOut], nm: &[String; 3]) -> Vec<String> {
    v.iter().map(|o| format!("{}{}@{}", if o.down { "↓" } else { "↑" }, nm.get(o.key as usize).map(|s| s.as_str()).unwrap_or("<unexpected>"), o.at)).collect()
}

// ------------------------------------------------------------------------------------------------
// part D: on-idle does not count while kanata is busy (macro running), invariant form

fn busy_idle_case(out: &mut CaseOut) {
    // key m plays a macro that takes ~L ticks; on-idle must fire no earlier than D ticks after the
    // macro's last output, and exactly once
    for d in [10u64, 30] {
        for l in [15u64, 45] {
            let cfg = format!("(defcfg process-unmapped-keys yes)\n(defsrc i m)\n(defvirtualkeys k1 1)\n(deflayer base (on-idle {d} tap-vkey k1) (macro a {l} b))\n");
            let Ok(mut sim) = Sim::new(&cfg) else {
                out.inconclusive = Some("busy-idle config rejected".into());
                return;
            };
            let w = code_name(osc("1"));
            let mut hist = vec![];
            let (ci, cm) = (osc("i"), osc("m"));
            let steps: Vec<(u64, u16, bool)> = vec![(0, ci, true), (2, ci, false), (4, cm, true), (6, cm, false)];
            let mut next = 0;
            for tick in 1..=(l + 3 * d + 60) {
                while next < steps.len() && steps[next].0 < tick {
                    if steps[next].2 {
                        sim.press(steps[next].1);
                        hist.push(Ev::P(steps[next].1));
                    } else {
                        sim.release(steps[next].1);
                        hist.push(Ev::R(steps[next].1));
                    }
                    hist.push(Ev::T(2));
                    next += 1;
                }
                let _ = sim.k.can_block_update_idle_waiting(1);
                sim.tick();
            }
            out.inc("idle_busy_scenarios");
            let fires: Vec<u64> = sim.trace.iter().filter(|o| o.kind == OutKind::Down && o.name == w).map(|o| o.at).collect();
            let last_other = sim.trace.iter().filter(|o| o.name != w).map(|o| o.at).max().unwrap_or(0);
            let wit = json!({"config": cfg, "history": render_hist(&hist), "observed": sim.trace_short(), "expected": format!("exactly one tap of {w}, not before tick {} (last macro output {last_other} + {d})", last_other + d)});
            if fires.len() != 1 {
                out.violate(if fires.is_empty() { "C18:on-idle:never-fired" } else { "C18:on-idle:fired-more-than-once" }, format!("on-idle {d} after a {l}-tick macro fired {} times", fires.len()), wit);
                return;
            }
            if fires[0] < last_other + d {
                out.violate("C18:on-idle:fired-while-busy", format!("on-idle {d} fired in tick {} although the macro's last output was in tick {last_other}", fires[0]), wit);
                return;
            }
            if fires[0] > last_other + d + 6 {
                out.violate("C18:on-idle:fired-late", format!("on-idle {d} fired in tick {}, more than {d}+6 ticks after the macro's last output in tick {last_other}", fires[0]), wit);
                return;
            }
            out.inc("idle_firings_after_busy_period");
        }
    }
}

// ------------------------------------------------------------------------------------------------
// part E: hold-for-duration while its own press is still waiting in the queue
//
// Small durations (down to 1) and activations that arrive together with other key events in the
// same millisecond, or in front of a tap-hold key that is still undecided. The press that
// hold-for-duration sends is queued like any other event, so it can still be waiting when the
// countdown expires; the key must nevertheless come down once and go up again, no earlier than D
// after the latest activation. Keys: 0 and 1 carry `(hold-for-duration D k1)`, 2 is a plain key,
// 3 is `(tap-hold 0 H x y)`.

const BKEYS: [&str; 4] = ["h", "j", "z", "t"];
const B_TAP_OUT: &str = "x";
const B_HOLD_OUT: &str = "y";
/// default rapid-event-delay: input processing pauses this many ticks after a tap-hold was decided
/// by an event (DESIGN appendix A)
const B_PAUSE: u64 = 5;
const B_GAPS: [u64; 4] = [0, 1, 2, 7];
const B_H: u32 = 6;
/// (duration on key 0, duration on key 1) of the completely enumerated configurations
const B_DS: [(u32, u32); 6] = [(1, 1), (2, 2), (3, 3), (5, 5), (5, 2), (2, 5)];
const B_CHUNK: u64 = 1024;

#[derive(Clone, Debug)]
struct ConfB {
    d: u32,
    /// duration of the action on the second key (same virtual key)
    d2: u32,
    h: u32,
}

impl ConfB {
    fn text(&self) -> String {
        let act = format!("(hold-for-duration {} k1)", self.d);
        let act2 = format!("(hold-for-duration {} k1)", self.d2);
        format!(
            "(defcfg process-unmapped-keys yes)\n(defsrc {})\n(defvirtualkeys k1 1)\n(deflayer base {act} {act2} {} (tap-hold 0 {} {B_TAP_OUT} {B_HOLD_OUT}))\n",
            BKEYS.join(" "),
            BKEYS[2],
            self.h
        )
    }
    fn label(&self) -> String {
        if self.d == self.d2 {
            format!("hold-for-duration-queued|D{}|H{}", self.d, self.h)
        } else {
            format!("hold-for-duration-queued|D{}+D{}|H{}", self.d, self.d2, self.h)
        }
    }
}

#[derive(Default, Debug, Clone)]
struct BStats {
    episodes: u64,
    rearms: u64,
    /// the queued press waited two or more ticks before it was processed
    press_waited: u64,
    /// the countdown expired while the queued press had not been processed yet
    expired_before_press: u64,
    /// ... and an undecided tap-hold was what held the queue up
    expired_behind_tap_hold: u64,
    /// re-trigger processed while the queued press had not been processed yet
    rearm_before_press: u64,
    /// re-trigger by the key with the other duration / with a duration below the time still left
    rearms_other_duration: u64,
    rearms_shortening: u64,
    tap_hold_taps: u64,
    tap_hold_holds: u64,
    max_backlog: u64,
}

/// Queue model with the processing discipline of DESIGN appendix A: arrivals are appended, one
/// queued event is consumed per tick unless a tap-hold is undecided (nothing is consumed) or input
/// processing is paused after a tap-hold decision made by an event; the virtual key's press and
/// release travel through the same queue. Output keys: 0 = virtual key's output, 1 = plain key,
/// 2 = tap output, 3 = hold output.
fn model_backlog(d: [u64; 2], h: u64, evs: &[(u64, QE)], horizon: u64) -> (Vec<TOut>, BStats) {
    struct W {
        timeout: u64,
        delay: u64,
    }
    let mut outs = vec![];
    let mut st = BStats::default();
    let mut q: VecDeque<(QE, u64)> = VecDeque::new();
    let mut next = 0;
    let mut deadline: Option<u64> = None;
    let mut waiting: Option<W> = None;
    let mut pause = 0u64;
    let mut th_down: Option<u8> = None;
    let mut vpress_queued_at: Option<u64> = None;
    let mut last_d = 0u64;
    for tick in 1..=horizon {
        while next < evs.len() && evs[next].0 < tick {
            q.push_back((evs[next].1, 0));
            next += 1;
        }
        st.max_backlog = st.max_backlog.max(q.len() as u64);
        for e in q.iter_mut() {
            e.1 += 1;
        }
        if let Some(w) = waiting.as_mut() {
            w.timeout = w.timeout.saturating_sub(1);
            let own_release = q.iter().find(|e| e.0 == QE::R(3)).map(|e| e.1);
            let dec = match own_release {
                Some(since) => Some(w.timeout > w.delay.saturating_sub(since)),
                None if w.timeout == 0 => Some(false),
                None => None,
            };
            match dec {
                Some(true) => {
                    outs.push(TOut { at: tick, down: true, key: 2 });
                    th_down = Some(2);
                    pause = B_PAUSE;
                    waiting = None;
                    st.tap_hold_taps += 1;
                }
                Some(false) => {
                    outs.push(TOut { at: tick, down: true, key: 3 });
                    th_down = Some(3);
                    waiting = None;
                    st.tap_hold_holds += 1;
                }
                None => {}
            }
        } else if pause > 0 {
            pause -= 1;
        } else if let Some((e, since)) = q.pop_front() {
            match e {
                QE::P(2) => outs.push(TOut { at: tick, down: true, key: 1 }),
                QE::R(2) => outs.push(TOut { at: tick, down: false, key: 1 }),
                QE::P(3) => waiting = Some(W { timeout: h, delay: since }),
                QE::R(3) => {
                    if let Some(k) = th_down.take() {
                        outs.push(TOut { at: tick, down: false, key: k });
                    }
                }
                QE::P(k) => {
                    let nd = d[(k & 1) as usize];
                    match deadline {
                        Some(left) => {
                            deadline = Some(nd);
                            st.rearms += 1;
                            if vpress_queued_at.is_some() {
                                st.rearm_before_press += 1;
                            }
                            if nd != last_d {
                                st.rearms_other_duration += 1;
                            }
                            if nd < left {
                                st.rearms_shortening += 1;
                            }
                        }
                        None => {
                            q.push_back((QE::VPress, 0));
                            vpress_queued_at = Some(tick);
                            deadline = Some(nd);
                            st.episodes += 1;
                        }
                    }
                    last_d = nd;
                }
                QE::R(_) => {}
                QE::VPress => {
                    if let Some(t0) = vpress_queued_at.take() {
                        if tick - t0 >= 2 {
                            st.press_waited += 1;
                        }
                    }
                    outs.push(TOut { at: tick, down: true, key: 0 });
                }
                QE::VRelease => outs.push(TOut { at: tick, down: false, key: 0 }),
                _ => {}
            }
        }
        if let Some(x) = deadline {
            let x = x - 1;
            if x == 0 {
                q.push_back((QE::VRelease, 0));
                deadline = None;
                if vpress_queued_at.is_some() {
                    st.expired_before_press += 1;
                    if waiting.is_some() || q.iter().any(|e| e.0 == QE::P(3)) {
                        st.expired_behind_tap_hold += 1;
                    }
                }
            } else {
                deadline = Some(x);
            }
        }
    }
    (outs, st)
}

/// Toggle scenarios: every step is (gap to the previous event, key); the key is pressed if it is up
/// and released if it is down. Keys that are still down at the end are released one tick apart.
fn backlog_events(steps: &[(u64, u8)]) -> Vec<(u64, QE)> {
    let mut evs = vec![];
    let mut down = [false; 4];
    let mut t = 0u64;
    for (i, (g, k)) in steps.iter().enumerate() {
        if i > 0 {
            t += g;
        }
        let ku = *k as usize;
        evs.push((t, if down[ku] { QE::R(*k) } else { QE::P(*k) }));
        down[ku] = !down[ku];
    }
    for k in 0..4u8 {
        if down[k as usize] {
            t += 1;
            evs.push((t, QE::R(k)));
        }
    }
    evs
}

/// number of steps enumerated completely per duration
fn backlog_n(ctx: &Ctx) -> u32 {
    ctx.tier.sel(4, 5)
}

fn backlog_space(nmax: u32) -> u64 {
    // the gap of the first step is not used
    (1..=nmax).map(|n| 4 * 16u64.pow(n - 1)).sum()
}

fn backlog_scen(mut idx: u64, nmax: u32) -> Option<Vec<(u64, u8)>> {
    let mut n = 1;
    loop {
        if n > nmax {
            return None;
        }
        let b = 4 * 16u64.pow(n - 1);
        if idx < b {
            break;
        }
        idx -= b;
        n += 1;
    }
    let mut steps = vec![];
    steps.push((0, (idx % 4) as u8));
    idx /= 4;
    for _ in 1..n {
        let g = B_GAPS[(idx % 4) as usize];
        idx /= 4;
        let k = (idx % 4) as u8;
        idx /= 4;
        steps.push((g, k));
    }
    Some(steps)
}

/// seeded part: longer toggle scenarios with a wider choice of durations, tap-hold timeouts and gaps
fn backlog_random(rng: &mut crate::core::rng::Rng) -> (ConfB, Vec<(u64, u8)>) {
    let d = *rng.pick(&[1u32, 1, 2, 2, 3, 3, 4, 5, 8, 12]);
    // every other configuration has a second action with another duration on the same virtual key
    let d2 = if rng.chance(1, 2) { *rng.pick(&[1u32, 2, 3, 4, 5, 8, 12, 20]) } else { d };
    let h = *rng.pick(&[4u32, 6, 15, 30]);
    let n = rng.range(4, 11);
    let du = d as u64;
    let d2u = d2 as u64;
    let mut gaps: Vec<u64> = vec![0, 0, 0, 0, 1, 1, 2, 3, du.saturating_sub(1), du, du + 1, h as u64 - 1, h as u64 + 1, h as u64 + du.max(d2u) + 8];
    if d2 != d {
        gaps.extend([d2u.saturating_sub(1), d2u, d2u + 1, du.abs_diff(d2u)]);
    }
    let mut steps = vec![];
    // bursts: after a step with gap 0 the next one is likely to have gap 0 as well
    let mut burst = false;
    for i in 0..n {
        let g = if i == 0 {
            0
        } else if burst && rng.chance(2, 3) {
            0
        } else {
            *rng.pick(&gaps)
        };
        burst = g == 0;
        let k = *rng.pick(&[0u8, 0, 0, 1, 1, 2, 2, 2, 3, 3]);
        steps.push((g, k));
    }
    (ConfB { d, d2, h }, steps)
}

fn run_backlog(c: &ConfB, evs: &[(u64, QE)], horizon: u64, nm: &[String; 4]) -> (Vec<TOut>, Vec<String>, Vec<Ev>, bool, String) {
    let Ok(mut sim) = Sim::new(&c.text()) else {
        return (vec![], vec!["config rejected".into()], vec![], false, "config rejected".into());
    };
    let mut hist = vec![];
    let mut next = 0;
    let mut gap = 0u32;
    for tick in 1..=horizon {
        while next < evs.len() && evs[next].0 < tick {
            if gap > 0 {
                hist.push(Ev::T(gap));
                gap = 0;
            }
            match evs[next].1 {
                QE::P(k) => {
                    let code = osc(BKEYS[k as usize]);
                    sim.press(code);
                    hist.push(Ev::P(code));
                }
                QE::R(k) => {
                    let code = osc(BKEYS[k as usize]);
                    sim.release(code);
                    hist.push(Ev::R(code));
                }
                _ => {}
            }
            next += 1;
        }
        let _ = sim.k.can_block_update_idle_waiting(1);
        sim.tick();
        gap += 1;
    }
    hist.push(Ev::T(gap));
    let mut outs = vec![];
    let mut raw = vec![];
    for o in &sim.trace {
        raw.push(o.short());
        if o.redundant {
            continue;
        }
        let down = o.kind == OutKind::Down;
        let key = if !matches!(o.kind, OutKind::Down | OutKind::Up) || o.repress { 9 } else { nm.iter().position(|n| *n == o.name).map(|p| p as u8).unwrap_or(9) };
        outs.push(TOut { at: o.at, down, key });
    }
    let ok = sim.os.all_up() && sim.is_idle();
    let state = format!("{}; pending hold-for-duration entries: {}", sim.os.describe(), sim.k.vkeys_pending_release.len());
    (outs, raw, hist, ok, state)
}

fn render_bouts(v: &[TOut], nm: &[String; 4]) -> Vec<String> {
    v.iter().map(|o| format!("{}{}@{}", if o.down { "↓" } else { "↑" }, nm.get(o.key as usize).map(|s| s.as_str()).unwrap_or("<unexpected>"), o.at)).collect()
}

/// Judge one scenario of part E; returns (signature class, description) on a mismatch.
fn judge_backlog(obs: &[TOut], exp: &[TOut], ok: bool) -> Option<(&'static str, String)> {
    let vk = |v: &[TOut], down: bool| v.iter().filter(|o| o.key == 0 && o.down == down).count();
    // the property in its plain form first: the key comes up again
    if vk(obs, true) > vk(obs, false) {
        return Some(("never-released", "the virtual key was pressed by hold-for-duration and never released".into()));
    }
    if obs.iter().any(|o| o.key == 9) {
        return Some(("unexpected-output", "an output that none of the keys can produce".into()));
    }
    if !ok {
        return Some(("stuck", "a key stayed down or kanata did not become idle".into()));
    }
    if obs != exp {
        let same_order = obs.len() == exp.len() && obs.iter().zip(exp).all(|(x, y)| x.down == y.down && x.key == y.key);
        let class = if vk(obs, true) > vk(exp, true) {
            "extra-events-on-retrigger"
        } else if vk(obs, true) < vk(exp, true) {
            "missing-press"
        } else if same_order {
            "timing"
        } else {
            "order"
        };
        return Some((class, "the OS key stream differs from the model's".into()));
    }
    None
}

// ------------------------------------------------------------------------------------------------
// cases

#[derive(Clone, Debug)]
enum CaseKind {
    Ops(usize, u64, u64),
    Timed(usize, u64, u64),
    BusyIdle,
    /// (index into B_DS, first scenario, one past the last)
    Backlog(usize, u64, u64),
    /// seeded longer scenarios; (chunk number, count)
    BacklogRandom(u64, u64),
    /// part F: (index into rapid::CONFS_R, first history, one past the last)
    Rapid(usize, u64, u64),
    /// part F, seeded longer histories; (chunk number, count)
    RapidRandom(u64, u64),
    /// part G: (index into idlehold::configs_g(), first scenario, one past the last)
    IdleHold(usize, u64, u64),
    /// part H: (index into idlemulti::configs_h(), first scenario, one past the last)
    IdleMulti(usize, u64, u64),
    /// part I: index into blocks::configs_i()
    Blocks(usize),
    /// part J: (index into holdmulti::configs_j(), first scenario, one past the last)
    HoldMulti(usize, u64, u64),
}

fn backlog_one(out: &mut CaseOut, c: &ConfB, steps: &[(u64, u8)], reported: &mut std::collections::BTreeSet<String>, may_sample: bool) {
    let nm = [code_name(osc("1")), code_name(osc(BKEYS[2])), code_name(osc(B_TAP_OUT)), code_name(osc(B_HOLD_OUT))];
    let evs = backlog_events(steps);
    let horizon = evs.last().map(|e| e.0).unwrap_or(0) + 2 * c.h as u64 + 3 * c.d.max(c.d2) as u64 + 40;
    let (exp, st) = model_backlog([c.d as u64, c.d2 as u64], c.h as u64, &evs, horizon);
    let (obs, raw, hist, ok, state) = run_backlog(c, &evs, horizon, &nm);
    out.inc("hold_queued_scenarios");
    out.count("hold_queued_episodes", st.episodes);
    if c.d.max(c.d2) <= 3 {
        out.count("hold_queued_episodes_duration_1_to_3", st.episodes);
    }
    if c.d == 1 && c.d2 == 1 {
        out.count("hold_queued_episodes_duration_1", st.episodes);
    }
    out.count("hold_queued_rearms", st.rearms);
    out.count("hold_queued_rearms_by_key_with_other_duration", st.rearms_other_duration);
    out.count("hold_queued_rearms_shortening_the_time_left", st.rearms_shortening);
    out.count("hold_queued_press_waited_2_or_more_ticks", st.press_waited);
    out.count("hold_queued_expired_before_press_processed", st.expired_before_press);
    if c.d.min(c.d2) >= 2 {
        out.count("hold_queued_expired_before_press_processed_duration_2_or_more", st.expired_before_press);
    }
    out.count("hold_queued_expired_behind_undecided_tap_hold", st.expired_behind_tap_hold);
    out.count("hold_queued_rearm_before_press_processed", st.rearm_before_press);
    out.count("hold_queued_tap_hold_taps", st.tap_hold_taps);
    out.count("hold_queued_tap_hold_holds", st.tap_hold_holds);
    out.max("hold_queued_max_backlog", st.max_backlog);
    let same_ms = evs.windows(2).filter(|w| w[0].0 == w[1].0).count() as u64;
    out.count("hold_queued_events_in_same_ms", same_ms);
    out.tag(format!("{}|{}|{}|{}|{}|{}|{}", c.label(), evs.len(), same_ms, st.episodes, st.rearms, st.expired_before_press, st.tap_hold_taps + 2 * st.tap_hold_holds));
    if let Some((class, what)) = judge_backlog(&obs, &exp, ok) {
        let sig = format!("C18:hold-for-duration:queued:{class}");
        if reported.insert(sig.clone()) {
            out.violate(
                sig,
                format!("{}: {what}", c.label()),
                json!({"config": c.text(), "history": render_hist(&hist), "observed": raw, "expected": render_bouts(&exp, &nm), "end_state": state, "note": "events without a tick between them arrive in the same millisecond; the virtual key's press and release are queued behind pending events (one queued event is consumed per tick, none while a tap-hold is undecided)"}),
            );
        }
    }
    if may_sample && out.sample.is_none() && st.expired_before_press > 0 && evs.len() >= 4 {
        out.sample = Some(json!({"config": c.text(), "history": render_hist(&hist), "observed": raw, "expected": render_bouts(&exp, &nm)}));
    }
}

fn backlog_random_chunks(ctx: &Ctx) -> (u64, u64) {
    // (chunks, scenarios per chunk)
    ctx.tier.sel((16, 512), (64, 2048))
}

/// thorough tier: scenarios with three further taps beyond this many per configuration are sampled
/// with a fixed stride (everything up to two further taps and the sweep is always complete)
const CAP_T3: u64 = 250_000;

fn timed_depth3_space(c: &ConfT) -> u64 {
    let (gaps, nholds, nfirst) = timed_dims(c);
    nfirst * (gaps.len() as u64 * 3 * nholds).pow(3)
}

fn timed_total(ctx: &Ctx, c: &ConfT) -> u64 {
    timed_space(c, 2) + ctx.tier.sel(0, timed_depth3_space(c).min(CAP_T3))
}

/// scenario number i of a timed configuration: first everything with up to two further taps, then
/// the hold-for-duration sweep, then (thorough) the scenarios with exactly three further taps
fn timed_pick(c: &ConfT, i: u64) -> Option<Vec<(u64, QE)>> {
    let s2 = timed_space(c, 2);
    if i < s2 {
        return timed_scen(c, i, 2);
    }
    let s3 = timed_depth3_space(c);
    let j = i - s2;
    let sidx = if s3 > CAP_T3 { j.wrapping_mul(STRIDE) % s3 } else { j };
    let (gaps, nholds, nfirst) = timed_dims(c);
    let per = gaps.len() as u64 * 3 * nholds;
    let idx = (1 + per + per * per + sidx / nfirst) * nfirst + sidx % nfirst;
    if idx >= timed_taps_space(c, 3) {
        return None;
    }
    timed_scen(c, idx, 3)
}

fn layout(ctx: &Ctx) -> Vec<CaseKind> {
    let mut v = vec![];
    for (ci, c) in configs_a().iter().enumerate() {
        let tot = n_hist(c.alphabet().len() as u64, hist_len(ctx, c)).min(CAP_A);
        let mut s = 0;
        while s < tot {
            v.push(CaseKind::Ops(ci, s, (s + CHUNK_A).min(tot)));
            s += CHUNK_A;
        }
    }
    for (ci, c) in configs_t().iter().enumerate() {
        let tot = timed_total(ctx, c);
        let mut s = 0;
        while s < tot {
            v.push(CaseKind::Timed(ci, s, (s + 512).min(tot)));
            s += 512;
        }
    }
    v.push(CaseKind::BusyIdle);
    for di in 0..B_DS.len() {
        let tot = backlog_space(backlog_n(ctx));
        let mut s = 0;
        while s < tot {
            v.push(CaseKind::Backlog(di, s, (s + B_CHUNK).min(tot)));
            s += B_CHUNK;
        }
    }
    let (chunks, per) = backlog_random_chunks(ctx);
    for ch in 0..chunks {
        v.push(CaseKind::BacklogRandom(ch, per));
    }
    for (ci, c) in rapid::CONFS_R.iter().enumerate() {
        let tot = c.total(ctx);
        let mut s = 0;
        while s < tot {
            v.push(CaseKind::Rapid(ci, s, (s + rapid::CHUNK_R).min(tot)));
            s += rapid::CHUNK_R;
        }
    }
    let (chunks, per) = rapid::random_chunks(ctx);
    for ch in 0..chunks {
        v.push(CaseKind::RapidRandom(ch, per));
    }
    for (ci, c) in idlehold::configs_g().iter().enumerate() {
        let tot = c.total(ctx);
        let mut s = 0;
        while s < tot {
            v.push(CaseKind::IdleHold(ci, s, (s + 512).min(tot)));
            s += 512;
        }
    }
    for (ci, c) in idlemulti::configs_h().iter().enumerate() {
        let tot = c.total(ctx);
        let mut s = 0;
        while s < tot {
            v.push(CaseKind::IdleMulti(ci, s, (s + 512).min(tot)));
            s += 512;
        }
    }
    for ci in 0..blocks::configs_i().len() {
        v.push(CaseKind::Blocks(ci));
    }
    for (ci, c) in holdmulti::configs_j().iter().enumerate() {
        let tot = c.total(ctx);
        let mut s = 0;
        while s < tot {
            v.push(CaseKind::HoldMulti(ci, s, (s + 512).min(tot)));
            s += 512;
        }
    }
    v
}

impl Check for C18Check {
    fn id(&self) -> &'static str {
        "C18"
    }
    fn n_cases(&self, ctx: &Ctx) -> u64 {
        layout(ctx).len() as u64
    }
    fn describe(&self, ctx: &Ctx, idx: u64) -> Value {
        match layout(ctx).get(idx as usize) {
            Some(CaseKind::Ops(ci, a, b)) => json!({"config": configs_a()[*ci].text(), "histories": format!("operation histories #{a}..#{b}")}),
            Some(CaseKind::Timed(ci, a, b)) => json!({"config": configs_t()[*ci].text(), "scenarios": format!("timed scenarios #{a}..#{b}")}),
            Some(CaseKind::Backlog(di, a, b)) => json!({"config": ConfB { d: B_DS[*di].0, d2: B_DS[*di].1, h: B_H }.text(), "scenarios": format!("queued hold-for-duration toggle scenarios #{a}..#{b}")}),
            Some(CaseKind::BacklogRandom(ch, n)) => json!({"kind": format!("{n} seeded queued hold-for-duration scenarios, chunk {ch}")}),
            Some(CaseKind::Rapid(ci, a, b)) => json!({"config": rapid::CONFS_R[*ci].text(), "histories": format!("rapid-fire operation histories #{a}..#{b}")}),
            Some(CaseKind::RapidRandom(ch, n)) => json!({"kind": format!("{n} seeded rapid-fire operation histories, chunk {ch}")}),
            Some(CaseKind::IdleHold(ci, a, b)) => json!({"config": idlehold::configs_g()[*ci].text(), "scenarios": format!("on-idle with pending hold-for-duration scenarios #{a}..#{b}")}),
            Some(CaseKind::IdleMulti(ci, a, b)) => json!({"config": idlemulti::configs_h()[*ci].text(), "scenarios": format!("several on-idle entries pending scenarios #{a}..#{b}")}),
            Some(CaseKind::Blocks(ci)) => blocks::describe(*ci),
            Some(CaseKind::HoldMulti(ci, a, b)) => holdmulti::describe(*ci, *a, *b),
            _ => json!({"kind": "on-idle after a busy period"}),
        }
    }
    fn run_case(&self, ctx: &Ctx, idx: u64) -> CaseOut {
        let mut out = CaseOut::new();
        let Some(kind) = layout(ctx).get(idx as usize).cloned() else { return out };
        match kind {
            CaseKind::BusyIdle => busy_idle_case(&mut out),
            CaseKind::Rapid(ci, a, b) => rapid::run_enumerated(&mut out, ctx, ci, a, b),
            CaseKind::RapidRandom(ch, n) => rapid::run_random(&mut out, ctx, ch, n),
            CaseKind::IdleHold(ci, a, b) => idlehold::run_chunk(&mut out, ci, a, b),
            CaseKind::IdleMulti(ci, a, b) => idlemulti::run_chunk(&mut out, ci, a, b),
            CaseKind::Blocks(ci) => blocks::run_config(&mut out, ctx, ci),
            CaseKind::HoldMulti(ci, a, b) => holdmulti::run_chunk(&mut out, ci, a, b),
            CaseKind::Backlog(di, a, b) => {
                let c = ConfB { d: B_DS[di].0, d2: B_DS[di].1, h: B_H };
                let mut reported: std::collections::BTreeSet<String> = Default::default();
                for i in a..b {
                    let Some(steps) = backlog_scen(i, backlog_n(ctx)) else { continue };
                    backlog_one(&mut out, &c, &steps, &mut reported, a == 0);
                }
            }
            CaseKind::BacklogRandom(ch, n) => {
                let mut rng = crate::core::rng::Rng::for_case(ctx.seed, "C18", "queued-hold", ch);
                let mut reported: std::collections::BTreeSet<String> = Default::default();
                for _ in 0..n {
                    let (c, steps) = backlog_random(&mut rng);
                    out.inc("hold_queued_scenarios_seeded");
                    backlog_one(&mut out, &c, &steps, &mut reported, ch == 0);
                }
            }
            CaseKind::Ops(ci, a, b) => {
                let confs = configs_a();
                let c = &confs[ci];
                let vs = &VSETS[c.vset];
                let cfg = c.text();
                let nm = NamesA {
                    out: vs.kinds.iter().map(|k| match k {
                        Kind::Key(o) | Kind::Macro(o) => code_name(osc(o)),
                        Kind::Layer => String::new(),
                    }).collect(),
                    probe: code_name(osc(PROBE)),
                    probe_nav: code_name(osc(PROBE_NAV)),
                };
                let mut sim = match Sim::new(&cfg) {
                    Ok(s) => s,
                    Err(e) => {
                        out.inconclusive = Some(format!("config rejected ({}): {}", c.label(), e.lines().next().unwrap_or("")));
                        return out;
                    }
                };
                let alpha = c.alphabet();
                let nmax = hist_len(ctx, c);
                let space = n_hist(alpha.len() as u64, nmax);
                let sampled = space > CAP_A;
                let mut reported: std::collections::BTreeSet<String> = Default::default();
                for i in a..b {
                    let hidx = if sampled { i.wrapping_mul(STRIDE) % space } else { i };
                    let ops = decode_hist(hidx, alpha.len() as u64, nmax);
                    let mut res = run_history_a(&mut sim, c, &ops, &nm);
                    if res.is_some() {
                        // confirm on a fresh instance
                        match Sim::new(&cfg) {
                            Ok(mut fresh) => {
                                let r2 = run_history_a(&mut fresh, c, &ops, &nm);
                                if r2.is_none() {
                                    out.inc("mismatch_not_reproduced_on_fresh_instance");
                                    out.inconclusive = Some("a mismatch on a re-used instance did not reproduce on a fresh one".into());
                                }
                                res = r2;
                            }
                            Err(_) => {}
                        }
                        if let Ok(s2) = Sim::new(&cfg) {
                            sim = s2;
                        }
                    }
                    out.inc("op_histories");
                    out.inc(&format!("op_histories_{:?}", c.path));
                    out.count("operations", ops.len() as u64);
                    for j in &ops {
                        out.inc(&format!("ops_{}", alpha[*j].1.old_name()));
                    }
                    if ops.len() >= 2 {
                        out.tag(format!("{}|{}", c.label(), ops.iter().take(4).map(|j| j.to_string()).collect::<Vec<_>>().join(",")));
                    }
                    if let Some((sig, what, wit)) = res {
                        if reported.insert(sig.clone()) {
                            out.violate(sig, format!("{}: {what}", c.label()), wit);
                        }
                    }
                }
                if a == 0 && ci % 7 == 3 {
                    out.sample = Some(json!({"config": cfg, "histories": format!("all operation histories up to {nmax} operations over {} (virtual key, operation) pairs", alpha.len())}));
                }
            }
            CaseKind::Timed(ci, a, b) => {
                let confs = configs_t();
                let c = &confs[ci];
                let nm = [code_name(osc("1")), code_name(osc(TKEYS[2])), code_name(osc(T_VK2_OUT))];
                let kind = if c.idle { "on-idle" } else { "hold-for-duration" };
                let (taps, upto2) = (timed_taps_space(c, 2), timed_space(c, 2));
                let mut reported: std::collections::BTreeSet<String> = Default::default();
                for i in a..b {
                    let Some(evs) = timed_pick(c, i) else { continue };
                    let horizon = evs.last().map(|e| e.0).unwrap_or(0) + 3 * c.d.max(c.d2) as u64 + 30;
                    let (exp, st) = if c.idle { model_idle(c.d as u64, &evs, horizon, c.order, c.second) } else { model_hfd([c.d as u64, c.d2 as u64], &evs, horizon) };
                    let (obs, raw, hist, ok) = run_timed(c, &evs, &nm);
                    out.inc("timed_scenarios");
                    out.inc(&format!("timed_scenarios_{kind}"));
                    out.count("hold_rearms", st.rearms);
                    out.count("hold_episodes", st.episodes);
                    out.count("idle_firings", st.idle_firings);
                    out.count("idle_countdowns_interrupted", st.idle_prevented);
                    if c.idle {
                        if c.order == Order::PredFirst {
                            out.inc("idle_scenarios_predicate_then_event_then_tick");
                            out.count("idle_count_restarted_by_release_of_non_normal_key_loop_order", st.idle_restart_release_non_normal);
                            out.count("idle_firings_after_release_of_held_non_normal_key_loop_order", st.idle_firings_after_held_non_normal_release);
                        } else {
                            out.inc("idle_scenarios_event_then_predicate_then_tick");
                        }
                        out.count("idle_count_restarted_by_release_of_non_normal_key", st.idle_restart_release_non_normal);
                        if c.second == Second::Same {
                            out.count("idle_count_restarted_by_release_of_on_idle_key", st.idle_restart_release_non_normal);
                        } else {
                            out.count("idle_count_restarted_by_release_of_on_idle_key", st.idle_restart_release_non_normal - st.idle_restart_release_second);
                            out.count(&format!("idle_count_restarted_by_release_of_{}", c.second.name()), st.idle_restart_release_second);
                        }
                        out.count("idle_count_restarted_by_press_of_non_normal_key", st.idle_restart_press_non_normal);
                        out.count("idle_count_restarted_by_os_repeat", st.idle_restart_repeat);
                        out.count("idle_firings_after_release_of_held_non_normal_key", st.idle_firings_after_held_non_normal_release);
                    } else {
                        if i >= taps && i < upto2 {
                            out.inc("hold_sweep_scenarios");
                        }
                        if c.mixed() {
                            out.inc("hold_scenarios_two_durations_on_one_virtual_key");
                            out.count("hold_rearms_by_key_with_other_duration", st.rearms_other_duration);
                            out.count("hold_rearms_shortening_the_time_left", st.rearms_shortening);
                            out.count("hold_rearms_lengthening_the_time_left", st.rearms_lengthening);
                        }
                    }
                    out.tag(format!("{}|{}|{}|{}|{}|{}|{}", c.label(), evs.len(), st.rearms, st.episodes, st.idle_firings, st.rearms_shortening, st.idle_restart_release_non_normal + st.idle_restart_repeat));
                    let mut sig: Option<(String, String)> = None;
                    if !ok {
                        sig = Some((format!("C18:{kind}:stuck"), "a key stayed down or kanata did not become idle".into()));
                    } else if obs != exp {
                        let cnt = |v: &[TOut], down: bool| v.iter().filter(|o| o.key == 0 && o.down == down).count();
                        let same_order = obs.len() == exp.len() && obs.iter().zip(&exp).all(|(x, y)| x.down == y.down && x.key == y.key);
                        let mut class: String = if obs.iter().any(|o| o.key == 9) {
                            "unexpected-output".into()
                        } else if cnt(&obs, true) > cnt(&exp, true) {
                            if c.idle { "fired-too-often-or-early" } else { "extra-events-on-retrigger" }.into()
                        } else if cnt(&obs, true) < cnt(&exp, true) {
                            if c.idle { "not-fired" } else { "missing-press" }.into()
                        } else if same_order {
                            // same events, different ticks: name the first one that differs
                            match obs.iter().zip(&exp).find(|(x, y)| x.at != y.at) {
                                Some((x, y)) if c.idle && x.key == 0 && x.down => {
                                    // the input event that preceded the observed firing
                                    let before = evs.iter().filter(|e| e.0 + 1 < x.at.min(y.at)).last().map(|e| match e.1 {
                                        QE::R(2) | QE::P(2) => "plain-key-event",
                                        QE::R(_) => "release-of-non-normal-key",
                                        QE::P(_) => "press-of-non-normal-key",
                                        QE::Rep(_) => "os-repeat",
                                        _ => "event",
                                    });
                                    format!("{}:after-{}", if x.at < y.at { "fired-early" } else { "fired-late" }, before.unwrap_or("nothing"))
                                }
                                Some((x, y)) if !c.idle && x.key == 0 && !x.down => if x.at < y.at { "released-early" } else { "released-late" }.into(),
                                _ => "timing".into(),
                            }
                        } else {
                            "order".into()
                        };
                        if c.mixed() {
                            class.push_str(":two-durations-on-one-virtual-key");
                        }
                        sig = Some((format!("C18:{kind}:{class}"), "the OS key stream differs from the model's".into()));
                    }
                    if let Some((sig, what)) = sig {
                        if reported.insert(sig.clone()) {
                            out.violate(
                                sig,
                                format!("{}: {what}", c.label()),
                                json!({"config": c.text(), "history": render_hist(&hist), "observed": raw, "expected": render_touts(&exp, &nm), "note": if c.order == Order::PredFirst { "every millisecond is driven like one iteration of the processing loop: blocking predicate (it advances the idle count), the event if one is due, the tick" } else { "the blocking predicate is consulted between the event of a millisecond and its tick (event handled while the loop was spinning)" }}),
                            );
                        }
                    }
                    if out.sample.is_none() && a == 0 && evs.len() >= 6 {
                        out.sample = Some(json!({"config": c.text(), "history": render_hist(&hist), "observed": raw, "expected": render_touts(&exp, &nm)}));
                    }
                }
            }
        }
        out
    }
    fn rule(&self) -> String {
        "case = (a) one configuration (virtual key sets {key}, {key,key}, {key,layer-while-held}, {key,layer,macro}; trigger path direct fake-key call / on-press / on-release / legacy on-press-fakekey / legacy on-release-fakekey / macro item / defseq completion) and a chunk of ALL operation histories up to N operations over every (virtual key, press|release|tap|toggle) pair (macro keys: tap only); quick N=5 (4 for the larger sets on the slower paths), thorough N=7 (6); every history is compared with the reference model after every operation (OS key state, active layer) and as a whole (OS key stream, plus a probe key press showing the layer through the OS stream); the model is the same for every path, so equal effect across paths is implied; (b) hold-for-duration with durations (key 0, key 1 on the SAME virtual key) in {(10,10),(40,40),(40,10),(10,40),(15,12)} and on-idle D=10 (second key: the same on-idle action / layer-while-held / XX / (on-release tap-vkey k2)), D=40 (same action; layer-while-held in loop order) and the legacy form (D=10), each on-idle configuration driven in two orders per millisecond: blocking predicate - event - tick (an iteration of the real processing loop) and event - blocking predicate - tick: a first activation followed by ALL sequences of up to 2 further taps (thorough: plus those with 3, complete or a fixed-stride sample of 250 000 per configuration) of the same key, the second key or a plain key, at every combination of distances (hold-for-duration: press-to-press 2, 3, x-2..x+2 for each duration x, L-S-1..L-S+1, 2L; on-idle: release-to-press 3, D-1..D+2, 2D+5) and hold lengths (hold-for-duration 1, 4; on-idle: first tap 1, D/2, further taps 1, 4, D/2, D-2 and 2D+3 - the last with OS repeat events every D/2 for keys that are not normal keys), plus for hold-for-duration the complete sweep: activation by key a, second activation by key b at EVERY distance 2..max(D)+3, optionally a third tap of any of the three keys at a distance around S, L, L-S; compared tick by tick with the model (hold-for-duration: up d[k] after the latest activation made by key k; on-idle: the idle count restarts at every input event - press, release, OS repeat - and while something is queued or an output key is down); (c) on-idle armed before a long macro: fires exactly once and not before D ticks after the macro's last output. (d) hold-for-duration whose own press is still waiting in the queue: (D on key 0, D on key 1) in {(1,1),(2,2),(3,3),(5,5),(5,2),(2,5)} with two keys carrying the action for one virtual key, a plain key and a tap-hold key (timeout 6); ALL toggle scenarios (each step presses the key if it is up, releases it if it is down) of up to 4 (quick) / 5 (thorough) steps over the 4 keys and the distances {0,1,2,7} to the previous event (0 = same millisecond, 7 = longer than every D and than the tap-hold timeout), plus seeded longer scenarios (4..10 steps, D in {1,2,3,4,5,8,12}, in half of them a second duration from {1,2,3,4,5,8,12,20} on the second key, tap-hold timeout in {4,6,15,30}, bursts of same-millisecond events); the virtual key must come down once per episode and go up again D after the latest activation was processed, compared tick by tick with the queue model (one queued event consumed per tick, none while the tap-hold is undecided or during the pause after its decision; the virtual key's press and release wait behind everything queued before them), and in plain form: every press of the virtual key is followed by its release. (e) rapid-fire operation histories, judged by the model of (a) (operations applied in the order issued, whatever the spacing; final state of every virtual key, the whole OS stream and the layer activations sampled after every tick, at order level): virtual key sets {key}, {layer-while-held}, {key,layer}; paths: direct fake-key calls (all four operations on every key), physical keys (one virtual key: two keys `(multi (on-press press-vkey v) (on-release release-vkey v))`, `(on-press toggle-vkey v)`, `(on-release tap-vkey v)`, `(multi (on-press release-vkey v) (on-release press-vkey v))`; two virtual keys: two such hold keys per virtual key, a key toggling one on press and the other on release, a key tapping one on press and the other on release) and mixed (two hold keys plus the direct operations); ALL histories of up to 4 (quick; 3 for direct calls on two virtual keys) / 5 (thorough; 4; beyond 600 000 per configuration a fixed-stride sample) steps, each step a physical key (pressed if up, released if down) or a direct operation, at the distances {0,1,2,5} (one virtual key, direct and physical) or {0,1,3} ticks to the previous step (0 = same millisecond), keys still down released one tick apart at the end; plus seeded histories of 5..10 steps with bursts of same-millisecond steps. (f) on-idle while a hold-for-duration is pending: keys `(multi (hold-for-duration L vh) (on-idle D tap-vkey k1))`, `(hold-for-duration L vh)`, a plain key (another key on the held layer) and `(on-idle D tap-vkey k1)`; vh carries a layer-while-held action, a macro or a plain key; (D,L) in {(10,25),(8,9),(20,7)} in loop order (predicate - event - tick) and (10,25) also with the predicate between event and tick; a first tap of any of the four keys followed by ALL sequences of up to 2 further taps (thorough: plus 3, complete or a fixed-stride sample of 60 000 per configuration) of the four keys at the release-to-press distances {2, D-1, D+1, L-D, L-1, L+1, L+D-1, L+D+2}; compared tick by tick with the combined model (the idle count does not run while a hold-for-duration is pending, i.e. from the activation until the queued release of the held key has been processed; hold-for-duration as in (b)), and in plain form: the on-idle key never comes down while a hold-for-duration is pending. (g) several on-idle entries pending at once, each `(on-idle D_i tap-vkey v_i)` with a virtual key of its own: timeouts {10,10}, {25,25}, {10,10,10}, {10,10,25}, {8,20,20}, {10,11,10}, {8,14,20} (control: never two due together) and {10,10} in the legacy on-idle-fakekey form; physical keys: one key arming all entries in one `multi`, keys arming one entry or a `multi` of two, a plain key; loop order (predicate - event - tick) for all, predicate between event and tick for the first four; a first tap of any arming key followed by ALL sequences of up to 2 further taps (thorough: plus 3, complete or a fixed-stride sample of 40 000 per configuration) of any key, held 1 or 3 ticks, at the release-to-press distances {2, S-1, S+1, S+4, L-1, L+2, S+L+3n+4, 2L+S+6n+6} (S / L = shortest / longest timeout, n = number of entries; S+1 and S+4 fall into the operation of the fired keys); compared tick by tick with the model (shared idle count as in (b); at the end of a tick EVERY pending entry whose timeout the count has reached fires - press and release of its virtual key are queued -, each exactly once; entries due in the same tick may fire in any order: the expected stream takes the order of the observed one), and in plain form: all virtual keys of entries that were due in the same tick come down, within 2(n-1) ticks of each other; at the end no entry is left waiting. (h) virtual keys defined in several blocks: 2 blocks (keys per block 1+1, 2+1, 1+2, 2+2) and 3 blocks (1+1+1, 2+1+2, 1+2+1, 2+2+2), each block written as deffakekeys or defvirtualkeys in EVERY combination (4 resp. 8 mixes, file order = block order), each layout in two shapes: all blocks before the layers and every key a plain key with an output of its own; the last block (for some 3-block layouts the last two) after the layers, the first key of the first block a macro and the first key of the last block layer-while-held; each with the 7 trigger paths of (a) (the action spelling is independent of the spelling of the block that defines the key); ALL histories of 1 and 2 operations over every (virtual key, press|release|tap|toggle) pair (macro keys: tap only) plus seeded histories of 3..7 operations (16 per configuration in quick, 160 in thorough), spaced and judged as in (a): after every operation the OS state of EVERY virtual key of every block and the active layer, at the end the whole OS stream with the layer probe; a legal configuration that is rejected is a violation. (i) hold-for-duration pending for several virtual keys: 2 or 3 virtual keys (plain key outputs; one configuration lsft / lctl); physical keys: one `multi` arming all keys with EQUAL durations, keys arming one virtual key each with durations 3..9 ticks apart, a `multi` with durations one tick apart, a `multi` of two next to a single key, a plain key; a first tap of any arming key followed by ALL sequences of up to 2 further taps (thorough: plus 3, complete or a fixed-stride sample of 60 000 per configuration) of any key at EVERY press-to-press distance from 2 to (largest difference of two durations)+2 and one distance longer than every duration, keys held 1 tick; compared tick by tick with the model of (b) for a set of virtual keys (a pending key that is armed again only gets its time set anew; the release of every key whose time runs out in a tick is queued in that tick, several in any order - the expected stream takes the order of the observed one; one queued event consumed per tick), and in plain form: no virtual key is down at the end. Non-trivial = history/scenario ran and was judged; distinct = (configuration, first four operations) / (configuration, events, re-arms, episodes, firings, re-arms that shorten the time left, idle restarts by release/repeat) / (configuration, events, same-millisecond events, episodes, re-arms, expiries before the press was processed, tap-hold outcomes) / (rapid configuration, events, same-millisecond pairs, operations issued while an own event was queued, presses issued while the own release was queued, expected outputs) / (idle+hold configuration, events, episodes, re-arms, firings, firings delayed by the pending hold) / (several-entries configuration, events, firings, ticks with entries due together, of these armed by different keys, firings of entries left pending by an earlier firing) / (block layout, shape, path, first three operations) / (several-holds configuration, events, episodes, re-arms, ticks with times running out together, times running out one tick apart, of the former armed by different presses).".into()
    }
    fn assumptions(&self) -> Vec<String> {
        vec![
            "part (a): operations are spaced so that each one has taken effect before the next (at least 4 ticks and until kanata is quiet) and the state is judged after every operation; rapid-fire operations (0, 1, 2 ... ticks apart) are judged in part (e) by the same model - operations applied in the order in which they are issued: a direct call is issued at once, a physical key's operation in the tick that processes its press / release (one queued event per tick) - on the state every virtual key ends up in and on the whole stream at order level (intermediate states cannot be attributed to single operations there)".into(),
            "part (e): virtual keys with a key or a layer-while-held action (a macro key has no state that a fast history could get wrong); at most 17 events are ever queued (keyberon's queue holds 32). toggle-vkey on the unchanged tree looks at the processed state, not at the events still queued (known finding C18:rapid:toggle-reads-state-before-own-queued-event:*, findings/C18-toggle-reads-state-before-queued-events.md): a history is put into that class only if a toggle was issued while the processed state of its virtual key differed from the state the operations issued so far lead to AND the complete observation (stream and final state) equals the reference model with exactly that reading of toggle; everything else is live".into(),
            "part (f): a pending hold-for-duration means kanata is not idle (the guide: kanata is not idle while it 'is waiting for the timeout of actions'; upstream's is_idle says the same) - from the tick in which the activation is processed until the queued release of the held key has been processed; taps of the on-idle keys are held 1 tick, of the other keys 1 or 3 ticks; L >= 7 so that the macro of a macro-carrying virtual key has finished long before the hold ends; one input event per millisecond".into(),
            "part (g): all pending on-idle entries share one idle time (the statement's 'after kanata has been idle for the stated time'): arming any entry and every input event restart it for all of them; the operation of a virtual key fired by on-idle is activity like any other (events queued, an output key down), so an entry left pending by a firing needs a complete idle time of its own afterwards; the order among entries that become due in the same tick is not specified (any order is accepted, the keys are operated one queued event per tick); every entry has a virtual key of its own and a tap action, and entries that are identical (same virtual key, action and timeout) are one entry; one input event per millisecond; keys are held 1 or 3 ticks".into(),
            "part (h): deffakekeys and defvirtualkeys are two spellings that fill one set of virtual keys (the guide: deffakekeys is the older name), so every action spelling (on-press / on-press-fakekey / ...) may name a key of either kind of block and a block may follow the layers that use its keys; names are unique over all blocks; operations are spaced as in part (a)".into(),
            "part (i): every virtual key has its own hold time (the statement's 'stated time since its most recent activation' per key); the order in which releases that become due in the same tick reach the OS is not specified (any order accepted, one per tick); one input event per millisecond, keys held 1 tick, press-to-press distance at least 2; the queue discipline is that of part (b) (a `multi` queues the presses of its virtual keys in the order written)".into(),
            "a virtual key with a macro action is only tapped (a macro cannot be held; the guide's press/toggle wording has no meaning for it)".into(),
            "layer-while-held virtual keys are observed through Layout::current_layer after every operation and through a probe key in the OS stream at the end of each history".into(),
            "timed forms: processing discipline of DESIGN appendix A (one queued event per tick; virtual key events are queued behind pending physical events); hold-for-duration releases D ticks after the tick of the latest activation; on-idle fires in the tick in which D idle loop iterations have been counted, any input resets the count".into(),
            "on-idle is only exercised with tap actions; it is re-armed by pressing its key again, before or after it fired".into(),
            "on-idle, idle measurement: every input event (press, release, OS repeat, of any key) restarts the idle count, and the count does not run while an event is queued or an output key (plain key, virtual key) is down. Whether a HELD key whose held state is not a key (on-idle key, layer-while-held, XX, custom-action key) keeps kanata busy is not decided by the guide (the code says it does not, so on-idle can fire during such a hold): such keys are only held for less than D ticks, or longer with OS repeats arriving every D/2, where both readings give the same expectation. One input event per millisecond in these scenarios; each millisecond is one loop iteration, driven either as blocking predicate - event - tick (the loop's own order) or event - blocking predicate - tick (event handled less than 1 ms after the previous tick); ticks are run even where the loop would block (before the first on-idle activation), (that skipping them changes nothing is the subject of C07)".into(),
            "hold-for-duration with two durations on one virtual key: the guide's 'the time will be reset' is read as reset to the duration stated by the action that re-triggered (the statement's 'stated time since its most recent activation')".into(),
            "hold-for-duration with queued events (part d): events without a tick between them are delivered in the same millisecond in the order given; the activation counts from the tick in which the key's press is processed (not from its arrival), so a press that waited in the queue shortens the visible hold time and, when the countdown ends before the queued press was processed, the key is pressed and released in consecutive ticks; the tap-hold key follows DESIGN appendix A (tap iff its release is seen before the timeout, time spent waiting in the queue deducted; input processing pauses rapid-event-delay = 5 ticks after a tap decision, not after a timeout); at most 16 events are ever queued (keyberon's queue holds 32)".into(),
            "the TCP path is represented by the function the TCP server calls (handle_fakekey_action); no socket is opened".into(),
        ]
    }
    fn floors(&self, _ctx: &Ctx) -> Vec<(&'static str, u64)> {
        vec![
            ("op_histories", 50_000),
            ("op_histories_Direct", 5_000),
            ("op_histories_OnPress", 5_000),
            ("op_histories_OnRelease", 2_000),
            ("op_histories_LegacyPress", 2_000),
            ("op_histories_LegacyRelease", 2_000),
            ("op_histories_MacroItem", 2_000),
            ("op_histories_Seq", 2_000),
            ("ops_toggle", 20_000),
            ("ops_tap", 20_000),
            ("hold_rearms", 500),
            ("hold_episodes", 1_000),
            ("idle_firings", 1_000),
            ("idle_countdowns_interrupted", 200),
            ("hold_scenarios_two_durations_on_one_virtual_key", 15_000),
            ("hold_sweep_scenarios", 8_000),
            ("hold_rearms_by_key_with_other_duration", 5_000),
            ("hold_rearms_shortening_the_time_left", 2_000),
            ("hold_rearms_lengthening_the_time_left", 5_000),
            ("idle_scenarios_predicate_then_event_then_tick", 50_000),
            ("idle_scenarios_event_then_predicate_then_tick", 50_000),
            ("idle_count_restarted_by_release_of_non_normal_key_loop_order", 80_000),
            ("idle_count_restarted_by_release_of_on_idle_key", 100_000),
            ("idle_count_restarted_by_release_of_layer_while_held_key", 3_000),
            ("idle_count_restarted_by_release_of_no_op_key", 3_000),
            ("idle_count_restarted_by_release_of_custom_action_key", 3_000),
            ("idle_count_restarted_by_press_of_non_normal_key", 40_000),
            ("idle_count_restarted_by_os_repeat", 50_000),
            ("idle_firings_after_release_of_held_non_normal_key_loop_order", 30_000),
            ("idle_firings_after_busy_period", 4),
            ("hold_queued_scenarios", 50_000),
            ("hold_queued_scenarios_seeded", 4_000),
            ("hold_queued_episodes_duration_1", 10_000),
            ("hold_queued_episodes_duration_1_to_3", 40_000),
            ("hold_queued_events_in_same_ms", 40_000),
            ("hold_queued_press_waited_2_or_more_ticks", 20_000),
            ("hold_queued_expired_before_press_processed", 20_000),
            ("hold_queued_expired_before_press_processed_duration_2_or_more", 5_000),
            ("hold_queued_expired_behind_undecided_tap_hold", 2_000),
            ("hold_queued_rearm_before_press_processed", 2_000),
            ("hold_queued_rearms", 5_000),
            ("hold_queued_rearms_by_key_with_other_duration", 3_000),
            ("hold_queued_rearms_shortening_the_time_left", 1_500),
            ("rapid_histories", 150_000),
            ("rapid_histories_direct", 30_000),
            ("rapid_histories_on-press+on-release", 80_000),
            ("rapid_histories_mixed", 50_000),
            ("rapid_histories_seeded", 4_000),
            ("rapid_same_ms_event_pairs", 100_000),
            ("rapid_rolls_between_two_hold_keys", 4_000),
            ("rapid_ops_issued_while_own_event_queued", 200_000),
            ("rapid_press_issued_while_own_release_queued", 15_000),
            ("rapid_press_issued_while_own_release_queued_by_physical_key", 10_000),
            ("rapid_press_issued_while_own_release_queued_direct_call", 4_000),
            ("rapid_press_issued_while_own_release_queued_key_virtual_key", 8_000),
            ("rapid_press_issued_while_own_release_queued_layer_virtual_key", 8_000),
            ("rapid_release_issued_while_own_press_queued", 25_000),
            ("rapid_tap_issued_while_own_event_queued", 30_000),
            ("rapid_toggle_issued_while_own_event_queued", 15_000),
            ("idle_hold_scenarios", 40_000),
            ("idle_hold_scenarios_loop_order", 30_000),
            ("idle_hold_scenarios_layer_virtual_key", 12_000),
            ("idle_hold_scenarios_macro_virtual_key", 12_000),
            ("idle_hold_scenarios_key_virtual_key", 12_000),
            ("idle_hold_firings", 30_000),
            ("idle_hold_rearms", 5_000),
            ("idle_hold_count_held_back_only_by_pending_hold_layer_virtual_key", 100_000),
            ("idle_hold_count_held_back_only_by_pending_hold_macro_virtual_key", 80_000),
            ("idle_hold_firings_delayed_by_pending_hold_layer_virtual_key", 3_000),
            ("idle_hold_firings_delayed_by_pending_hold_macro_virtual_key", 3_000),
            ("idle_hold_scenarios_where_counting_through_the_hold_fires_early_layer_virtual_key", 3_000),
            ("idle_hold_scenarios_where_counting_through_the_hold_fires_early_macro_virtual_key", 3_000),
            ("idle_multi_scenarios", 30_000),
            ("idle_multi_scenarios_loop_order", 20_000),
            ("idle_multi_scenarios_legacy_form", 2_000),
            ("idle_multi_firings", 100_000),
            ("idle_multi_ticks_with_2_entries_due_together", 20_000),
            ("idle_multi_ticks_with_3_entries_due_together", 3_000),
            ("idle_multi_due_together_armed_by_one_multi", 15_000),
            ("idle_multi_due_together_armed_by_different_keys", 5_000),
            ("idle_multi_due_together_with_longer_entry_left_pending", 5_000),
            ("idle_multi_firings_of_entry_left_pending_by_earlier_firing", 20_000),
            ("idle_multi_inputs_while_fired_keys_queued", 15_000),
            ("idle_multi_rearms_of_pending_entry", 15_000),
            ("blocks_configs", 600),
            ("blocks_configs_2_blocks", 200),
            ("blocks_configs_3_blocks", 400),
            ("blocks_configs_2_or_more_deffakekeys_blocks", 250),
            ("blocks_configs_2_or_more_defvirtualkeys_blocks", 250),
            ("blocks_configs_both_spellings", 400),
            ("blocks_configs_deffakekeys_block_first", 200),
            ("blocks_configs_defvirtualkeys_block_first", 200),
            ("blocks_configs_block_after_the_layers", 300),
            ("blocks_histories", 150_000),
            ("blocks_histories_Direct", 20_000),
            ("blocks_histories_OnPress", 20_000),
            ("blocks_histories_OnRelease", 20_000),
            ("blocks_histories_LegacyPress", 20_000),
            ("blocks_histories_LegacyRelease", 20_000),
            ("blocks_histories_MacroItem", 20_000),
            ("blocks_histories_Seq", 20_000),
            ("blocks_histories_seeded", 10_000),
            ("blocks_operations_on_key_of_second_block", 100_000),
            ("blocks_operations_on_key_of_third_block", 80_000),
            ("blocks_operations_on_key_of_later_deffakekeys_block", 100_000),
            ("blocks_operations_on_key_of_later_defvirtualkeys_block", 100_000),
            ("blocks_operations_while_key_of_another_block_pressed", 40_000),
            ("hold_multi_scenarios", 40_000),
            ("hold_multi_scenarios_2_virtual_keys", 20_000),
            ("hold_multi_scenarios_3_virtual_keys", 15_000),
            ("hold_multi_episodes", 90_000),
            ("hold_multi_rearms", 40_000),
            ("hold_multi_ticks_with_2_keys_due_together", 10_000),
            ("hold_multi_ticks_with_3_keys_due_together", 3_000),
            ("hold_multi_due_together_armed_by_one_multi", 12_000),
            ("hold_multi_due_together_armed_by_different_presses", 800),
            ("hold_multi_due_together_after_rearm", 8_000),
            ("hold_multi_due_together_with_other_key_left_pending", 2_500),
            ("hold_multi_due_one_tick_apart", 6_000),
            ("hold_multi_several_pending_never_due_together", 15_000),
        ]
    }
    fn exhaustive(&self, _ctx: &Ctx) -> bool {
        true
    }
}
