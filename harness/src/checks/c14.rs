//! C14 — OS key-repeat is forwarded for, and only for, keys kanata is holding down.
//!
//! Oracle: invariant monitor on the stepper's OS model.
//!  * safety (always): a `Repeat` input produces at most one output, it is a repeat, and it is for a
//!    key that is down in the OS model at that moment;
//!  * completeness (only under the statement's precondition): the repeated physical key was pressed
//!    from a settled state, the layer stack has not changed since, kanata is not in sequence mode,
//!    and the set "down now, not down before that press, inside the key's private output alphabet"
//!    is non-empty -> exactly one repeat is emitted and it is for a key of that set; if the key's
//!    actions use modifiers only as output-chord prefixes and a non-modifier of the set is down,
//!    the repeat is for a non-modifier.
//!
//! Every judged physical key has its own output alphabet (letters, two modifiers, override
//! outputs), so attribution never depends on kanata's tables.
//!
//! Overrides (`defoverrides`) stay inside one alphabet (except for the "foreign" outputs z and x
//! described below) but are otherwise unrestricted: the input key
//! is mostly one the cells of the judged key really list, the output is a private override key or
//! another LETTER of the alphabet (a key cells list themselves, and possibly the input of another
//! override), the input modifier is one of the alphabet's two modifiers (held by the cell itself) or
//! the context modifier lmet (held by the history). 2 of 5 override configurations contain a CHAIN
//! K1->K2, K2->K3 (optionally K3->K4) whose links have different input modifiers. Completeness is
//! judged for them like for everything else: whatever of the key's alphabet is down and was not down
//! before the press must be repeated - in particular an override output that the cell does not list
//! itself (`judged_with_override_output_down`) and the tail K3 of a chain when the cell lists K1 and
//! K2 (`judged_with_chained_override_tail_down[_k1_listed_first]`). A dropped repeat is classified by
//! what is down: only keys the cell cannot put down without an override
//! (`C14:repeat-dropped:override-output-down`), reached through a chain
//! (`C14:repeat-dropped:chained-override-output-down`), anything else (`C14:repeat-dropped`).
//!
//! Chords v2: 2-4 chords over the three judged keys ((q w) (w e) (q e) (q w e), each with its own
//! output key) in random definition order, so every judged key of such a configuration takes part in
//! two or more chords; 3 of 4 configurations give every chord a random disabled-layers list. The
//! oracle is unchanged (whatever chord output the OS model shows down and attributable to the press must
//! be repeated); the counters `judged_with_v2_chord_output_down_*` record what precedes the held chord
//! in the definition order: another chord of the repeated key that is disabled on the active layer /
//! on every layer the repeat lookup consults, and whether the repeated key was the one pressed last.
//! A dropped repeat with nothing but v2 chord outputs attributed is `C14:repeat-dropped:chords-v2-output-down`.
//!
//! The defsrc fallback with overrides: 1 of 5 override configurations make one judged key transparent on
//! the base layer (2 of 3: on every layer) and put 1-3 overrides on its defsrc key; independently, every
//! random override has 1 chance in 12 to keep its key and only change modifiers (`(lctl q) (lsft q)`,
//! `(lctl q) (q)`) and 1 in 6 to output z or x, keys that a context key holds down by itself ("foreign"
//! output: the override output can be down because ANOTHER physical key holds it). "At most one output
//! per Repeat" is judged on the raw output stream of the Repeat event (every write, before any
//! filtering), always. A forwarded key outside the attributed set is judged as before, except that a
//! foreign override output is only judged when the input key of every override (on a key of the repeated
//! key's alphabet) with that output is down at the OS: an active override replaces its input key, so
//! then none of them is active and only the other physical key can be what holds the forwarded key.
//!
//! Known classes of the unchanged tree are bounded structurally: `repeat-of-foreign-key:inactive-override-
//! output-held-by-other-key` only when the effective cell is NOT transparent (layer-table path), lists
//! the input key of such a demonstrably inactive override and the forwarded key is its foreign output
//! (for a transparent cell - the defsrc fallback - the same observation is the live class
//! `C14:repeat-of-foreign-key`); `repeat-of-up-key:modifier-released-by-visible-backspaced-completion-
//! in-the-same-tick` only in visible-backspaced mode, after the sequence ended, for ctrl/alt/meta whose
//! release at the OS is among the outputs of the last tick before the Repeat event (same millisecond). Classes that were known before the repairs and are live now:
//! `defsrc-fallback+override` only when the effective cell is transparent, the defsrc key itself is the input of an override and nothing but
//! outputs of overrides on it (and modifiers) is attributed; `repeat-of-up-key:unmod+override` only when
//! the key that is up is the input or output key of an override;
//! `defsrc-fallback+override-modifier-stripped-by-unmod` only for a transparent cell, an unmod key
//! pressed in the window, an override with an input modifier on the defsrc key and the defsrc key
//! itself down.
//!
//! Layer-stack family (`c14_stack.rs`, the cases after the main family): the private alphabets above
//! make it impossible that a key which a LOWER layer of the stack lists for a physical key is down
//! through ANOTHER physical key. The second family therefore draws every cell of 4 physical keys
//! (a s d f) on 2-4 layers from one shared pool of 6 output keys (a s d f j k): identity cells (the key
//! mapped to itself, as key name or `use-defsrc`), other plain keys, output chords, `multi`,
//! transparent, `XX`; half of the configurations have a base layer that permutes the physical keys
//! (Dvorak-like base under qwerty-like held layers). Layers are activated by `layer-while-held` /
//! `layer-toggle` keys (0-3 held layers over base layer l0 or, after `layer-switch`, l1), 1-4 physical
//! keys are held together, repeats go mostly to the most recently pressed key. All cells are
//! unconditional, so the first non-transparent cell of the stack (held layers newest first, base layer,
//! defsrc key) says which keys the press put down; while one of them is down the repeat must be exactly
//! one repeat of one of THOSE keys (`C14:layer-stack:repeat-dropped`,
//! `C14:layer-stack:repeat-for-output-of-cell-below-the-effective-layer`,
//! `C14:layer-stack:repeat-for-output-of-cell-on-inactive-layer`, `C14:layer-stack:repeat-of-foreign-key`,
//! `C14:layer-stack:repeat-of-modifier-instead-of-key` for output chords). A systematic, seed-independent
//! part enumerates all 7^3 kind triples for one key on l2/l1/l0 x both layer action names x every stack
//! over l0 x {other key held first, alone, other key pressed after}.

use crate::core::rng::Rng;
use crate::core::sim::{code_name, osc, render_hist, Ev, OutKind, Sim};
use crate::core::{CaseOut, Check, Ctx};
use serde_json::{json, Value};
use std::collections::BTreeSet;

#[path = "c14_stack.rs"]
mod c14_stack;

pub struct C14Check;
pub static C14: C14Check = C14Check;

// ------------------------------------------------------------------------------------------------
// configuration generator

struct Alph {
    phys: &'static str,
    letters: &'static [&'static str],
    mods: &'static [&'static str],
    ov: &'static [&'static str],
}

const ALPH: [Alph; 3] = [
    Alph { phys: "q", letters: &["q", "a", "s", "d", "f", "g"], mods: &["lsft", "lctl"], ov: &["1", "2"] },
    Alph { phys: "w", letters: &["w", "h", "j", "k", "l", "n"], mods: &["rsft", "rctl"], ov: &["3", "4"] },
    Alph { phys: "e", letters: &["e", "u", "i", "o", "p", "y"], mods: &["lalt", "ralt"], ov: &["5", "6"] },
];
/// outputs of the two-key chords of the chords-v1 group, shared by the participants
const CHORD_POOL_V1: [&str; 2] = ["7", "9"];
/// chords v2: participant sets over the three judged keys (indices into ALPH) and the key the chord
/// outputs; every judged key takes part in three of the four sets
const V2_SETS: [(&[usize], &str); 4] = [(&[0, 1], "8"), (&[1, 2], "0"), (&[0, 2], "b"), (&[0, 1, 2], "c")];
const CTX_Z: &str = "z";
const CTX_X: &str = "x";
const CTX_MOD: &str = "lmet";
/// keys that a context key puts down by itself; an override on a judged key may output one of them
/// ("foreign" override output: a key that ANOTHER physical key can hold down)
const FOREIGN: [&str; 2] = [CTX_Z, CTX_X];
const LAYER_KEYS: [&str; 2] = ["f1", "f2"];
const SWITCH_KEYS: [&str; 2] = ["f3", "f4"];
const LEADER: &str = "f5";

fn prefix_of(m: &str) -> &'static str {
    match m {
        "lsft" => "S-",
        "rsft" => "RS-",
        "lctl" => "C-",
        "rctl" => "RC-",
        "lalt" => "A-",
        _ => "RA-",
    }
}

#[derive(Default, Clone)]
struct CellInfo {
    text: String,
    forms: BTreeSet<&'static str>,
    depth: u32,
    mod_as_key: bool,
    unmod: bool,
    transparent: bool,
    /// some key name is written twice in the cell (kanata lists every output once, so "last-listed"
    /// is then not the position in the text)
    dup_keys: bool,
    /// non-modifier keys of the judged alphabets the cell can put down itself, in listing order
    /// (config names; `use-defsrc` counts as the physical key, a chords-v1 cell lists the key's own
    /// group action)
    listed: Vec<String>,
    text_for_listing: Option<String>,
}

/// one `defoverrides` entry
#[derive(Clone, PartialEq)]
struct Ov {
    /// input modifier (config name), if any
    m_in: Option<&'static str>,
    k_in: String,
    m_out: Option<&'static str>,
    k_out: String,
}

struct ActGen<'a> {
    rng: &'a mut Rng,
    a: &'a Alph,
    n_layers: usize,
    info: CellInfo,
    allow_mod_keys: bool,
    t: u32,
}

impl<'a> ActGen<'a> {
    fn letter(&mut self) -> String {
        self.rng.pick(self.a.letters).to_string()
    }
    fn chord(&mut self) -> String {
        self.info.forms.insert("chord");
        let mut ms: Vec<&str> = self.a.mods.to_vec();
        self.rng.shuffle(&mut ms);
        let n = 1 + self.rng.usize(2);
        let p: String = ms.iter().take(n).map(|m| prefix_of(m)).collect();
        format!("{p}{}", self.letter())
    }
    fn leaf(&mut self) -> String {
        let r = self.rng.usize(10);
        if r < 5 {
            self.info.forms.insert("key");
            self.letter()
        } else if r < 8 {
            self.chord()
        } else if self.allow_mod_keys {
            self.info.forms.insert("mod-key");
            self.info.mod_as_key = true;
            self.rng.pick(self.a.mods).to_string()
        } else {
            self.info.forms.insert("key");
            self.letter()
        }
    }
    fn cond(&mut self) -> String {
        let l = format!("l{}", self.rng.usize(self.n_layers));
        match self.rng.usize(9) {
            0 => format!("({CTX_Z})"),
            1 => format!("({CTX_MOD})"),
            2 => format!("({CTX_Z} {CTX_MOD})"),
            3 => format!("((and {CTX_Z} {CTX_MOD}))"),
            4 => format!("((not {CTX_Z}))"),
            5 => format!("((input real {CTX_X}))"),
            6 => format!("((layer {l}))"),
            7 => format!("((base-layer {l}))"),
            _ => "()".to_string(),
        }
    }
    fn action(&mut self, depth: u32, allow_wait: bool, level: u32) -> String {
        self.info.depth = self.info.depth.max(level);
        if depth == 0 {
            return self.leaf();
        }
        let t = self.t;
        let r = self.rng.usize(100);
        if r < 22 {
            self.leaf()
        } else if r < 36 {
            self.info.forms.insert("multi");
            let n = 2 + self.rng.usize(2);
            let mut v = vec![];
            for i in 0..n {
                v.push(self.action(depth - 1, allow_wait && i == 0, level + 1));
            }
            format!("(multi {})", v.join(" "))
        } else if r < 56 {
            if !allow_wait {
                return self.leaf();
            }
            let variant = self.rng.usize(7);
            let tap = self.action(depth - 1, false, level + 1);
            let hold = self.action(depth - 1, false, level + 1);
            match variant {
                0 => {
                    self.info.forms.insert("tap-hold");
                    format!("(tap-hold {t} {t} {tap} {hold})")
                }
                1 => {
                    self.info.forms.insert("tap-hold-press");
                    format!("(tap-hold-press {t} {t} {tap} {hold})")
                }
                2 => {
                    self.info.forms.insert("tap-hold-release");
                    format!("(tap-hold-release {t} {t} {tap} {hold})")
                }
                3 => {
                    self.info.forms.insert("tap-hold-press-timeout");
                    let to = self.action(depth - 1, false, level + 1);
                    format!("(tap-hold-press-timeout {t} {t} {tap} {hold} {to})")
                }
                4 => {
                    self.info.forms.insert("tap-hold-release-timeout");
                    let to = self.action(depth - 1, false, level + 1);
                    format!("(tap-hold-release-timeout {t} {t} {tap} {hold} {to})")
                }
                5 => {
                    self.info.forms.insert("tap-hold-release-keys");
                    format!("(tap-hold-release-keys {t} {t} {tap} {hold} ({CTX_X}))")
                }
                _ => {
                    self.info.forms.insert("tap-hold-except-keys");
                    format!("(tap-hold-except-keys {t} {t} {tap} {hold} ({CTX_X}))")
                }
            }
        } else if r < 64 {
            if !allow_wait {
                return self.leaf();
            }
            let eager = self.rng.coin();
            self.info.forms.insert(if eager { "tap-dance-eager" } else { "tap-dance" });
            let n = 1 + self.rng.usize(3);
            let v: Vec<String> = (0..n).map(|_| self.action(depth - 1, false, level + 1)).collect();
            format!("({} {t} ({}))", if eager { "tap-dance-eager" } else { "tap-dance" }, v.join(" "))
        } else if r < 71 {
            self.info.forms.insert("one-shot");
            let v = *self.rng.pick(&["one-shot", "one-shot-press", "one-shot-release", "one-shot-press-pcancel", "one-shot-release-pcancel"]);
            let inner = if self.rng.coin() && self.allow_mod_keys {
                self.info.mod_as_key = true;
                self.rng.pick(self.a.mods).to_string()
            } else if self.rng.coin() {
                self.chord()
            } else {
                self.letter()
            };
            format!("({v} {} {inner})", t + 20)
        } else if r < 81 {
            self.info.forms.insert("fork");
            let l = self.action(depth - 1, allow_wait, level + 1);
            let rr = self.action(depth - 1, allow_wait, level + 1);
            let keys = *self.rng.pick(&[CTX_Z, CTX_MOD, "z lmet"]);
            format!("(fork {l} {rr} ({keys}))")
        } else if r < 91 {
            self.info.forms.insert("switch");
            let n = 1 + self.rng.usize(3);
            let mut s = String::from("(switch");
            for i in 0..n {
                let c = self.cond();
                let a = self.action(depth - 1, false, level + 1);
                let brk = if self.rng.chance(1, 3) {
                    self.info.forms.insert("switch-fallthrough");
                    "fallthrough"
                } else {
                    "break"
                };
                let _ = i;
                s.push_str(&format!(" {c} {a} {brk}"));
            }
            s.push(')');
            s
        } else if r < 96 {
            self.info.forms.insert("unmod");
            self.info.unmod = true;
            if self.rng.coin() {
                format!("(unmod {})", self.letter())
            } else {
                format!("(unmod {} {})", self.letter(), self.letter())
            }
        } else if r < 98 {
            self.info.forms.insert("unshift");
            self.info.unmod = true;
            format!("(unshift {})", self.letter())
        } else {
            self.info.forms.insert("use-defsrc");
            "use-defsrc".to_string()
        }
    }
}

/// one `defchordsv2` entry, in definition order
#[derive(Clone)]
struct V2Chord {
    /// participants (indices into ALPH)
    keys: Vec<usize>,
    out: &'static str,
    /// layers on which the chord is disabled
    disabled: Vec<usize>,
}

struct Cfg {
    text: String,
    /// chords v2 in definition order
    v2: Vec<V2Chord>,
    /// "fall-through focus": this judged key is transparent on the base layer (mostly on every layer)
    /// and its defsrc key is the input of the first overrides
    focus: Option<usize>,
    /// some override keeps its key and only changes modifiers (output key == input key)
    ov_same_key: bool,
    /// some override outputs a key of FOREIGN
    ov_foreign_out: bool,
    n_layers: usize,
    /// cells[layer][key]
    cells: Vec<Vec<CellInfo>>,
    has_overrides: bool,
    override_inputs: Vec<String>,
    ovs: Vec<Ov>,
    /// two overrides K1->K2 and K2->K3 with different input modifiers were generated on purpose
    ov_chain: bool,
    /// some override outputs a letter of the judged alphabets (a key cells list themselves)
    ov_letter_out: bool,
    /// some override takes the context modifier (a key outside every alphabet) as its input modifier
    ov_ctx_mod: bool,
    chords_v1: bool,
    chords_v2: bool,
    /// some override writes a modifier into its output
    ov_out_mods: bool,
    /// override-release-on-activation: override outputs are only tapped, nothing stays down to repeat
    ov_release: bool,
    t: u32,
    seq_mode: &'static str,
    /// OS names: what a key's own actions (and the chords it takes part in) can output
    alph_own: [BTreeSet<String>; 3],
    /// the same plus, with chords v1, every output of the chord group (kanata lists them for every key)
    alph_names: [BTreeSet<String>; 3],
    mod_names: BTreeSet<String>,
}

fn make_cfg(rng: &mut Rng, systematic: Option<usize>) -> Cfg {
    let n_layers = 1 + rng.usize(3);
    let t = *rng.pick(&[30u32, 60]);
    let chords_v2 = rng.chance(1, 5);
    let chords_v1 = !chords_v2 && rng.chance(1, 4);
    let has_overrides = rng.chance(1, 2);
    let seq_mode = *rng.pick(&["hidden-suppressed", "visible-backspaced", "hidden-delay-type"]);
    let mut cells: Vec<Vec<CellInfo>> = vec![];
    for layer in 0..n_layers {
        let mut row = vec![];
        for (ki, a) in ALPH.iter().enumerate() {
            let allow_mod_keys = rng.coin();
            let mut g = ActGen { rng, a, n_layers, info: CellInfo::default(), allow_mod_keys, t };
            let roll = g.rng.usize(100);
            let text = if roll < if layer == 0 { 8 } else { 22 } && !(chords_v1 && layer == 0) {
                g.info.forms.insert("transparent");
                g.info.transparent = true;
                "_".to_string()
            } else if chords_v1 && (layer == 0 || roll < 26) {
                g.info.forms.insert("chord-v1");
                format!("(chord cg k{ki})")
            } else {
                let depth = match systematic {
                    Some(d) => (d % 4) as u32,
                    None => g.rng.usize(4) as u32,
                };
                g.action(depth, true, 0)
            };
            let mut info = g.info;
            info.text = text;
            row.push(info);
        }
        cells.push(row);
    }
    // fall-through focus (1 of 5 override configurations): one judged key is transparent on the base
    // layer and, 2 of 3, on every layer (else on each further layer with probability 1/2), so that its
    // repeats are resolved by the defsrc fallback; the first overrides then take its defsrc key as input
    let mut focus: Option<usize> = None;
    if has_overrides && !chords_v1 && rng.chance(1, 5) {
        let ki = rng.usize(3);
        let all = rng.chance(2, 3);
        for layer in 0..n_layers {
            if all || layer == 0 || rng.coin() {
                let mut info = CellInfo::default();
                info.forms.insert("transparent");
                info.transparent = true;
                info.text = "_".to_string();
                cells[layer][ki] = info;
            }
        }
        focus = Some(ki);
    }
    // chord group / chords v2 definitions
    let mut extra = String::new();
    let mut chord_infos: Vec<CellInfo> = vec![];
    let mut chord_texts: Vec<String> = vec![];
    if chords_v1 {
        let mut s = format!("(defchords cg {t}");
        for (ki, a) in ALPH.iter().enumerate() {
            let mut g = ActGen { rng, a, n_layers, info: CellInfo::default(), allow_mod_keys: false, t };
            let act = g.action(1, false, 1);
            chord_infos.push(g.info.clone());
            chord_texts.push(act.clone());
            s.push_str(&format!(" (k{ki}) {act}"));
        }
        s.push_str(&format!(" (k0 k1) {} (k1 k2) {}", CHORD_POOL_V1[0], CHORD_POOL_V1[1]));
        s.push_str(")\n");
        extra.push_str(&s);
    }
    let mut v2: Vec<V2Chord> = vec![];
    if chords_v2 {
        // 2-4 chords over the judged keys in random definition order (any two of them share a key),
        // 3 of 4 configurations with random disabled-layers lists
        let mut sets: Vec<usize> = (0..V2_SETS.len()).collect();
        rng.shuffle(&mut sets);
        let n = 2 + rng.usize(3);
        let with_disabled = rng.chance(3, 4);
        let mut s = String::from("(defchordsv2\n");
        for si in sets.into_iter().take(n) {
            let (keys, o) = V2_SETS[si];
            let disabled: Vec<usize> = if with_disabled { (0..n_layers).filter(|_| rng.chance(1, 3)).collect() } else { vec![] };
            s.push_str(&format!(
                "  ({}) {o} {t} {} ({})\n",
                keys.iter().map(|k| ALPH[*k].phys).collect::<Vec<_>>().join(" "),
                if rng.coin() { "all-released" } else { "first-release" },
                disabled.iter().map(|l| format!("l{l}")).collect::<Vec<_>>().join(" ")
            ));
            v2.push(V2Chord { keys: keys.to_vec(), out: o, disabled });
        }
        s.push_str(")\n");
        extra.push_str(&s);
    }
    // chord-v1 cells put down what the key's own group action lists
    if chords_v1 {
        for row in cells.iter_mut() {
            for (ki, c) in row.iter_mut().enumerate() {
                if c.forms.contains("chord-v1") {
                    c.text_for_listing = Some(chord_texts[ki].clone());
                }
            }
        }
    }
    for row in cells.iter_mut() {
        for (ki, c) in row.iter_mut().enumerate() {
            let t = c.text_for_listing.clone().unwrap_or_else(|| c.text.clone());
            c.listed = listed_keys(&t, ALPH[ki].phys);
        }
    }
    let mut override_inputs = vec![];
    let mut ovs: Vec<Ov> = vec![];
    // override-release-on-activation is not generated: its documented effect (override outputs are
    // only tapped) changes the pressed set by itself one tick after activation, and a repeat injected
    // in exactly that tick sees kanata one tick ahead of the OS
    let ov_release = false;
    let mut ov_out_mods = false;
    let mut ov_chain = false;
    if has_overrides {
        // what the cells of each judged key list, over all layers (override inputs are mostly drawn
        // from these, so that overrides actually fire)
        let mut listed_all: [Vec<String>; 3] = Default::default();
        for row in cells.iter() {
            for (ki, c) in row.iter().enumerate() {
                for k in &c.listed {
                    if !listed_all[ki].contains(k) {
                        listed_all[ki].push(k.clone());
                    }
                }
            }
        }
        fn pick_in(rng: &mut Rng, ai: usize, listed: &[Vec<String>; 3], not: &[&String]) -> Option<String> {
            let pool: Vec<String> = if !listed[ai].is_empty() && rng.chance(3, 4) { listed[ai].clone() } else { ALPH[ai].letters.iter().map(|s| s.to_string()).collect() };
            let pool: Vec<String> = pool.into_iter().filter(|k| !not.contains(&k)).collect();
            if pool.is_empty() {
                None
            } else {
                Some(rng.pick(&pool).clone())
            }
        }
        // input modifiers: the two of the alphabet (a cell holds them itself, as a key or as an
        // output-chord prefix) or the context modifier (held by the history)
        fn mod_pool(rng: &mut Rng, a: &Alph) -> Vec<&'static str> {
            let mut v: Vec<&'static str> = vec![a.mods[0], a.mods[1], CTX_MOD];
            rng.shuffle(&mut v);
            v
        }
        // fall-through focus: 1-3 overrides on the defsrc key of the transparent judged key: one that
        // keeps the key and only changes the modifiers, one whose output is a key another physical
        // key can hold down, one with a private output
        if let Some(ai) = focus {
            let a = &ALPH[ai];
            let mp = mod_pool(rng, a);
            let mut kinds = [0usize, 1, 2];
            rng.shuffle(&mut kinds);
            let n = 1 + rng.usize(3);
            for (j, kind) in kinds.iter().take(n).enumerate() {
                let m_in = if *kind != 0 && rng.chance(1, 5) { None } else { Some(mp[j]) };
                let (m_out, k_out) = match kind {
                    0 => (if rng.chance(1, 4) { None } else { Some(if m_in == Some(a.mods[0]) { a.mods[1] } else { a.mods[0] }) }, a.phys.to_string()),
                    1 => (if rng.chance(1, 5) { Some(*rng.pick(a.mods)) } else { None }, rng.pick(&FOREIGN).to_string()),
                    _ => (None, rng.pick(a.ov).to_string()),
                };
                ovs.push(Ov { m_in, k_in: a.phys.to_string(), m_out, k_out });
            }
        }
        // chained overrides: the output of one is the input of the next, with different modifiers
        if rng.chance(2, 5) {
            // mostly on two keys that one cell lists (in either order), so that the cell can put the
            // middle key of the chain down itself
            let multi_cells: Vec<(usize, Vec<String>)> = cells.iter().flat_map(|row| row.iter().enumerate()).filter(|(_, c)| c.listed.len() >= 2).map(|(ki, c)| (ki, c.listed.clone())).collect();
            let (ai, k1, k2) = if !multi_cells.is_empty() && rng.chance(3, 4) {
                let (ki, l) = rng.pick(&multi_cells).clone();
                let mut l = l;
                rng.shuffle(&mut l);
                (ki, Some(l[0].clone()), Some(l[1].clone()))
            } else {
                let ai = rng.usize(3);
                let k1 = pick_in(rng, ai, &listed_all, &[]);
                let k2 = k1.as_ref().and_then(|k1| pick_in(rng, ai, &listed_all, &[k1]));
                (ai, k1, k2)
            };
            let a = &ALPH[ai];
            let mut mp = mod_pool(rng, a);
            if rng.coin() {
                // the second link on the context modifier: the history holds it, whatever the cell does
                if let Some(i) = mp.iter().position(|m| *m == CTX_MOD) {
                    mp.swap(1, i);
                }
            }
            if let (Some(k1), Some(k2)) = (k1, k2) {
                let k3 = if rng.coin() { rng.pick(a.ov).to_string() } else { pick_in(rng, ai, &listed_all, &[&k1, &k2]).unwrap_or_else(|| a.ov[0].to_string()) };
                let m1 = if rng.chance(1, 4) { None } else { Some(mp[0]) };
                ovs.push(Ov { m_in: m1, k_in: k1.clone(), m_out: None, k_out: k2.clone() });
                ovs.push(Ov { m_in: Some(mp[1]), k_in: k2.clone(), m_out: None, k_out: k3.clone() });
                if k3.len() == 1 && k3.chars().all(|c| c.is_ascii_lowercase()) && rng.chance(1, 3) {
                    // a third link
                    ovs.push(Ov { m_in: Some(mp[2]), k_in: k3, m_out: None, k_out: rng.pick(a.ov).to_string() });
                }
                ov_chain = true;
            }
        }
        let n = if ov_chain { rng.usize(3) } else { 1 + rng.usize(3) };
        for _ in 0..n {
            let ai = rng.usize(3);
            let a = &ALPH[ai];
            let Some(k) = pick_in(rng, ai, &listed_all, &[]) else { continue };
            let m_in = match rng.usize(6) {
                0 | 1 | 2 => None,
                3 | 4 => Some(*rng.pick(a.mods)),
                _ => Some(CTX_MOD),
            };
            // output key: another letter of the alphabet (1/3), the input key itself with other
            // modifiers (1/12), a key that a context key holds down by itself (1/6), a private key
            let mut m_in = m_in;
            let mut m_out = if rng.chance(1, 3) { Some(*rng.pick(a.mods)) } else { None };
            let o = match rng.usize(12) {
                0..=3 => pick_in(rng, ai, &listed_all, &[&k]).unwrap_or_else(|| a.ov[0].to_string()),
                4 => {
                    if m_in.is_none() {
                        m_in = Some(*rng.pick(a.mods));
                    }
                    if m_out == m_in {
                        m_out = if rng.coin() { None } else { Some(if m_in == Some(a.mods[0]) { a.mods[1] } else { a.mods[0] }) };
                    }
                    k.clone()
                }
                5 | 6 => rng.pick(&FOREIGN).to_string(),
                _ => rng.pick(a.ov).to_string(),
            };
            ovs.push(Ov { m_in, k_in: k, m_out, k_out: o });
        }
        // one override per input (modifier, key)
        let mut used: Vec<(Option<&'static str>, String)> = vec![];
        ovs.retain(|o| {
            let key = (o.m_in, o.k_in.clone());
            if used.contains(&key) {
                false
            } else {
                used.push(key);
                true
            }
        });
        let mut s = String::from("(defoverrides\n");
        for o in &ovs {
            ov_out_mods |= o.m_out.is_some();
            s.push_str(&format!("  ({}{}) ({}{})\n", o.m_in.map(|m| format!("{m} ")).unwrap_or_default(), o.k_in, o.m_out.map(|m| format!("{m} ")).unwrap_or_default(), o.k_out));
            override_inputs.push(o.k_in.clone());
        }
        s.push_str(")\n");
        extra.push_str(&s);
    }
    let ov_pairs: Vec<(String, String)> = ovs.iter().map(|o| (o.k_in.clone(), o.k_out.clone())).collect();
    let is_letter = |k: &str| ALPH.iter().any(|a| a.letters.contains(&k));
    let ov_letter_out = ovs.iter().any(|o| is_letter(&o.k_out));
    let ov_ctx_mod = ovs.iter().any(|o| o.m_in == Some(CTX_MOD));
    let ov_same_key = ovs.iter().any(|o| o.k_in == o.k_out);
    let ov_foreign_out = ovs.iter().any(|o| FOREIGN.contains(&o.k_out.as_str()));
    // (the focus survives only if an override on the defsrc key survived the dedup - it always does)
    // (recomputed after the dedup: a chain needs both links)
    let ov_chain = ov_chain && ovs.iter().any(|o1| ovs.iter().any(|o2| o1 != o2 && o1.k_out == o2.k_in && o1.m_in != o2.m_in));
    for row in cells.iter_mut() {
        for (ki, c) in row.iter_mut().enumerate() {
            c.dup_keys = has_dup_keys(&c.text, ALPH[ki].phys, &ov_pairs);
        }
    }
    // layers
    let mut src: Vec<String> = ALPH.iter().map(|a| a.phys.to_string()).collect();
    for k in [CTX_Z, CTX_X, CTX_MOD].iter().chain(LAYER_KEYS.iter()).chain(SWITCH_KEYS.iter()).chain([LEADER].iter()) {
        src.push(k.to_string());
    }
    let mut text = format!(
        "(defcfg process-unmapped-keys yes concurrent-tap-hold {} sequence-timeout 80 sequence-input-mode {seq_mode}{})\n(defsrc {})\n",
        if chords_v2 || rng.coin() { "yes" } else { "no" },
        if has_overrides && ov_release { " override-release-on-activation yes" } else { "" },
        src.join(" ")
    );
    for layer in 0..n_layers {
        let mut row: Vec<String> = cells[layer].iter().map(|c| c.text.clone()).collect();
        // the context keys do the same on every layer (a transparent cell on a switched base layer
        // would fall through to the defsrc key)
        let tr = |s: &str| s.to_string();
        row.push(tr(CTX_Z));
        row.push(tr(CTX_X));
        row.push(tr(CTX_MOD));
        row.push(if n_layers > 1 { tr("(layer-while-held l1)") } else { tr("XX") });
        row.push(if n_layers > 2 { tr("(layer-while-held l2)") } else { tr("XX") });
        row.push(if n_layers > 1 { tr("(layer-switch l1)") } else { tr("XX") });
        row.push(tr("(layer-switch l0)"));
        row.push(tr("sldr"));
        text.push_str(&format!("(deflayer l{layer} {})\n", row.join(" ")));
    }
    // every letter of the three alphabets starts a sequence, so a plain letter typed after the leader
    // keeps the sequence pending until the timeout
    let mut vk = String::from("(defvirtualkeys");
    let mut sq = String::from("(defseq");
    let mut n = 0;
    for a in ALPH.iter() {
        for i in 0..a.letters.len() {
            n += 1;
            vk.push_str(&format!(" vk{n} f24"));
            sq.push_str(&format!(" vk{n} ({} {})", a.letters[i], a.letters[(i + 1) % a.letters.len()]));
        }
    }
    text.push_str(&format!("{vk})\n{sq})\n"));
    text.push_str(&extra);
    // chord-v1 cells inherit the forms of the group's actions
    if chords_v1 {
        for row in cells.iter_mut() {
            for (ki, c) in row.iter_mut().enumerate() {
                if c.forms.contains("chord-v1") {
                    for f in &chord_infos[ki].forms {
                        c.forms.insert(f);
                    }
                    c.unmod |= chord_infos[ki].unmod;
                }
            }
        }
    }
    let mut alph_names: [BTreeSet<String>; 3] = Default::default();
    let mut alph_own: [BTreeSet<String>; 3] = Default::default();
    let mut mod_names = BTreeSet::new();
    for (i, a) in ALPH.iter().enumerate() {
        for k in a.letters.iter().chain(a.mods.iter()).chain(a.ov.iter()) {
            alph_names[i].insert(code_name(osc(k)));
            alph_own[i].insert(code_name(osc(k)));
        }
        for m in a.mods {
            mod_names.insert(code_name(osc(m)));
        }
    }
    // chord outputs belong to the participants (v1: for the "alphabet clean at press" test they count
    // for all three keys of the group, as before the repair of the chord-group listing)
    for (p, k) in CHORD_POOL_V1.iter().enumerate() {
        for i in 0..3 {
            if chords_v1 || i == p || i == p + 1 {
                alph_names[i].insert(code_name(osc(k)));
            }
            if i == p || i == p + 1 {
                alph_own[i].insert(code_name(osc(k)));
            }
        }
    }
    for (keys, o) in V2_SETS.iter() {
        for i in keys.iter() {
            alph_names[*i].insert(code_name(osc(o)));
            alph_own[*i].insert(code_name(osc(o)));
        }
    }
    Cfg { text, v2, focus, ov_same_key, ov_foreign_out, n_layers, cells, has_overrides, override_inputs, ovs, ov_chain, ov_letter_out, ov_ctx_mod, chords_v1, chords_v2, ov_out_mods, ov_release: has_overrides && ov_release, t, seq_mode, alph_own, alph_names, mod_names }
}

// ------------------------------------------------------------------------------------------------
// driver

struct Drv {
    sim: Sim,
    hist: Vec<Ev>,
}

impl Drv {
    fn tick(&mut self, n: u64) {
        if n == 0 {
            return;
        }
        self.sim.ticks(n);
        if let Some(Ev::T(k)) = self.hist.last_mut() {
            *k += n as u32;
        } else {
            self.hist.push(Ev::T(n as u32));
        }
    }
    fn press(&mut self, c: u16) {
        self.sim.press(c);
        self.hist.push(Ev::P(c));
    }
    fn release(&mut self, c: u16) {
        self.sim.release(c);
        self.hist.push(Ev::R(c));
    }
    fn settled(&self) -> bool {
        let l = self.sim.k.layout.b();
        l.waiting.is_none() && l.extra_waiting.is_empty() && l.queue.is_empty() && l.action_queue.is_empty() && l.oneshot.keys.is_empty() && self.sim.k.sequence_state.is_inactive()
    }
}

#[derive(Clone)]
struct Held {
    /// index into ALPH
    ki: usize,
    code: u16,
    /// OS keys down just before the press
    before: BTreeSet<String>,
    /// pressed from a settled state (no pending decision, empty queue, no one-shot, no sequence)
    from_settled: bool,
    /// layer context at press time
    layers_at_press: (Vec<usize>, usize),
    /// kanata was in sequence mode when the key was pressed
    pressed_in_seq: bool,
}

struct Window<'a> {
    cfg: &'a Cfg,
    d: Drv,
    held_layers: Vec<usize>,
    base: usize,
    held: Vec<Held>,
    ctx_down: Vec<u16>,
    seq_started: bool,
    /// a judged key whose effective cell contains unmod/unshift was pressed in this window
    unmod_pressed: bool,
    /// some key was pressed while kanata was in sequence mode (its press may have been withheld)
    pressed_in_seq: bool,
    /// the other key x is physically down
    x_down: bool,
}

impl<'a> Window<'a> {
    fn effective_cell(&self, ki: usize, layers: &(Vec<usize>, usize)) -> &CellInfo {
        // generator-side resolution: held layers newest first, then the base layer
        for l in layers.0.iter().rev() {
            if !self.cfg.cells[*l][ki].transparent {
                return &self.cfg.cells[*l][ki];
            }
        }
        &self.cfg.cells[layers.1][ki]
    }
}

fn witness(cfg: &Cfg, d: &Drv, observed: Value, expected: Value, extra: Value) -> Value {
    json!({
        "config": cfg.text,
        "history": render_hist(&d.hist),
        "observed": observed,
        "expected": expected,
        "os_model": d.sim.os.describe(),
        "extra": extra,
    })
}

/// inject one Repeat for physical key `code` and judge it
fn do_repeat(out: &mut CaseOut, w: &mut Window, code: u16, hostile: bool) {
    let down_before: BTreeSet<String> = w.d.sim.os.keys_down.clone();
    let in_seq = w.d.sim.k.sequence_state.is_active();
    let n0 = w.d.sim.trace.len();
    w.d.sim.repeat(code);
    w.d.hist.push(Ev::Rep(code));
    let outs: Vec<_> = w.d.sim.trace[n0..].to_vec();
    out.inc("repeats_injected");
    if outs.is_empty() {
        out.inc("repeats_dropped");
    } else {
        out.inc("repeats_forwarded");
    }
    let held = w.held.iter().find(|h| h.code == code).cloned();
    if in_seq {
        out.inc("repeats_in_sequence_mode");
        out.inc(&format!("repeats_while_{}_sequence_pending", w.cfg.seq_mode));
        if held.as_ref().map(|h| h.pressed_in_seq).unwrap_or(false) {
            out.inc(&format!("repeats_of_key_typed_into_pending_{}_sequence", w.cfg.seq_mode));
        }
    }
    let pending = {
        let l = w.d.sim.k.layout.b();
        l.waiting.is_some() || !l.extra_waiting.is_empty()
    };
    if pending {
        out.inc("repeats_during_pending_decision");
    }
    let layers_now = (w.held_layers.clone(), w.base);
    let cell = held.as_ref().map(|h| w.effective_cell(h.ki, &layers_now).clone());
    let shown: Vec<String> = outs.iter().map(|o| o.short()).collect();
    // ---- the defsrc fallback with overrides on the defsrc key (structural, from the OS model and the
    // configuration): situations in which more than one key could be picked for the repeat
    if let (Some(h), Some(c)) = (held.as_ref(), cell.as_ref()) {
        let phys = ALPH[h.ki].phys;
        if c.transparent && down_before.contains(&code_name(osc(phys))) && !(in_seq && w.cfg.seq_mode != "visible-backspaced") {
            let mut other = false;
            let mut same = false;
            for ov in w.cfg.ovs.iter().filter(|ov| ov.k_in == phys) {
                if ov.k_out == phys {
                    same = true;
                } else if down_before.contains(&code_name(osc(&ov.k_out))) {
                    other = true;
                }
            }
            if other {
                out.inc("repeats_of_fallthrough_key_down_whose_override_output_is_held_by_another_key");
            }
            if same {
                out.inc("repeats_of_fallthrough_key_down_with_override_that_only_changes_modifiers");
            }
            if (other || same) && outs.len() == 1 {
                out.inc("repeats_of_fallthrough_override_input_forwarded_exactly_once");
            }
        }
    }
    // ---- safety
    if outs.len() > 1 {
        out.violate("C14:more-than-one-output", format!("a repeat of {} produced {} outputs", code_name(code), outs.len()), witness(w.cfg, &w.d, json!(shown), json!("at most one repeat"), json!(null)));
        return;
    }
    if let Some(o) = outs.first() {
        if o.kind != OutKind::Repeat {
            out.violate("C14:non-repeat-output", format!("a repeat of {} produced {}", code_name(code), o.short()), witness(w.cfg, &w.d, json!(shown), json!("a key repeat or nothing"), json!(null)));
            return;
        }
        if !down_before.contains(&o.name) {
            // classify: the documented class is unmod/unshift together with overrides
            let any_unmod_held = w.unmod_pressed;
            let sig = if in_seq && w.cfg.seq_mode != "visible-backspaced" {
                // the hidden modes suppress every repeat while the sequence is in progress
                "C14:repeat-forwarded-during-hidden-sequence"
            } else if w.pressed_in_seq && w.cfg.seq_mode != "visible-backspaced" {
                // a key pressed while a hidden sequence was being typed never reached the OS
                "C14:repeat-of-up-key:press-hidden-by-sequence-mode"
            } else if w.cfg.seq_mode == "visible-backspaced" && w.seq_started && !in_seq && ["lctl", "rctl", "lalt", "ralt", "lmet", "rmet"].iter().any(|m| code_name(osc(m)) == o.name) && w.d.sim.trace[..n0].iter().rev().take_while(|t| t.at == w.d.sim.now).any(|t| t.in_tick && t.kind == OutKind::Up && !t.redundant && t.name == o.name) {
                // (known class) a visible-backspaced sequence completed in the tick just before this
                // Repeat event: kanata released ctrl/alt/meta at the OS for the backspaces in that tick
                // (the forwarded key is one of them, its release is in that tick's output) but still has
                // it in its key list until the next tick
                "C14:repeat-of-up-key:modifier-released-by-visible-backspaced-completion-in-the-same-tick"
            } else if any_unmod_held && w.cfg.ovs.iter().any(|ov| code_name(osc(&ov.k_in)) == o.name || code_name(osc(&ov.k_out)) == o.name) {
                // (known class: the key that is up is the input or the output key of an override)
                "C14:repeat-of-up-key:unmod+override"
            } else if any_unmod_held && w.cfg.mod_names.contains(&o.name) || any_unmod_held && o.name == code_name(osc(CTX_MOD)) {
                "C14:repeat-of-up-key:modifier-suppressed-by-unmod"
            } else {
                "C14:repeat-of-up-key"
            };
            out.violate(
                sig,
                format!("a repeat of {} was forwarded for {}, which is up in the OS (down: {:?})", code_name(code), o.name, down_before),
                witness(w.cfg, &w.d, json!(shown), json!({"repeat_only_for_a_key_in": down_before}), json!({"cell": cell.as_ref().map(|c| c.text.clone())})),
            );
            return;
        }
    }
    if hostile {
        return;
    }
    // ---- completeness
    let Some(h) = held else { return };
    let cell = cell.unwrap();
    if in_seq {
        return;
    }
    if !h.from_settled {
        out.inc("not_judged_pressed_while_unsettled");
        return;
    }
    if h.layers_at_press != layers_now {
        out.inc("not_judged_layers_changed");
        return;
    }
    if w.cfg.ov_release {
        out.inc("not_judged_override_release_on_activation");
        return;
    }
    if h.before.iter().any(|k| w.cfg.alph_names[h.ki].contains(k)) {
        // something of this key's alphabet was already down before it was pressed (a chord output
        // still held by the partner key, a lingering one-shot): attribution would be ambiguous
        out.inc("not_judged_alphabet_not_clean_at_press");
        return;
    }
    let attributed: BTreeSet<String> = down_before.iter().filter(|k| !h.before.contains(*k) && w.cfg.alph_own[h.ki].contains(*k)).cloned().collect();
    if attributed.is_empty() {
        out.inc("not_judged_nothing_attributed");
        return;
    }
    out.inc("completeness_judged");
    if CHORD_POOL_V1.iter().any(|k| attributed.contains(&code_name(osc(k)))) {
        out.inc("judged_with_v1_chord_output_down");
    }
    // chords v2: which chord of the key is held, and what precedes it in the definition order
    let mut v2_down = false;
    for (ci, c) in w.cfg.v2.iter().enumerate() {
        if !c.keys.contains(&h.ki) || !attributed.contains(&code_name(osc(c.out))) {
            continue;
        }
        v2_down = true;
        out.inc("judged_with_v2_chord_output_down");
        if c.keys.len() == 3 {
            out.inc("judged_with_v2_three_key_chord_output_down");
        }
        if w.cfg.v2.iter().filter(|e| e.keys.contains(&h.ki)).count() >= 2 {
            out.inc("judged_with_v2_chord_output_down_key_in_several_chords");
        }
        let earlier_disabled_on = |l: usize| w.cfg.v2[..ci].iter().any(|e| e.keys.contains(&h.ki) && e.disabled.contains(&l));
        let top = layers_now.0.last().copied().unwrap_or(layers_now.1);
        if earlier_disabled_on(top) {
            out.inc("judged_with_v2_chord_output_down_after_chord_of_key_disabled_on_active_layer");
        }
        if layers_now.0.iter().all(|l| earlier_disabled_on(*l)) && earlier_disabled_on(layers_now.1) {
            out.inc("judged_with_v2_chord_output_down_after_chord_of_key_disabled_on_every_consulted_layer");
        }
        let pressed_last = w.held.last().map(|l| l.code) == Some(code) && w.held.len() >= 2;
        if pressed_last {
            out.inc("judged_with_v2_chord_output_down_repeated_key_pressed_last");
        }
        if pressed_last && layers_now.0.iter().all(|l| earlier_disabled_on(*l)) && earlier_disabled_on(layers_now.1) {
            out.inc("judged_with_v2_chord_output_down_after_disabled_chord_of_key_and_key_pressed_last");
        }
    }
    let only_v2 = v2_down && attributed.iter().all(|k| w.cfg.v2.iter().any(|c| code_name(osc(c.out)) == *k) || w.cfg.mod_names.contains(k));
    for f in &cell.forms {
        out.inc(&format!("judged_form_{f}"));
    }
    out.max("judged_nesting_depth", cell.depth as u64);
    out.inc(&format!("judged_depth_{}", cell.depth));
    if !layers_now.0.is_empty() {
        out.inc("judged_with_held_layer");
    }
    if layers_now.1 != 0 {
        out.inc("judged_on_switched_base_layer");
    }
    if cell.transparent || w.cfg.cells[layers_now.0.last().copied().unwrap_or(layers_now.1)][h.ki].transparent {
        out.inc("judged_through_transparent");
    }
    if w.cfg.has_overrides {
        out.inc("judged_with_overrides");
    }
    // which of the attributed keys can only be down through an override (the cell does not list them)
    let rel = ov_rel(w.cfg, &cell);
    let via_override = attributed.iter().any(|k| rel.ov_only.contains(k));
    let via_chain = attributed.iter().any(|k| rel.chain_tail.contains(k));
    let only_via_override = attributed.iter().all(|k| rel.ov_only.contains(k) || w.cfg.mod_names.contains(k));
    if via_override {
        out.inc("judged_with_override_output_down");
        if is_letter_name(attributed.iter().filter(|k| rel.ov_only.contains(*k))) {
            out.inc("judged_with_letter_override_output_down");
        }
        let ctx_mod_ov = w.cfg.ovs.iter().any(|o| o.m_in == Some(CTX_MOD) && attributed.contains(&code_name(osc(&o.k_out))) && rel.ov_only.contains(&code_name(osc(&o.k_out))));
        if ctx_mod_ov && w.ctx_down.contains(&osc(CTX_MOD)) {
            out.inc("judged_with_context_modifier_override_output_down");
        }
    }
    if via_chain {
        out.inc("judged_with_chained_override_tail_down");
        if attributed.iter().any(|k| rel.chain_tail_k1_first.contains(k)) {
            out.inc("judged_with_chained_override_tail_down_k1_listed_first");
        }
    }
    let exp = json!({"one_repeat_for_a_key_in": attributed});
    let extra = json!({"cell": cell.text, "held_layers": layers_now.0, "base_layer": layers_now.1, "down_before_press": h.before});
    match outs.first() {
        None => {
            // every searched layer is transparent for this key: kanata falls back to the defsrc key
            // (the known class is only: the defsrc key itself is the input of an override and nothing
            // but outputs of overrides on it is attributed)
            let phys = ALPH[h.ki].phys;
            let phys_ov_outs: BTreeSet<String> = w.cfg.ovs.iter().filter(|o| o.k_in == phys && o.k_out != phys).map(|o| code_name(osc(&o.k_out))).collect();
            let sig = if cell.transparent && !phys_ov_outs.is_empty() && attributed.iter().all(|k| phys_ov_outs.contains(k) || w.cfg.mod_names.contains(k)) && attributed.iter().any(|k| phys_ov_outs.contains(k)) {
                "C14:repeat-dropped:defsrc-fallback+override"
            } else if cell.transparent && w.unmod_pressed && attributed.contains(&code_name(osc(phys))) && w.cfg.ovs.iter().any(|o| o.k_in == phys && o.m_in.is_some()) {
                // (known class, same root cause as unmod+override: an unmod key has stripped the
                // input modifier of an override on the defsrc key at the OS, the repeat path still
                // applies that override)
                "C14:repeat-dropped:defsrc-fallback+override-modifier-stripped-by-unmod"
            } else if only_v2 {
                "C14:repeat-dropped:chords-v2-output-down"
            } else if via_chain && only_via_override {
                "C14:repeat-dropped:chained-override-output-down"
            } else if via_override && only_via_override {
                "C14:repeat-dropped:override-output-down"
            } else {
                "C14:repeat-dropped"
            };
            out.violate(sig, format!("{} holds {:?} down through {} but its repeat produced nothing", code_name(code), attributed, cell.forms.iter().copied().collect::<Vec<_>>().join("/")), witness(w.cfg, &w.d, json!(shown), exp, extra));
        }
        Some(o) => {
            // overrides on keys of this alphabet whose output is the forwarded key and which another
            // physical key can hold down as well
            let foreign_ovs: Vec<&Ov> = w.cfg.ovs.iter().filter(|ov| FOREIGN.contains(&ov.k_out.as_str()) && code_name(osc(&ov.k_out)) == o.name && ALPH[h.ki].letters.contains(&ov.k_in.as_str())).collect();
            if !attributed.contains(&o.name) && !foreign_ovs.is_empty() && !foreign_ovs.iter().all(|ov| down_before.contains(&code_name(osc(&ov.k_in)))) {
                // an active override replaces its input key at the OS; the input key of one of them is
                // not down, so that override may be what holds the forwarded key: not decidable from the
                // OS model
                out.inc("not_judged_forwarded_key_may_be_output_of_active_override");
            } else if !attributed.contains(&o.name) {
                // chords v1: kanata lists the actions of the whole chord group for each of its keys
                let other_held_alph = (0..3).any(|x| x != h.ki && w.cfg.alph_names[x].contains(&o.name));
                let sig = if cell.forms.contains("chord-v1") && other_held_alph {
                    "C14:repeat-of-foreign-key:chords-v1-group-shares-outputs"
                } else if !cell.transparent && foreign_ovs.iter().any(|ov| cell.listed.contains(&ov.k_in)) {
                    // (known class) resolved through a layer table: the cell lists the input key of an
                    // override, the input key of every such override is down at the OS (so none of
                    // them is active) and the forwarded key is their output, held by another physical key
                    "C14:repeat-of-foreign-key:inactive-override-output-held-by-other-key"
                } else {
                    "C14:repeat-of-foreign-key"
                };
                out.violate(sig, format!("{} holds {:?} down but the repeat was for {}", code_name(code), attributed, o.name), witness(w.cfg, &w.d, json!(shown), exp, extra));
            } else if !cell.mod_as_key && !cell.dup_keys && !cell.forms.contains("chord-v1") && !cell.forms.contains("multi") && !cell.forms.contains("switch-fallthrough") && !w.cfg.ov_out_mods && !any_mod_as_key(w.cfg, h.ki) && w.cfg.mod_names.contains(&o.name) && attributed.iter().any(|k| !w.cfg.mod_names.contains(k)) {
                out.violate("C14:repeat-of-modifier-instead-of-key", format!("{} holds {:?} down (modifiers only as output-chord prefixes) but the repeat was for the modifier {}", code_name(code), attributed, o.name), witness(w.cfg, &w.d, json!(shown), exp, extra));
            } else {
                out.inc("completeness_ok");
                if w.cfg.mod_names.contains(&o.name) {
                    out.inc("repeat_was_a_modifier");
                }
            }
        }
    }
    out.tag(format!("{}|L{:?}b{}|{}", shape(&cell.text), layers_now.0, layers_now.1, w.cfg.has_overrides));
}

fn is_letter_name<'a>(mut names: impl Iterator<Item = &'a String>) -> bool {
    names.any(|n| ALPH.iter().any(|a| a.letters.iter().any(|l| code_name(osc(l)) == *n)))
}

fn any_mod_as_key(cfg: &Cfg, ki: usize) -> bool {
    cfg.cells.iter().any(|row| row[ki].mod_as_key)
}

fn has_dup_keys(text: &str, phys: &str, ov: &[(String, String)]) -> bool {
    // every key name an action text can output, modifiers of chord prefixes included; kanata lists
    // each output once, so a name written twice moves "last-listed" away from the text position
    let mut seen: Vec<String> = vec![];
    let add = |k: &str, seen: &mut Vec<String>| -> bool {
        if seen.iter().any(|x| x == k) {
            return true;
        }
        seen.push(k.to_string());
        // kanata lists the override outputs of a key right after it
        for (i, o) in ov {
            if i == k && o != k {
                if seen.iter().any(|x| x == o) {
                    return true;
                }
                seen.push(o.clone());
            }
        }
        false
    };
    for tok in text.split(|c: char| c == '(' || c == ')' || c == ' ') {
        if tok.is_empty() {
            continue;
        }
        if tok == "use-defsrc" {
            if add(phys, &mut seen) {
                return true;
            }
            continue;
        }
        if ["lsft", "rsft", "lctl", "rctl", "lalt", "ralt"].contains(&tok) {
            if add(tok, &mut seen) {
                return true;
            }
            continue;
        }
        let mut rest = tok;
        let mut was_chord = false;
        loop {
            let mut hit = false;
            for (p, m) in [("RS-", "rsft"), ("RC-", "rctl"), ("RA-", "ralt"), ("S-", "lsft"), ("C-", "lctl"), ("A-", "lalt")] {
                if let Some(r) = rest.strip_prefix(p) {
                    if add(m, &mut seen) {
                        return true;
                    }
                    rest = r;
                    hit = true;
                    was_chord = true;
                    break;
                }
            }
            if !hit {
                break;
            }
        }
        let _ = was_chord;
        if rest.len() == 1 && rest.chars().all(|c| c.is_ascii_lowercase()) && add(rest, &mut seen) {
            return true;
        }
    }
    false
}

/// the non-modifier keys of the judged alphabets an action text lists, in listing order, each once
/// (`use-defsrc` lists the physical key; chord prefixes are stripped; condition / key-list tokens
/// such as z and x are outside every alphabet)
fn listed_keys(text: &str, phys: &str) -> Vec<String> {
    let mut v: Vec<String> = vec![];
    for tok in text.split(|c: char| c == '(' || c == ')' || c == ' ') {
        let mut rest = if tok == "use-defsrc" { phys } else { tok };
        loop {
            let mut hit = false;
            for p in ["RS-", "RC-", "RA-", "S-", "C-", "A-"] {
                if let Some(r) = rest.strip_prefix(p) {
                    rest = r;
                    hit = true;
                    break;
                }
            }
            if !hit {
                break;
            }
        }
        if ALPH.iter().any(|a| a.letters.contains(&rest)) && !v.iter().any(|x| x == rest) {
            v.push(rest.to_string());
        }
    }
    v
}

/// how the overrides relate to what a cell lists
#[derive(Default)]
struct OvRel {
    /// OS names of the keys the cell lists itself
    direct: BTreeSet<String>,
    /// OS names of outputs of overrides whose input key the cell lists, and that the cell does not list
    ov_only: BTreeSet<String>,
    /// the subset of `ov_only` reached through a chain: output of an override on K2, where K2 is
    /// listed by the cell and is also the output of another override (different input modifier) on a
    /// listed key K1
    chain_tail: BTreeSet<String>,
    /// the subset of `chain_tail` where K1 is listed before K2
    chain_tail_k1_first: BTreeSet<String>,
}

fn ov_rel(cfg: &Cfg, cell: &CellInfo) -> OvRel {
    let mut r = OvRel::default();
    for k in &cell.listed {
        r.direct.insert(code_name(osc(k)));
    }
    let pos = |k: &String| cell.listed.iter().position(|x| x == k);
    for o2 in &cfg.ovs {
        let Some(p2) = pos(&o2.k_in) else { continue };
        if cell.listed.contains(&o2.k_out) {
            continue;
        }
        let name = code_name(osc(&o2.k_out));
        r.ov_only.insert(name.clone());
        for o1 in &cfg.ovs {
            if o1 == o2 || o1.k_out != o2.k_in || o1.m_in == o2.m_in {
                continue;
            }
            let Some(p1) = pos(&o1.k_in) else { continue };
            r.chain_tail.insert(name.clone());
            if p1 < p2 {
                r.chain_tail_k1_first.insert(name.clone());
            }
        }
    }
    r
}

/// structural shape of an action text: key names -> k, modifiers -> m, numbers -> N
fn shape(t: &str) -> String {
    let mut out = String::new();
    let mut tok = String::new();
    let flush = |tok: &mut String, out: &mut String| {
        if tok.is_empty() {
            return;
        }
        let s = if tok.chars().all(|c| c.is_ascii_digit()) {
            "N".to_string()
        } else if tok.len() == 1 {
            "k".to_string()
        } else if ["lsft", "rsft", "lctl", "rctl", "lalt", "ralt", "lmet"].contains(&tok.as_str()) {
            "m".to_string()
        } else if tok.contains('-') && tok.chars().next().map(|c| c.is_ascii_uppercase()).unwrap_or(false) {
            format!("c{}", tok.matches('-').count())
        } else {
            tok.clone()
        };
        out.push_str(&s);
        tok.clear();
    };
    for ch in t.chars() {
        if ch == '(' || ch == ')' || ch == ' ' {
            flush(&mut tok, &mut out);
            out.push(ch);
        } else {
            tok.push(ch);
        }
    }
    flush(&mut tok, &mut out);
    out
}

fn run_window(out: &mut CaseOut, cfg: &Cfg, rng: &mut Rng, wi: usize) -> Option<()> {
    let sim = Sim::new(&cfg.text).ok()?;
    let mut w = Window { cfg, d: Drv { sim, hist: vec![] }, held_layers: vec![], base: 0, held: vec![], ctx_down: vec![], seq_started: false, unmod_pressed: false, pressed_in_seq: false, x_down: false };
    let settle = (4 * cfg.t + 140) as u64;
    // ---- context
    if cfg.n_layers > 1 && rng.chance(1, 3) {
        // switch the base layer
        w.d.press(osc(SWITCH_KEYS[0]));
        w.d.tick(3);
        w.d.release(osc(SWITCH_KEYS[0]));
        w.d.tick(5);
        w.base = 1;
    }
    if cfg.n_layers > 1 && rng.chance(1, 2) {
        let which = if cfg.n_layers > 2 { rng.usize(2) } else { 0 };
        w.d.press(osc(LAYER_KEYS[which]));
        w.ctx_down.push(osc(LAYER_KEYS[which]));
        w.held_layers.push(which + 1);
        w.d.tick(3);
        if cfg.n_layers > 2 && rng.chance(1, 3) {
            let other = 1 - which;
            w.d.press(osc(LAYER_KEYS[other]));
            w.ctx_down.push(osc(LAYER_KEYS[other]));
            w.held_layers.push(other + 1);
            w.d.tick(3);
        }
    }
    for k in [CTX_Z, CTX_MOD] {
        if rng.chance(1, 3) {
            w.d.press(osc(k));
            w.ctx_down.push(osc(k));
            w.d.tick(3);
        }
    }
    if rng.chance(1, 8) {
        // sequence mode
        w.d.press(osc(LEADER));
        w.d.tick(2);
        w.d.release(osc(LEADER));
        w.d.tick(2);
        w.seq_started = true;
        out.inc("windows_in_sequence_mode");
    } else {
        w.d.tick(10);
    }
    // ---- events
    let n_events = 4 + rng.usize(14);
    let x = osc(CTX_X);
    let mut last_event_tick = w.d.sim.now;
    for _ in 0..n_events {
        let r = rng.usize(100);
        let free: Vec<usize> = (0..3).filter(|ki| !w.held.iter().any(|h| h.ki == *ki)).collect();
        if r < 22 && !free.is_empty() {
            // press a judged key; often from a settled state, sometimes right away (chords, pending tap-holds)
            if rng.chance(3, 5) {
                w.d.tick(settle);
            }
            let ki = *rng.pick(&free);
            let code = osc(ALPH[ki].phys);
            let from_settled = w.d.settled();
            let before = w.d.sim.os.keys_down.clone();
            let in_seq_at_press = w.d.sim.k.sequence_state.is_active();
            if in_seq_at_press {
                w.pressed_in_seq = true;
            }
            w.d.press(code);
            let lp = (w.held_layers.clone(), w.base);
            // with chords v1 a pending chord claims the other group keys by coordinate, whatever the
            // current layer says, so any layer's cell of this key counts
            if w.effective_cell(ki, &lp).unmod || (w.cfg.chords_v1 && w.cfg.cells.iter().any(|row| row[ki].unmod)) {
                w.unmod_pressed = true;
            }
            w.held.push(Held { ki, code, before, from_settled, layers_at_press: lp, pressed_in_seq: in_seq_at_press });
            out.inc(if from_settled { "presses_from_settled_state" } else { "presses_while_unsettled" });
            last_event_tick = w.d.sim.now;
        } else if r < 60 && !w.held.is_empty() {
            // repeat of a held judged key (an OS repeats the most recent one, but any is legal)
            let h = if rng.chance(2, 3) { w.held.last().unwrap().clone() } else { rng.pick(&w.held).clone() };
            do_repeat(out, &mut w, h.code, false);
            if rng.chance(1, 3) {
                // a burst of repeats like a real OS sends them
                for _ in 0..rng.usize(3) {
                    w.d.tick(rng.range(1, 30));
                    do_repeat(out, &mut w, h.code, false);
                }
            }
        } else if r < 66 && !w.ctx_down.is_empty() {
            // repeat of a held context key (layer key, z, lmet)
            let c = *rng.pick(&w.ctx_down);
            do_repeat(out, &mut w, c, false);
        } else if r < 72 {
            // the other key: triggers tap-hold-press / release-keys decisions, clears output chords
            if w.x_down {
                w.d.release(x);
            } else {
                if w.d.sim.k.sequence_state.is_active() {
                    w.pressed_in_seq = true;
                }
                w.d.press(x);
            }
            w.x_down = !w.x_down;
            last_event_tick = w.d.sim.now;
        } else if r < 78 && !w.held.is_empty() {
            let i = rng.usize(w.held.len());
            let h = w.held.remove(i);
            w.d.release(h.code);
            // hostile: a repeat for a key that was just released
            if rng.chance(1, 3) {
                w.d.tick(rng.below(3));
                do_repeat(out, &mut w, h.code, true);
            }
            last_event_tick = w.d.sim.now;
        } else if r < 82 {
            // hostile: repeat of a key that is not held at all
            let c = osc(*rng.pick(&["q", "w", "e", CTX_X, CTX_Z, "f1"]));
            if !w.held.iter().any(|h| h.code == c) && !w.ctx_down.contains(&c) {
                do_repeat(out, &mut w, c, true);
            }
        } else {
            // let time pass: 1-2 ticks (pending decisions) or past every timeout
            let t = match rng.usize(4) {
                0 => 1,
                1 => rng.range(1, cfg.t as u64),
                2 => cfg.t as u64 + rng.range(0, 3),
                _ => settle,
            };
            w.d.tick(t);
        }
    }
    let _ = last_event_tick;
    // ---- wind down
    if w.x_down {
        w.d.release(x);
        w.x_down = false;
    }
    let held: Vec<Held> = w.held.drain(..).collect();
    for h in held {
        w.d.release(h.code);
        w.d.tick(1);
    }
    let ctx: Vec<u16> = w.ctx_down.drain(..).collect();
    for c in ctx.into_iter().rev() {
        w.d.release(c);
        w.d.tick(1);
    }
    w.d.tick(settle);
    out.inc("windows");
    let _ = wi;
    Some(())
}

/// the documented defect, deterministically: `(unmod k)` with an override on `k`
fn known_witness_case(out: &mut CaseOut) {
    let text = "(defcfg process-unmapped-keys yes)\n(defsrc q lsft)\n(deflayer l0 (unmod q) lsft)\n(defoverrides (q) (1))\n";
    let Ok(sim) = Sim::new(text) else {
        out.inc("configs_rejected");
        return;
    };
    let mut d = Drv { sim, hist: vec![] };
    d.press(osc("q"));
    d.tick(10);
    let down = d.sim.os.keys_down.clone();
    let n0 = d.sim.trace.len();
    d.sim.repeat(osc("q"));
    d.hist.push(Ev::Rep(osc("q")));
    let outs: Vec<_> = d.sim.trace[n0..].to_vec();
    out.inc("repeats_injected");
    out.inc("minimal_unmod_override_witness_runs");
    if let Some(o) = outs.first() {
        if !down.contains(&o.name) {
            let cfg_text = text.to_string();
            out.violate(
                "C14:repeat-of-up-key:unmod+override",
                format!("(unmod q) with (defoverrides (q) (1)): the OS holds {:?} but the repeat is forwarded for {}", down, o.name),
                json!({"config": cfg_text, "history": render_hist(&d.hist), "observed": outs.iter().map(|o| o.short()).collect::<Vec<_>>(), "expected": {"repeat_only_for_a_key_in": down}, "os_model": d.sim.os.describe()}),
            );
        }
    }
    d.release(osc("q"));
    d.tick(20);
}

const N_SYSTEMATIC: u64 = 64;

/// cases of the main family (private output alphabets); the layer-stack family follows
fn n_main(ctx: &Ctx) -> u64 {
    ctx.tier.sel(20_000, 300_000)
}
/// random cases of the layer-stack family (after its systematic part)
fn n_stack_random(ctx: &Ctx) -> u64 {
    ctx.tier.sel(5_000, 60_000)
}

impl Check for C14Check {
    fn id(&self) -> &'static str {
        "C14"
    }
    fn n_cases(&self, ctx: &Ctx) -> u64 {
        n_main(ctx) + c14_stack::N_SYSTEMATIC + n_stack_random(ctx)
    }
    fn describe(&self, ctx: &Ctx, idx: u64) -> Value {
        if idx >= n_main(ctx) {
            return c14_stack::describe(ctx.seed, idx - n_main(ctx), idx);
        }
        let mut rng = Rng::for_case(ctx.seed, "C14", "cfg", idx);
        let cfg = make_cfg(&mut rng, if idx < N_SYSTEMATIC { Some(idx as usize) } else { None });
        json!({"config": cfg.text})
    }
    fn run_case(&self, ctx: &Ctx, idx: u64) -> CaseOut {
        let mut out = CaseOut::new();
        if idx >= n_main(ctx) {
            // the layer-stack family (shared output pool, identity cells on held layers)
            c14_stack::run_case(&mut out, ctx.seed, idx - n_main(ctx), idx, ctx.tier.sel(4, 6), ctx.verbose);
            return out;
        }
        if idx == 0 {
            known_witness_case(&mut out);
        }
        let mut rng = Rng::for_case(ctx.seed, "C14", "cfg", idx);
        let cfg = make_cfg(&mut rng, if idx < N_SYSTEMATIC { Some(idx as usize) } else { None });
        if ctx.verbose {
            eprintln!("{}", cfg.text);
        }
        match Sim::new(&cfg.text) {
            Ok(_) => out.inc("configs_accepted"),
            Err(e) => {
                out.inc("configs_rejected");
                if ctx.verbose {
                    eprintln!("rejected: {e}");
                }
                return out;
            }
        }
        if cfg.chords_v1 {
            out.inc("configs_with_chords_v1");
        }
        if cfg.chords_v2 {
            out.inc("configs_with_chords_v2");
        }
        if cfg.has_overrides {
            out.inc("configs_with_overrides");
        }
        if cfg.ov_chain {
            out.inc("configs_with_chained_overrides");
        }
        if cfg.ov_letter_out {
            out.inc("configs_with_override_output_inside_letters");
        }
        if cfg.ov_ctx_mod {
            out.inc("configs_with_context_modifier_override");
        }
        if cfg.focus.is_some() {
            out.inc("configs_with_fallthrough_key_as_override_input");
        }
        if cfg.ov_same_key {
            out.inc("configs_with_override_that_only_changes_modifiers");
        }
        if cfg.ov_foreign_out {
            out.inc("configs_with_override_output_that_another_key_can_hold");
        }
        if cfg.v2.iter().any(|c| !c.disabled.is_empty()) {
            out.inc("configs_with_chords_v2_disabled_layers");
        }
        if (0..3).any(|ki| {
            let mine: Vec<&V2Chord> = cfg.v2.iter().filter(|c| c.keys.contains(&ki)).collect();
            mine.len() >= 2 && (0..cfg.n_layers).any(|l| mine[0].disabled.contains(&l) && mine[1..].iter().any(|c| !c.disabled.contains(&l)))
        }) {
            out.inc("configs_with_chords_v2_key_whose_first_chord_is_disabled_where_a_later_one_is_not");
        }
        out.inc(&format!("configs_with_{}_layers", cfg.n_layers));
        out.inc(&format!("seq_mode_{}", cfg.seq_mode));
        let mut hrng = Rng::for_case(ctx.seed, "C14", "hist", idx);
        let n_windows = ctx.tier.sel(6, 10);
        for wi in 0..n_windows {
            let v0 = out.violations.len();
            run_window(&mut out, &cfg, &mut hrng, wi);
            if out.violations.len() > v0 + 3 {
                break;
            }
        }
        // one violation per signature and case is enough
        let mut seen = BTreeSet::new();
        out.violations.retain(|v| seen.insert(v.sig.clone()));
        if idx % 1000 < 3 {
            out.sample = Some(json!({"idx": idx, "config": cfg.text, "override_inputs": cfg.override_inputs, "chained_overrides": cfg.ov_chain}));
        }
        out
    }
    fn rule(&self) -> String {
        "case = one configuration with three judged physical keys (each with a private output alphabet of 6 letters, 2 modifiers and 2 override outputs) whose cells on 1-3 layers are random key-producing actions nested to depth 3 (plain key, modifier key, output chord, multi, 7 tap-hold variants, tap-dance lazy/eager, 5 one-shot variants, fork, switch with break/fallthrough and key/input/layer conditions, unmod, unshift, use-defsrc, transparent, chords v1, chords v2), optional defoverrides inside the alphabets (1-5 entries; input key drawn 3:1 from the keys the judged cells list; output a private override key or, 1 in 3, another letter of the alphabet; input modifier none / one of the alphabet's two / the context modifier lmet; 2 of 5 override configurations contain a chain K1->K2, K2->K3 [, K3->K4] with pairwise different input modifiers, K1 and K2 3:1 two keys that one judged cell lists, in either order, the second link on lmet half of the time; 1 of 5 override configurations: one judged key transparent on the base layer / 2 of 3 on every layer with 1-3 overrides on its defsrc key [modifier-only change, foreign output z|x, private output]; every random override 1 in 12 keeps its key and only changes modifiers, 1 in 6 outputs z or x, which the context keys z and x hold down by themselves), chords v2 = 2-4 of the chords (q w) (w e) (q e) (q w e) in random definition order, each with its own output key and release behaviour, 3 of 4 configurations with a random disabled-layers list per chord (each layer 1 in 3), context keys (z, x, lmet, two layer-while-held keys, layer-switch keys, sequence leader with three input modes), x 6 (quick) / 10 (thorough) history windows: context set up, then 4-17 random steps (press a judged key from a settled state or immediately after another, repeats of held judged keys singly and in bursts, repeats of context keys, the other key x, releases followed by a stray repeat, repeats of keys that are not held, waits of 1 tick / below / at / beyond the timeouts). Safety (at most one output on the raw output stream of the Repeat event, a repeat, of a key that is down) is judged at every repeat, completeness when the precondition in the module header holds. Non-trivial = a repeat that was judged for completeness; distinct = (action shape of the effective cell, layer context, overrides). LAYER-STACK FAMILY (the cases after the 20 000 / 300 000 of the main family): 686 systematic cases (seed-independent, enumerated completely: two physical keys, a mapped to itself everywhere, the cell of s on l2 / l1 / l0 over all 7^3 triples of {s, use-defsrc, a, S-a, (multi s a), _, XX} x {layer-while-held, layer-toggle}, each with the stacks {}, {l1}, {l2}, {l1 l2}, {l2 l1} over l0 x {a held first, s alone, a pressed after s}: repeats of s (twice), of a, of s after a was released, of s after its release) + 5 000 / 60 000 random cases = one configuration with 4 physical keys a s d f on 2-4 layers whose cells are drawn from the shared output pool a s d f j k (upper layers: identity 28, other plain key 24, transparent 16, output chord 10, multi 8, use-defsrc 8, XX 6; base layer: other plain key 45, identity 22, ...; half of the configurations: base layer = permutation of the physical keys), layer keys f1-f3 = layer-while-held or layer-toggle (per key), layer-switch keys, x 4 / 6 windows: optional layer-switch to l1 (1 in 4), 0-3 layer keys held in random order, then 6-17 steps (press a free key, repeats singly or in bursts - 3 of 4 for the most recently pressed key -, release with an optional stray repeat, waits). Judged: safety always; if a key of the cell that resolves the press in the guide's model (first non-transparent cell: held layers newest first, base layer, defsrc key) is down, exactly one repeat for one of the cell's keys, for an output chord not a modifier while the chord's key is down.".into()
    }
    fn assumptions(&self) -> Vec<String> {
        vec![
            "attribution uses disjoint output alphabets per judged key; fork/switch conditions only use context keys outside these alphabets; overrides map inside one alphabet (input and output non-modifier key and, unless it is the context modifier lmet, the input modifier)".into(),
            "overrides are applied once, not transitively (observed on the tree and not contradicted by the guide): nothing is assumed about WHICH key an override chain puts down - completeness only demands a repeat for whatever key of the alphabet the OS model shows down and attributable to the press; the chain counters are structural (the cell lists K1 and K2, overrides K1->K2 and K2->K3 with different input modifiers exist, K3 is not listed by the cell and is down)".into(),
            "an override output outside the alphabets (z, x) is never attributed to a judged key; a repeat forwarded for it is judged foreign only if the OS model shows the input key of every override that could produce it down (an active override replaces its input key at the OS), otherwise the forwarded key may be the output of an active override and the repeat is not judged (counted)".into(),
            "chords v2 with disabled-layers: nothing is assumed about which chord fires on which layer; completeness demands a repeat for whatever chord output of the key's chords the OS model shows down and attributable to the press. The counters that a chord defined after a disabled chord of the same key was held are structural (definition order, disabled-layers lists, the layers the lookup consults = held layers and base layer)".into(),
            "override-release-on-activation is not generated (its documented effect ends the output one tick after activation)".into(),
            "the judged keys' own actions contain no layer actions, so the layer stack between press and repeat changes only through the context keys, which are not touched inside a window".into(),
            "completeness is not judged while kanata is in sequence mode, for keys pressed while a decision was pending or a one-shot was active, or when nothing of the key's alphabet is down".into(),
            "the 'last-listed key rather than a modifier' clause is judged only for keys whose actions (on every layer) use modifiers exclusively as output-chord prefixes".into(),
            "layer-stack family: only unconditional cells (plain key, use-defsrc, output chord, multi of keys, transparent, XX) are generated, so the configuration guide alone says which keys a press put down: those of the first non-transparent cell in the stack (held layers newest first, then the base layer, then the defsrc key); layer-toggle is the guide's other name of layer-while-held; delegate-to-first-layer is left at its default (no). The layer stack is set up before the first judged key is pressed and not changed inside a window".into(),
            "layer-stack family: a key whose effective cell is XX put nothing down - the statement does not say what its repeat does (on the tree it may be forwarded for a key that a lower layer lists and another key holds); counted, not judged. As in the main family, completeness needs something the key put down to be still down: a key pressed later releases the modifiers of an output chord (counted as judged_with_part_of_effective_cell_released); if nothing of the effective cell is down the repeat is not judged (counted)".into(),
            "allow-hardware-repeat is applied by the OS layer (linux.rs), not by handle_input_event, and is therefore not exercised".into(),
        ]
    }
    fn floors(&self, ctx: &Ctx) -> Vec<(&'static str, u64)> {
        let s = ctx.tier.sel(1, 12);
        vec![
            ("repeats_injected", 300_000 * s),
            ("repeats_forwarded", 150_000 * s),
            ("completeness_judged", 70_000 * s),
            ("repeats_during_pending_decision", 15_000 * s),
            ("repeats_in_sequence_mode", 10_000 * s),
            ("repeats_while_hidden-delay-type_sequence_pending", 2_000 * s),
            ("repeats_while_hidden-suppressed_sequence_pending", 2_000 * s),
            ("repeats_of_key_typed_into_pending_hidden-delay-type_sequence", 300 * s),
            ("repeats_of_key_typed_into_pending_hidden-suppressed_sequence", 300 * s),
            ("judged_with_held_layer", 20_000 * s),
            ("judged_on_switched_base_layer", 15_000 * s),
            ("judged_with_overrides", 30_000 * s),
            ("configs_with_chained_overrides", 2_000 * s),
            ("configs_with_override_output_inside_letters", 3_000 * s),
            ("configs_with_context_modifier_override", 2_000 * s),
            ("judged_with_override_output_down", 3_000 * s),
            ("judged_with_letter_override_output_down", 600 * s),
            ("judged_with_context_modifier_override_output_down", 300 * s),
            ("judged_with_chained_override_tail_down", 120 * s),
            ("judged_with_chained_override_tail_down_k1_listed_first", 60 * s),
            ("judged_depth_3", 3_000 * s),
            ("judged_form_fork", 8_000 * s),
            ("judged_form_switch", 7_000 * s),
            ("judged_form_multi", 10_000 * s),
            ("judged_form_tap-hold", 1_000 * s),
            ("judged_form_tap-hold-release-keys", 1_000 * s),
            ("judged_form_tap-dance", 1_500 * s),
            ("judged_form_one-shot", 7_000 * s),
            ("judged_form_unmod", 5_000 * s),
            ("judged_form_unshift", 2_000 * s),
            ("judged_form_use-defsrc", 2_000 * s),
            ("judged_form_transparent", 7_000 * s),
            ("judged_form_chord", 20_000 * s),
            ("judged_form_chord-v1", 5_000 * s),
            ("configs_with_chords_v2", 2_000 * s),
            ("judged_with_v2_chord_output_down", 1_500 * s),
            ("judged_with_v1_chord_output_down", 200 * s),
            ("configs_with_chords_v2_disabled_layers", 1_500 * s),
            ("configs_with_chords_v2_key_whose_first_chord_is_disabled_where_a_later_one_is_not", 900 * s),
            ("judged_with_v2_chord_output_down_key_in_several_chords", 1_500 * s),
            ("judged_with_v2_three_key_chord_output_down", 250 * s),
            ("judged_with_v2_chord_output_down_repeated_key_pressed_last", 1_000 * s),
            ("judged_with_v2_chord_output_down_after_chord_of_key_disabled_on_active_layer", 250 * s),
            ("judged_with_v2_chord_output_down_after_chord_of_key_disabled_on_every_consulted_layer", 200 * s),
            ("judged_with_v2_chord_output_down_after_disabled_chord_of_key_and_key_pressed_last", 100 * s),
            ("configs_with_fallthrough_key_as_override_input", 1_000 * s),
            ("configs_with_override_that_only_changes_modifiers", 1_200 * s),
            ("configs_with_override_output_that_another_key_can_hold", 1_800 * s),
            ("repeats_of_fallthrough_key_down_whose_override_output_is_held_by_another_key", 250 * s),
            ("repeats_of_fallthrough_key_down_with_override_that_only_changes_modifiers", 1_000 * s),
            ("repeats_of_fallthrough_override_input_forwarded_exactly_once", 1_200 * s),
            ("minimal_unmod_override_witness_runs", 1),
            // layer-stack family
            ("stack_systematic_configs", 686),
            ("stack_repeats_injected", 150_000 * s),
            ("stack_completeness_judged", 120_000 * s),
            ("stack_judged_depth_2", 50_000 * s),
            ("stack_judged_depth_3", 30_000 * s),
            ("stack_judged_depth_4", 6_000 * s),
            ("stack_judged_effective_cell_identity", 40_000 * s),
            ("stack_judged_effective_cell_use-defsrc", 10_000 * s),
            ("stack_judged_effective_cell_on_layer-while-held_layer", 40_000 * s),
            ("stack_judged_effective_cell_on_layer-toggle_layer", 40_000 * s),
            ("stack_judged_with_two_or_more_physical_keys_held", 80_000 * s),
            ("stack_judged_on_switched_base_layer", 20_000 * s),
            ("stack_judged_through_transparent_held_layer", 4_000 * s),
            ("stack_judged_lower_layer_output_down_via_other_key", 18_000 * s),
            ("stack_judged_inactive_layer_output_down_via_other_key", 10_000 * s),
            ("stack_judged_identity_cell_on_held_layer_lower_layer_output_down_via_other_key", 6_000 * s),
            ("stack_judged_identity_cell_on_layer-while-held_layer_lower_layer_output_down_via_other_key", 3_000 * s),
            ("stack_judged_identity_cell_on_layer-toggle_layer_lower_layer_output_down_via_other_key", 3_000 * s),
            ("stack_judged_identity_cell_on_held_layer_lower_layer_output_down_via_other_key_depth_2", 2_500 * s),
            ("stack_judged_identity_cell_on_held_layer_lower_layer_output_down_via_other_key_depth_3", 2_500 * s),
            ("stack_judged_identity_cell_on_held_layer_lower_layer_output_down_via_other_key_depth_4", 600 * s),
        ]
    }
}
