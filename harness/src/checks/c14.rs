//! C14 — not implemented yet (stub so that the registry compiles).

use crate::core::{CaseOut, Check, Ctx};

pub struct C14Check;
pub static C14: C14Check = C14Check;

impl Check for C14Check {
    fn id(&self) -> &'static str {
        "C14"
    }
    fn n_cases(&self, _ctx: &Ctx) -> u64 {
        0
    }
    fn run_case(&self, _ctx: &Ctx, _idx: u64) -> CaseOut {
        CaseOut::new()
    }
    fn rule(&self) -> String {
        "not implemented".into()
    }
    fn assumptions(&self) -> Vec<String> {
        vec![]
    }
}
