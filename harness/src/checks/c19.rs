//! C19 — dynamic macros replay what was typed and never leave a key down.
//!
//! Relational oracle on the real code: a history records a dynamic macro (start / stop / stop with
//! truncation / record key pressed again / another record key / size limit), then plays it. The OS
//! stream of the replay is compared with a twin run that shares the whole prefix and then *types*
//! the recorded portion again (the play key replaced by a key with an effect-free action of the
//! same shape). What "the recorded portion" is comes from the harness's own bookkeeping of the
//! history (events between start and stop, minus the stop key and the truncated tail; keys still
//! down are released at the end in any order; a macro never plays itself), not from kanata.
//!
//! Play graphs (appended family `Graph`): the three macros' recordings contain taps of play keys.
//! Every one of the 2^9 graphs "macro i contains play j" x every top-level play x both delay
//! behaviours is realised exactly (self edges, X plays Y which contains play Y, mutual pairs,
//! 2-cycles below the played macro, 3-cycles, acyclic nesting of depth 2, repeated taps), and further
//! seeded variants disturb it (a macro never recorded, truncating stops, a second play key tapped
//! physically while the judged replay runs). Each recording starts with a tap of the macro's own
//! marker key (an output nothing else produces), so the monitor counts how often each macro's
//! content is replayed. Judged, from the harness's bookkeeping only: (1) no macro is replayed more
//! often than the play graph without its recursive edges (edges into a macro that is being
//! replayed) allows, nor less often; (2) the replay ends within a bound derived from the recorded
//! lengths (all families); (3) the usual relational comparison with typing the expansion again.
//!
//! Deferred play keys (appended family `Deferred`): the same 512 graphs x 3 top-level plays, but the
//! play keys (and their effect-free twins) fire their play action late: a tap-hold whose tap is the
//! play action (fires when the release is processed), `(on-release tap-vkey v)` with a virtual key
//! carrying the play action (two ticks after the release), a tap-dance whose single tap is the play
//! action (after its timeout). In two thirds of the recordings the play taps come last - every typing
//! key released before, the recording stopped 1 / 2-3 / 8-12 / 34+ ms after the tap - so that on
//! replay the play request arrives after the last item of the replayed (nested or played) macro was
//! emitted: the request is refused exactly if that macro is still being replayed by the model's
//! reading (self edge, mutual pair, back edge - all reachable "after the last event"), accepted and
//! replayed once otherwise. Judged like the play graphs (marker counts, termination bound, relational
//! comparison with the play keys' witness outputs taken out of the ordered comparison); disturbed
//! variants tap a play key physically 0-12 ticks before the measured end of the judged replay
//! (upper bounds only) or stop the played macro within 1 ms of its final play tap.
//!
//! Open finding in that area (findings/C19-deferred-play-after-replay-end.md): the recursion guard
//! lives in the replay state, which ends when the last item was handed to the event queue, not when
//! it was processed. Its two signatures are selected by what is observed in the run (a replay state
//! ended with events still queued or a decision pending; with a physical play tap: event queue of 3+),
//! never by the shape of the over-replay itself.
//!
//! Timing: with `dynamic-macro-replay-delay-behaviour recorded` kanata runs the recorded pauses
//! inside one `tick_ms` call, so this check keeps its own stepper that reconstructs kanata's
//! internal millisecond of every output from the `t:Nms` markers of the simulated output.

use crate::core::rng::Rng;
use crate::core::sim::{code_name, osc, render_hist, Ev};
use crate::core::{CaseOut, Check, Ctx};
use kanata_parser::keys::OsCode;
use kanata_state_machine::oskbd::{KeyEvent, KeyValue};
use kanata_state_machine::Kanata;
use serde_json::{json, Value};
use std::collections::{BTreeMap, BTreeSet};

pub struct C19Check;
pub static C19: C19Check = C19Check;

/// `replay` (verbose) only: kanata's own log lines about dynamic macros on stderr
struct MacroLog;
impl log::Log for MacroLog {
    fn enabled(&self, _: &log::Metadata) -> bool {
        true
    }
    fn log(&self, r: &log::Record) {
        let m = format!("{}", r.args());
        if m.contains("macro") {
            eprintln!("  kanata log: {m}");
        }
    }
    fn flush(&self) {}
}
static MACRO_LOG: MacroLog = MacroLog;

// ------------------------------------------------------------------------------------------------
// stepper with kanata-internal time

#[derive(Clone, Debug, PartialEq, Eq)]
struct IOut {
    /// kanata-internal millisecond (sum of the `t:Nms` markers seen so far)
    it: u64,
    down: bool,
    name: String,
    /// not a key press/release (unicode, mouse, …): compared verbatim
    other: bool,
}

impl IOut {
    fn short(&self) -> String {
        if self.other {
            format!("{}@{}", self.name, self.it)
        } else {
            format!("{}{}@{}", if self.down { "↓" } else { "↑" }, self.name, self.it)
        }
    }
}

struct ISim {
    k: Kanata,
    it: u64,
    outs: Vec<IOut>,
    down: BTreeSet<String>,
    /// more outputs than any case of this check can legitimately produce (an endless replay):
    /// ticking stops, the case is reported
    runaway: bool,
    /// what the replay hands to kanata's event queue is processed later than it is handed over:
    /// longest event queue seen at the end of a tick, ...
    max_queue: usize,
    /// ... and how often a replay state ended while the queue still held events or a tap-hold /
    /// tap-dance decision was pending
    ended_with_pending: u32,
    was_running: bool,
}

/// far above what the longest history of this check produces (counter `max_outputs_in_one_run`: below 1 000)
const RUNAWAY_OUTPUTS: usize = 6_000;

impl ISim {
    fn new(cfg: &str) -> Result<ISim, String> {
        match Kanata::new_from_str(cfg, Default::default()) {
            Ok(k) => Ok(ISim { k, it: 0, outs: vec![], down: BTreeSet::new(), runaway: false, max_queue: 0, ended_with_pending: 0, was_running: false }),
            Err(e) => Err(format!("{e}")),
        }
    }
    fn drain(&mut self) {
        if self.k.kbd_out.outputs.events.is_empty() {
            return;
        }
        let evs = std::mem::take(&mut self.k.kbd_out.outputs.events);
        for s in evs {
            if let Some(n) = s.strip_prefix("t:").and_then(|r| r.strip_suffix("ms")) {
                self.it += n.parse::<u64>().unwrap_or(0);
                continue;
            }
            let (down, name, other) = if let Some(r) = s.strip_prefix("out:↓") {
                (true, r.to_string(), false)
            } else if let Some(r) = s.strip_prefix("out:↑") {
                (false, r.to_string(), false)
            } else {
                (false, s.clone(), true)
            };
            if !other {
                if down {
                    self.down.insert(name.clone());
                } else if !self.down.remove(&name) {
                    // redundant release: an OS ignores it
                    continue;
                }
            }
            self.outs.push(IOut { it: self.it, down, name, other });
        }
        self.k.kbd_out.log = kanata_state_machine::oskbd::LogFmt::new();
    }
    fn event(&mut self, code: u16, value: KeyValue) {
        let Some(code) = OsCode::from_u16(code) else { return };
        self.k.handle_input_event(&KeyEvent { code, value }).expect("harness: handle_input_event returned Err");
        self.drain();
    }
    fn tick(&mut self, n: u64) {
        for _ in 0..n {
            if self.runaway {
                return;
            }
            self.k.tick_ms(1, &None).expect("harness: tick_ms returned Err");
            self.drain();
            if self.outs.len() > RUNAWAY_OUTPUTS {
                self.runaway = true;
            }
            let running = self.k.dynamic_macro_replay_state.is_some();
            let (q, waiting) = {
                let l = self.k.layout.b();
                (l.queue.len(), l.waiting.is_some())
            };
            self.max_queue = self.max_queue.max(q);
            if self.was_running && !running && (q > 0 || waiting) {
                self.ended_with_pending += 1;
            }
            self.was_running = running;
        }
    }
    fn run(&mut self, h: &[Ev]) {
        for e in h {
            match e {
                Ev::P(c) => self.event(*c, KeyValue::Press),
                Ev::R(c) => self.event(*c, KeyValue::Release),
                Ev::T(n) => self.tick(*n as u64),
                _ => {}
            }
        }
    }
}

// ------------------------------------------------------------------------------------------------
// configuration

const TYPING: &[&str] = &["a", "s", "d", "f", "g"];
const LAYER_KEY: &str = "h";
const REC: &[&str] = &["1", "2", "3"];
const PLAY: &[&str] = &["7", "8", "9"];
const DUMMY: &[&str] = &["u", "i", "o"];
const PLAY_WITNESS: &[&str] = &["f14", "f17", "f18"];
const STOP: &str = "0";
const TRUNC: &[&str] = &["-", "="];
const OUT_LETTERS: &[&str] = &["q", "w", "e", "r", "t", "y", "z", "x", "c", "v", "b", "n", "m"];
const OUT_MODS: &[&str] = &["lsft", "lctl", "lalt", "rsft"];
/// play-graph family only: every macro begins with a tap of its own marker key, whose output no
/// other key produces, so the number of times a macro's content is replayed can be counted
const MARKER: &[&str] = &["j", "k", "l"];
const MARKER_OUT: &[&str] = &["f19", "f20", "f21"];
/// play-graph family: 2^9 adjacency matrices (macro i contains a tap of play key j) x 3 top-level plays
const GRAPHS: u64 = 512 * 3;
/// deferred-play family: virtual keys carrying the play actions (`on-release tap-vkey`)
const VKEY_PLAY: &[&str] = &["vp0", "vp1", "vp2"];
const VKEY_DUMMY: &[&str] = &["vd0", "vd1", "vd2"];

/// how the play keys (and the effect-free keys of the same shape) fire their play action
#[derive(Clone, Copy, Debug, PartialEq, Eq)]
enum PlayShape {
    /// `(dynamic-macro-play i)`: fires when the press is processed
    Plain,
    /// `(tap-hold R T (dynamic-macro-play i) XX)`: a tap fires it when the release is processed
    TapHold,
    /// `(on-release tap-vkey vpi)` with `vpi` = `(dynamic-macro-play i)`: fires two ticks after the release
    Vkey,
    /// `(tap-dance T ((dynamic-macro-play i) XX))`: a single tap fires it T ms after the press
    TapDance,
}

impl PlayShape {
    fn name(self) -> &'static str {
        match self {
            PlayShape::Plain => "plain",
            PlayShape::TapHold => "tap-hold-tap",
            PlayShape::Vkey => "on-release-vkey",
            PlayShape::TapDance => "tap-dance",
        }
    }
    fn on_release(self) -> bool {
        self != PlayShape::Plain
    }
    /// ticks between the processing of the last replayed event of a tap and the play request
    /// (lower estimate; used only to class a recording as 'play fires after the replay state is gone')
    fn latency(self, t: u32) -> u32 {
        match self {
            PlayShape::Plain | PlayShape::TapHold => 1,
            PlayShape::Vkey => 2,
            PlayShape::TapDance => t.saturating_sub(10),
        }
    }
}

#[derive(Clone, Copy, Debug, PartialEq, Eq)]
enum Kind {
    Basic,
    ReRecord,
    Nested,
    Limit,
    HeldContext,
    Timed,
    /// the stop key is tapped while a tap-hold decision is pending: kanata processes the stop
    /// only after later events have arrived (genuine deviation, see findings)
    LateStop,
    /// systematic nested play graphs over the three macros (cases appended after the random families)
    Graph,
    /// play graphs whose play keys fire on release / after a delay (tap-hold tap, on-release virtual
    /// key, tap-dance), with the play taps as the last thing recorded in a forced share of the
    /// recordings: the play request arrives after the last item of a (nested) replay was emitted
    Deferred,
}

/// number of cases of the random families; the play-graph family follows
fn base_cases(ctx: &Ctx) -> u64 {
    ctx.tier.sel(30_000, 600_000)
}

/// play-graph cases: every graph x top-level play x variant. Variants 0 and 1 realise the graph
/// exactly (constant / recorded delays; every macro recorded, no truncating stop, nothing else
/// pressed during the judged replay); the later ones (quick 2, thorough 22) alternate the delay
/// behaviour and add seeded disturbances (a macro never recorded, truncating stops, a second play
/// key tapped physically during the judged replay).
fn graph_cases(ctx: &Ctx) -> u64 {
    GRAPHS * ctx.tier.sel(4, 24)
}

/// deferred-play cases: every graph x top-level play x variant. Variant v mod 8: 0/1 tap-hold tap
/// (constant / recorded), 2/3 on-release virtual key, 4/5 tap-dance, 6 (constant) and 7 (recorded)
/// seeded shape with disturbances (a play key tapped physically around the end of the judged replay;
/// 7: the played macro stopped within 1 ms of its final play tap).
fn deferred_cases(ctx: &Ctx) -> u64 {
    GRAPHS * ctx.tier.sel(8, 48)
}

fn kind_of_case(ctx: &Ctx, idx: u64) -> Kind {
    if idx >= base_cases(ctx) + graph_cases(ctx) {
        Kind::Deferred
    } else if idx >= base_cases(ctx) {
        Kind::Graph
    } else {
        kind_of(idx)
    }
}

fn kind_of(idx: u64) -> Kind {
    if idx % 120 == 11 {
        return Kind::LateStop;
    }
    match idx % 12 {
        0 | 1 | 2 => Kind::Basic,
        3 => Kind::ReRecord,
        4 | 5 => Kind::Nested,
        6 => Kind::Limit,
        7 => Kind::HeldContext,
        _ => Kind::Timed,
    }
}

struct Cfg {
    text: String,
    recorded_delays: bool,
    max_presses: u32,
    trunc: [u32; 2],
    time_sensitive: bool,
    /// largest timeout written in the config
    max_timeout: u32,
    /// shapes used (for tags)
    shapes: BTreeSet<&'static str>,
    /// how the play keys fire (everything but the deferred family: `Plain`)
    play_shape: PlayShape,
    /// timeout written in the play keys' tap-hold / tap-dance
    play_t: u32,
    /// tap-repress timeout written in the play keys' tap-hold (0: a tap is always decided at its release)
    play_repress: u32,
}

fn insensitive_action(rng: &mut Rng, shapes: &mut BTreeSet<&'static str>) -> String {
    let l = |rng: &mut Rng| rng.pick(OUT_LETTERS).to_string();
    match rng.usize(10) {
        0..=3 => {
            shapes.insert("plain");
            l(rng)
        }
        4 | 5 => {
            shapes.insert("chord");
            let p = ["S-", "C-", "A-", "C-S-", "RS-"];
            format!("{}{}", rng.pick(&p), l(rng))
        }
        6 | 7 => {
            shapes.insert("multi");
            if rng.coin() {
                format!("(multi {} {})", l(rng), l(rng))
            } else {
                format!("(multi {} {})", rng.pick(OUT_MODS), l(rng))
            }
        }
        8 => {
            shapes.insert("mod");
            rng.pick(OUT_MODS).to_string()
        }
        _ => {
            shapes.insert("multi3");
            format!("(multi {} {} {})", rng.pick(OUT_MODS), l(rng), l(rng))
        }
    }
}

fn sensitive_action(rng: &mut Rng, shapes: &mut BTreeSet<&'static str>, t: u32) -> String {
    let l = |rng: &mut Rng| rng.pick(OUT_LETTERS).to_string();
    match rng.usize(6) {
        0 => {
            shapes.insert("tap-hold");
            format!("(tap-hold {t} {t} {} {})", l(rng), rng.pick(OUT_MODS))
        }
        1 => {
            shapes.insert("tap-hold-press");
            format!("(tap-hold-press {t} {t} {} {})", l(rng), l(rng))
        }
        2 => {
            shapes.insert("tap-hold-release");
            format!("(tap-hold-release {t} {t} {} {})", l(rng), rng.pick(OUT_MODS))
        }
        3 => {
            shapes.insert("one-shot");
            format!("(one-shot {} {})", t + 10, rng.pick(OUT_MODS))
        }
        4 => {
            shapes.insert("tap-dance");
            format!("(tap-dance {t} ({} {} {}))", l(rng), l(rng), l(rng))
        }
        _ => insensitive_action(rng, shapes),
    }
}

/// the action of a play key (or of its effect-free twin) of macro id `id` in the given shape;
/// `w`: witness key pressed together with the play action
fn play_action(shape: PlayShape, id: usize, vkey: &str, w: Option<&str>, t: u32, repress: u32) -> String {
    let play = format!("(dynamic-macro-play {id})");
    let with_w = |a: String| match w {
        Some(w) => format!("(multi {w} {a})"),
        None => a,
    };
    match shape {
        PlayShape::Plain => with_w(play),
        PlayShape::TapHold => format!("(tap-hold {repress} {t} {} XX)", with_w(play)),
        PlayShape::Vkey => with_w(format!("(on-release tap-vkey {vkey})")),
        PlayShape::TapDance => format!("(tap-dance {t} ({} XX))", with_w(play)),
    }
}

fn make_cfg(rng: &mut Rng, kind: Kind, force_recorded: Option<bool>, play_shape: PlayShape) -> Cfg {
    let time_sensitive = kind == Kind::Timed || kind == Kind::LateStop;
    let recorded_delays = if kind == Kind::LateStop {
        true
    } else if time_sensitive {
        rng.chance(4, 5)
    } else {
        rng.coin()
    };
    let recorded_delays = force_recorded.unwrap_or(recorded_delays);
    let max_presses = if kind == Kind::Limit { rng.below(6) as u32 } else { *rng.pick(&[128u32, 128, 1000, 40]) };
    let trunc = [rng.range(1, 3) as u32, rng.range(2, 9) as u32];
    let witness = rng.coin() || kind == Kind::LateStop;
    let t = if kind == Kind::LateStop { 200 } else { *rng.pick(&[20u32, 30, 50]) };
    let mut shapes = BTreeSet::new();
    let mut src: Vec<String> = vec![];
    let mut l0: Vec<String> = vec![];
    let mut l1: Vec<String> = vec![];
    for k in TYPING {
        src.push(k.to_string());
        let a0 = if kind == Kind::LateStop {
            // only the first typing key is a (slow) tap-hold, the others are plain
            if *k == TYPING[0] {
                shapes.insert("tap-hold");
                format!("(tap-hold {t} {t} x lsft)")
            } else {
                insensitive_action(rng, &mut shapes)
            }
        } else if time_sensitive && rng.chance(1, 2) {
            sensitive_action(rng, &mut shapes, t)
        } else {
            insensitive_action(rng, &mut shapes)
        };
        l0.push(a0);
        l1.push(if rng.chance(1, 3) {
            shapes.insert("transparent");
            "_".to_string()
        } else {
            insensitive_action(rng, &mut shapes)
        });
    }
    src.push(LAYER_KEY.to_string());
    l0.push("(layer-while-held l1)".to_string());
    l1.push("_".to_string());
    shapes.insert("layer-while-held");
    let wrap = |w: &str, a: String| if witness { format!("(multi {w} {a})") } else { a };
    let mut ctl = |name: &str, action: String| {
        src.push(name.to_string());
        l0.push(action);
        l1.push("_".to_string());
    };
    for (i, k) in REC.iter().enumerate() {
        ctl(k, wrap("f13", format!("(dynamic-macro-record {i})")));
    }
    let mut play_t = 0;
    let mut play_repress = 0;
    let mut vkeys = String::new();
    if play_shape == PlayShape::Plain {
        for (i, k) in PLAY.iter().enumerate() {
            ctl(k, wrap(PLAY_WITNESS[i], format!("(dynamic-macro-play {i})")));
        }
        for (i, k) in DUMMY.iter().enumerate() {
            // same shape as the play keys, but the macro ids are never recorded: no effect
            ctl(k, wrap(PLAY_WITNESS[i], format!("(dynamic-macro-play {})", 100 + i)));
        }
    } else {
        play_t = match play_shape {
            PlayShape::TapDance => *rng.pick(&[20u32, 30, 50]),
            _ => *rng.pick(&[100u32, 200]),
        };
        // tap-repress timeout of the tap-hold: mostly 0 (a tap is decided at its release whatever came before)
        let repress = if rng.chance(3, 4) { 0 } else { play_t };
        play_repress = if play_shape == PlayShape::TapHold { repress } else { 0 };
        for (i, k) in PLAY.iter().enumerate() {
            let w = if witness { Some(PLAY_WITNESS[i]) } else { None };
            ctl(k, play_action(play_shape, i, VKEY_PLAY[i], w, play_t, repress));
        }
        for (i, k) in DUMMY.iter().enumerate() {
            let w = if witness { Some(PLAY_WITNESS[i]) } else { None };
            ctl(k, play_action(play_shape, 100 + i, VKEY_DUMMY[i], w, play_t, repress));
        }
        if play_shape == PlayShape::Vkey {
            let defs: Vec<String> = (0..3).map(|i| format!("{} (dynamic-macro-play {i}) {} (dynamic-macro-play {})", VKEY_PLAY[i], VKEY_DUMMY[i], 100 + i)).collect();
            vkeys = format!("(defvirtualkeys {})\n", defs.join(" "));
        }
        shapes.insert(play_shape.name());
    }
    ctl(STOP, wrap("f15", "dynamic-macro-record-stop".to_string()));
    for (i, k) in TRUNC.iter().enumerate() {
        ctl(k, wrap("f16", format!("(dynamic-macro-record-stop-truncate {})", trunc[i])));
    }
    if kind == Kind::Graph || kind == Kind::Deferred {
        for (i, k) in MARKER.iter().enumerate() {
            ctl(k, MARKER_OUT[i].to_string());
        }
        shapes.insert("marker");
    }
    let text = format!(
        "(defcfg dynamic-macro-max-presses {max_presses} dynamic-macro-replay-delay-behaviour {})\n{vkeys}(defsrc {})\n(deflayer l0 {})\n(deflayer l1 {})\n",
        if recorded_delays { "recorded" } else { "constant" },
        src.join(" "),
        l0.join(" "),
        l1.join(" ")
    );
    Cfg { text, recorded_delays, max_presses, trunc, time_sensitive, max_timeout: t + 10, shapes, play_shape, play_t, play_repress }
}

// ------------------------------------------------------------------------------------------------
// history builder with the harness's own bookkeeping of what is being recorded

#[derive(Clone, Debug)]
struct RecEv {
    press: bool,
    code: u16,
    /// ticks until the next event of the original history (whatever it was)
    gap: u32,
}

#[derive(Clone, Debug, Default)]
struct Stored {
    evs: Vec<RecEv>,
    /// keys pressed in `evs` and not released in it: released at the end of the replay, any order
    tail: Vec<u16>,
    /// stopped by the size limit: the exact cut is implementation-defined; `evs` holds everything
    /// typed until the recording was seen to have stopped, candidates are tried by the judge
    by_limit: bool,
}

fn unreleased(evs: &[RecEv]) -> Vec<u16> {
    let mut down: Vec<u16> = vec![];
    for e in evs {
        if e.press {
            if !down.contains(&e.code) {
                down.push(e.code);
            }
        } else {
            down.retain(|c| *c != e.code);
        }
    }
    down
}

struct Builder {
    h: Vec<Ev>,
    down: Vec<u16>,
    rec: Option<(usize, Vec<RecEv>)>,
    stored: BTreeMap<usize, Stored>,
    /// minimum gap between events inside recorded sections (1 for exact-timing cases)
    min_gap: u32,
    gaps: Vec<u32>,
    settle: u32,
}

impl Builder {
    fn tick(&mut self, n: u32) {
        if n == 0 {
            return;
        }
        if let Some(Ev::T(k)) = self.h.last_mut() {
            *k += n;
        } else {
            self.h.push(Ev::T(n));
        }
        if let Some((_, evs)) = self.rec.as_mut() {
            if let Some(l) = evs.last_mut() {
                l.gap += n;
            }
        }
    }
    fn press(&mut self, c: u16) {
        self.h.push(Ev::P(c));
        if !self.down.contains(&c) {
            self.down.push(c);
        }
        if let Some((_, evs)) = self.rec.as_mut() {
            evs.push(RecEv { press: true, code: c, gap: 0 });
        }
    }
    fn release(&mut self, c: u16) {
        self.h.push(Ev::R(c));
        self.down.retain(|x| *x != c);
        if let Some((_, evs)) = self.rec.as_mut() {
            evs.push(RecEv { press: false, code: c, gap: 0 });
        }
    }
    fn gap(&mut self, rng: &mut Rng) {
        let g = (*rng.pick(&self.gaps)).max(if self.rec.is_some() { self.min_gap } else { 0 });
        self.tick(g);
    }
    /// random typing on the typing keys (and the layer key)
    fn typing(&mut self, rng: &mut Rng, keys: &[u16], n: usize) {
        for _ in 0..n {
            let held: Vec<u16> = self.down.iter().copied().filter(|c| keys.contains(c)).collect();
            let ups: Vec<u16> = keys.iter().copied().filter(|c| !self.down.contains(c)).collect();
            if !held.is_empty() && (ups.is_empty() || rng.chance(45, 100)) {
                let c = *rng.pick(&held);
                self.release(c);
            } else if !ups.is_empty() {
                let c = *rng.pick(&ups);
                self.press(c);
            }
            self.gap(rng);
        }
    }
    fn release_typing(&mut self, rng: &mut Rng, keys: &[u16]) {
        let mut held: Vec<u16> = self.down.iter().copied().filter(|c| keys.contains(c)).collect();
        rng.shuffle(&mut held);
        for c in held {
            self.release(c);
            self.gap(rng);
        }
    }
    /// press a record key: if a recording is running it is stopped (the press is not part of it)
    fn press_record(&mut self, id: usize) {
        let code = osc(REC[id]);
        // the control key press itself is never part of a recording
        let rec = self.rec.take();
        self.h.push(Ev::P(code));
        self.down.push(code);
        self.tick_raw(2);
        match rec {
            None => self.rec = Some((id, vec![])),
            Some((cur, evs)) => {
                self.store(cur, evs, 0);
                if cur != id {
                    self.rec = Some((id, vec![]));
                }
            }
        }
    }
    /// press the stop key / a truncating stop key
    fn press_stop(&mut self, key: &str, truncate: u32) {
        let code = osc(key);
        let rec = self.rec.take();
        self.h.push(Ev::P(code));
        self.down.push(code);
        self.tick_raw(2);
        if let Some((cur, evs)) = rec {
            self.store(cur, evs, truncate);
        }
    }
    fn tick_raw(&mut self, n: u32) {
        // ticks that do not count into any recorded gap bookkeeping beyond the last event
        if let Some(Ev::T(k)) = self.h.last_mut() {
            *k += n;
        } else {
            self.h.push(Ev::T(n));
        }
    }
    fn store(&mut self, id: usize, mut evs: Vec<RecEv>, truncate: u32) {
        let keep = evs.len().saturating_sub(truncate as usize);
        evs.truncate(keep);
        let tail = unreleased(&evs);
        self.stored.insert(id, Stored { evs, tail, by_limit: false });
    }
    fn release_all(&mut self, rng: &mut Rng) {
        let mut held = self.down.clone();
        rng.shuffle(&mut held);
        for c in held {
            self.release(c);
            self.tick(1);
        }
    }
    fn settle(&mut self) {
        let s = self.settle;
        self.tick(s);
    }
}

// ------------------------------------------------------------------------------------------------
// case construction

#[derive(Clone, Debug)]
struct Typed {
    press: bool,
    code: u16,
    gap: u32,
}

struct Case {
    kind: Kind,
    cfg: Cfg,
    /// history up to (not including) the judged play key press
    prefix: Vec<Ev>,
    play_id: usize,
    stored: BTreeMap<usize, Stored>,
    /// ticks to wait for the replay
    wait: u32,
    /// keys physically held while the macro is played (released afterwards)
    held_at_play: Vec<u16>,
    notes: Vec<String>,
    /// play-graph family: the planned graph
    graph: Option<GraphPlan>,
    /// deferred-play family
    deferred: Option<DeferredPlan>,
}

/// one case of the deferred-play family (the graph itself is in `Case::graph`)
#[derive(Clone, Debug)]
struct DeferredPlan {
    shape: PlayShape,
    /// variants 6 and 7 (mod 8): seeded shape, physical play key around the end of the replay, short pause
    disturbed: bool,
    /// macros whose recording ends with a play tap (nothing typed after it, no key left down)
    tail_play: [bool; 3],
    /// ticks between the last recorded event and the stop
    pauses: [u32; 3],
    /// a play key is tapped physically this many ticks before the end of the judged replay, as
    /// measured in a run without it (judged by upper bounds only, like `GraphPlan::interrupt`)
    end_probe: Option<(u32, usize)>,
    /// ticks between press and release of the judged play key
    tap_gap: u32,
}

fn deferred_plan(ctx: &Ctx, idx: u64) -> (GraphPlan, bool, PlayShape, bool) {
    let g = idx - base_cases(ctx) - graph_cases(ctx);
    let variant = g / GRAPHS;
    let r = g % GRAPHS;
    let top = (r % 3) as usize;
    let bits = r / 3;
    let mut adj = [[false; 3]; 3];
    for i in 0..3 {
        for j in 0..3 {
            adj[i][j] = bits >> (3 * i + j) & 1 == 1;
        }
    }
    let v8 = variant % 8;
    let shape = match v8 {
        0 | 1 => PlayShape::TapHold,
        2 | 3 => PlayShape::Vkey,
        4 | 5 => PlayShape::TapDance,
        _ => {
            let mut rng = Rng::for_case(ctx.seed, "C19", "shape", idx);
            if rng.coin() {
                PlayShape::TapHold
            } else {
                PlayShape::Vkey
            }
        }
    };
    (GraphPlan { adj, top, clean: v8 < 6, interrupt: None }, v8 % 2 == 1, shape, v8 >= 6)
}

/// record macro `id` for the deferred-play family: marker tap, then typing interleaved with taps of
/// the play keys in `targets`; with `tail` the last of these taps is the last thing recorded (every
/// typing key released before it), and the recording is stopped `pause` ticks after it
#[allow(clippy::too_many_arguments)]
fn record_deferred(b: &mut Builder, rng: &mut Rng, cfg: &Cfg, keys: &[u16], id: usize, targets: &[usize], tail: bool, pause: u32, notes: &mut Vec<String>) {
    let lat = cfg.play_t;
    if rng.chance(1, 4) {
        let k_ = 1 + rng.usize(2);
        b.typing(rng, keys, k_);
    }
    b.tick(rng.range(0, 3) as u32 + 8);
    b.press_record(id);
    let rc = osc(REC[id]);
    b.release(rc);
    b.gap(rng);
    let mk = osc(MARKER[id]);
    b.press(mk);
    b.gap(rng);
    b.release(mk);
    b.gap(rng);
    let tail = tail && !targets.is_empty();
    for (n, &x) in targets.iter().enumerate() {
        let last = n + 1 == targets.len();
        let n_ = rng.usize(3);
        b.typing(rng, keys, n_);
        if last && tail {
            b.release_typing(rng, keys);
        }
        // a play key is tapped when nothing is pending, and nothing else happens during the tap
        b.tick(9);
        let pc = osc(PLAY[x]);
        b.press(pc);
        b.tick(1 + rng.usize(6) as u32);
        b.release(pc);
        if last && tail {
            break;
        }
        // the play request fires now: a replay of what is stored right now starts live; let it
        // finish (replayed tap-hold taps and virtual-key taps delay whatever is typed meanwhile,
        // also the stop key)
        let w = if b.stored.contains_key(&x) { ticks_needed_shape(&b.stored, x, lat).min(4000) as u32 } else { 0 };
        b.tick(w + 9);
    }
    if !tail {
        let n_ = rng.usize(4);
        b.typing(rng, keys, n_);
        if rng.coin() {
            b.release_typing(rng, keys);
        }
    }
    b.tick(pause);
    if rng.chance(1, 5) {
        b.press_record(id);
        notes.push(format!("rec{id}: record key pressed again"));
    } else {
        b.press_stop(STOP, 0);
        notes.push(format!("rec{id}: stop"));
    }
    b.tick(2);
    b.release_all(rng);
    b.settle();
    // live replays started by the taps above are over before anything else is recorded
    let live: u64 = (0..3).map(|m| ticks_needed_shape(&b.stored, m, lat)).sum();
    b.tick(live.min(6000) as u32);
}

/// one case of the systematic play-graph family
#[derive(Clone, Debug)]
struct GraphPlan {
    /// `adj[i][j]`: the recording of macro i contains a tap of play key j
    adj: [[bool; 3]; 3],
    top: usize,
    /// variant 0/1: the graph is realised exactly, no seeded disturbances
    clean: bool,
    /// a second play key is tapped physically this many ticks after the judged play key (the
    /// replay is then judged by counts, termination and the invariants only)
    interrupt: Option<(u32, usize)>,
}

fn graph_plan(ctx: &Ctx, idx: u64) -> (GraphPlan, bool) {
    let g = idx - base_cases(ctx);
    let variant = g / GRAPHS;
    let r = g % GRAPHS;
    let top = (r % 3) as usize;
    let bits = r / 3;
    let mut adj = [[false; 3]; 3];
    for i in 0..3 {
        for j in 0..3 {
            adj[i][j] = bits >> (3 * i + j) & 1 == 1;
        }
    }
    (GraphPlan { adj, top, clean: variant < 2, interrupt: None }, variant % 2 == 1)
}

/// ticks a correct replay of macro `id` needs at most when every replayed event and every nested
/// macro boundary is paced with 5 ms (used to size waits; the judged bound is `replay_bound`)
fn ticks_needed(stored: &BTreeMap<usize, Stored>, id: usize) -> u64 {
    let (typed, fs) = expand(stored, id);
    let top_tail = stored.get(&id).map(|s| unreleased(&s.evs).len()).unwrap_or(0) as u64;
    6 * (typed.len() as u64 + top_tail + fs.total_instances() as u64) + 30
}

/// record macro `id` for the play-graph family: marker tap, then typing interleaved with taps of
/// the play keys in `targets`
fn record_graph(b: &mut Builder, rng: &mut Rng, cfg: &Cfg, keys: &[u16], id: usize, targets: &[usize], clean: bool, notes: &mut Vec<String>) {
    if rng.chance(1, 4) {
        let k_ = 1 + rng.usize(2);
        b.typing(rng, keys, k_);
    }
    b.tick(rng.range(0, 3) as u32 + 8);
    b.press_record(id);
    let rc = osc(REC[id]);
    b.release(rc);
    b.gap(rng);
    let mk = osc(MARKER[id]);
    b.press(mk);
    b.gap(rng);
    b.release(mk);
    b.gap(rng);
    for &x in targets {
        let n_ = rng.usize(3);
        b.typing(rng, keys, n_);
        let pc = osc(PLAY[x]);
        b.press(pc);
        b.gap(rng);
        if rng.chance(1, 4) {
            b.typing(rng, keys, 1);
        }
        b.release(pc);
        // a replay of what is stored right now starts live: let it finish, or go on typing into it
        if rng.chance(2, 3) {
            let w = ticks_needed(&b.stored, x).min(4000) as u32;
            b.tick(w);
        } else {
            b.gap(rng);
        }
    }
    let n_ = rng.usize(4);
    b.typing(rng, keys, n_);
    if rng.coin() {
        b.release_typing(rng, keys);
    }
    b.tick(34);
    match rng.usize(6) {
        0 if !clean => {
            let which = rng.usize(2);
            b.press_stop(TRUNC[which], cfg.trunc[which]);
            notes.push(format!("rec{id}: stop-truncate {}", cfg.trunc[which]));
        }
        1 => {
            b.press_record(id);
            notes.push(format!("rec{id}: record key pressed again"));
        }
        _ => {
            b.press_stop(STOP, 0);
            notes.push(format!("rec{id}: stop"));
        }
    }
    b.tick(2);
    b.release_all(rng);
    b.settle();
}

fn typing_codes() -> Vec<u16> {
    TYPING.iter().chain([LAYER_KEY].iter()).map(|k| osc(k)).collect()
}

fn make_case(ctx: &Ctx, idx: u64) -> Case {
    let kind = kind_of_case(ctx, idx);
    let mut rng = Rng::for_case(ctx.seed, "C19", "case", idx);
    let mut graph = None;
    let mut force_recorded = None;
    let mut play_shape = PlayShape::Plain;
    let mut deferred: Option<DeferredPlan> = None;
    if kind == Kind::Graph {
        let (g, recorded) = graph_plan(ctx, idx);
        graph = Some(g);
        force_recorded = Some(recorded);
    }
    if kind == Kind::Deferred {
        let (g, recorded, shape, disturbed) = deferred_plan(ctx, idx);
        graph = Some(g);
        force_recorded = Some(recorded);
        play_shape = shape;
        deferred = Some(DeferredPlan { shape, disturbed, tail_play: [false; 3], pauses: [34; 3], end_probe: None, tap_gap: 3 });
    }
    let cfg = make_cfg(&mut rng, kind, force_recorded, play_shape);
    let keys = typing_codes();
    let exact_timing = cfg.time_sensitive;
    // several tap-holds pressed close together are decided one after the other
    let settle = if cfg.time_sensitive { 6 * cfg.max_timeout + 60 } else { cfg.max_timeout + 60 };
    let mut b = Builder {
        h: vec![],
        down: vec![],
        rec: None,
        stored: BTreeMap::new(),
        min_gap: if exact_timing { 1 } else { 0 },
        gaps: if exact_timing { vec![1, 1, 2, 3, 7, cfg.max_timeout - 11, cfg.max_timeout - 10, cfg.max_timeout - 9, cfg.max_timeout + 5] } else { vec![0, 0, 1, 1, 2, 5, 12] },
        settle,
    };
    let mut notes = vec![];
    let mut held_at_play = vec![];
    let n_sec = |rng: &mut Rng| rng.usize(ctx.tier.sel(14, 24));
    // one recording: optional keys held across the start, section, stop in a random way
    let record = |b: &mut Builder, rng: &mut Rng, id: usize, n: usize, notes: &mut Vec<String>, nested: &[usize], allow_tail: bool| {
        // keys held across the start
        if rng.chance(1, 3) {
            let k_ = 1 + rng.usize(3);
            b.typing(rng, &keys, k_);
        }
        if b.min_gap > 0 {
            b.settle();
        } else {
            b.tick(rng.range(0, 3) as u32 + 8);
        }
        b.press_record(id);
        let rc = osc(REC[id]);
        let early_release = rng.chance(2, 3);
        if early_release {
            b.release(rc);
            b.gap(rng);
        }
        let mut left = n;
        let mut nest: Vec<usize> = nested.to_vec();
        while left > 0 || !nest.is_empty() {
            let chunk = if nest.is_empty() { left } else { rng.usize(left + 1) };
            b.typing(rng, &keys, chunk);
            left -= chunk;
            if let Some(x) = nest.pop() {
                // tap a play key while recording (it is recorded as a physical key)
                let pc = osc(PLAY[x]);
                b.press(pc);
                b.gap(rng);
                if rng.chance(1, 4) {
                    b.typing(rng, &keys, 1);
                }
                b.release(pc);
                // let a live replay (if any) finish most of the time
                if rng.chance(3, 4) {
                    b.tick(120);
                } else {
                    b.gap(rng);
                }
            }
        }
        if !early_release && rng.coin() {
            b.release(rc);
            b.gap(rng);
        }
        if !allow_tail {
            b.release_typing(rng, &keys);
        }
        // before the stop: let queued events be processed; time-sensitive configs settle fully if keys are held
        if b.min_gap > 0 {
            // time-sensitive: no decision may be pending when the stop key is pressed
            b.settle();
        } else {
            b.tick(34);
        }
        let mode = rng.usize(5);
        match mode {
            0 | 1 => {
                b.press_stop(STOP, 0);
                notes.push(format!("rec{id}: stop"));
            }
            2 => {
                let which = rng.usize(2);
                b.press_stop(TRUNC[which], cfg.trunc[which]);
                notes.push(format!("rec{id}: stop-truncate {}", cfg.trunc[which]));
            }
            3 if !b.down.contains(&rc) => {
                b.press_record(id);
                notes.push(format!("rec{id}: record key pressed again"));
            }
            _ => {
                // another record key: saves this one and starts the other, which is stopped right away
                let other = (id + 1 + rng.usize(2)) % 3;
                if b.down.contains(&osc(REC[other])) || nested.contains(&other) || other == id {
                    b.press_stop(STOP, 0);
                    notes.push(format!("rec{id}: stop"));
                } else {
                    b.press_record(other);
                    b.release(osc(REC[other]));
                    b.tick(3);
                    b.press_stop(STOP, 0);
                    notes.push(format!("rec{id}: stopped by record key {other}, which then recorded only its own release"));
                }
            }
        }
        b.tick(2);
        b.release_all(rng);
        b.settle();
    };
    let mut play_id = rng.usize(3);
    match kind {
        Kind::Basic | Kind::Timed => {
            if rng.chance(1, 4) {
                b.typing(&mut rng, &keys, 4);
                b.release_all(&mut rng);
                b.settle();
            }
            let n = n_sec(&mut rng);
            // time-sensitive: several keys left down make the comparison ambiguous, so do it less often
            let allow_tail = kind == Kind::Basic || rng.coin();
            record(&mut b, &mut rng, play_id, n, &mut notes, &[], allow_tail);
        }
        Kind::ReRecord => {
            let n = n_sec(&mut rng);
            record(&mut b, &mut rng, play_id, n, &mut notes, &[], true);
            if rng.coin() {
                // play the first version in between (not judged)
                b.press(osc(PLAY[play_id]));
                b.tick(250);
                b.release(osc(PLAY[play_id]));
                b.settle();
            }
            let n = n_sec(&mut rng);
            record(&mut b, &mut rng, play_id, n, &mut notes, &[], true);
            notes.push("re-recorded".into());
        }
        Kind::Nested => {
            let a = play_id;
            let bb = (play_id + 1) % 3;
            let shape = rng.usize(5);
            let mut depth2 = false;
            match shape {
                4 => {
                    // C plays B plays A
                    let c = (play_id + 2) % 3;
                    let n_ = 1 + rng.usize(4);
                    record(&mut b, &mut rng, a, n_, &mut notes, &[], false);
                    let n_ = 1 + rng.usize(4);
                    record(&mut b, &mut rng, bb, n_, &mut notes, &[a], false);
                    let n_ = 1 + rng.usize(4);
                    record(&mut b, &mut rng, c, n_, &mut notes, &[bb], true);
                    notes.push("nested: C plays B plays A".into());
                    play_id = c;
                    depth2 = true;
                }
                0 => {
                    // B plays A
                    let n_ = 1 + rng.usize(6);
                    let c_ = rng.coin();
                    record(&mut b, &mut rng, a, n_, &mut notes, &[], c_);
                    let n_ = 1 + rng.usize(6);
                    record(&mut b, &mut rng, bb, n_, &mut notes, &[a], true);
                    notes.push("nested: B plays A".into());
                }
                1 => {
                    // A plays itself (first while nothing is stored, then again with a stored version)
                    let n_ = 1 + rng.usize(5);
                    record(&mut b, &mut rng, bb, n_, &mut notes, &[bb], true);
                    if rng.coin() {
                        let n_ = 1 + rng.usize(5);
                        record(&mut b, &mut rng, bb, n_, &mut notes, &[bb], true);
                    }
                    notes.push("nested: self-play".into());
                }
                2 => {
                    // mutual: A plays B, B plays A
                    let n_ = 1 + rng.usize(4);
                    record(&mut b, &mut rng, a, n_, &mut notes, &[bb], false);
                    let n_ = 1 + rng.usize(4);
                    record(&mut b, &mut rng, bb, n_, &mut notes, &[a], true);
                    notes.push("nested: mutual".into());
                }
                _ => {
                    // B plays A twice and itself; A re-recorded afterwards
                    let n_ = 1 + rng.usize(4);
                    record(&mut b, &mut rng, a, n_, &mut notes, &[], false);
                    let n_ = 1 + rng.usize(5);
                    record(&mut b, &mut rng, bb, n_, &mut notes, &[a, bb, a], true);
                    if rng.coin() {
                        let n_ = 1 + rng.usize(4);
                        record(&mut b, &mut rng, a, n_, &mut notes, &[], false);
                    }
                    notes.push("nested: twice + self".into());
                }
            }
            if !depth2 {
                play_id = bb;
            }
        }
        Kind::LateStop => {
            play_id = 0;
            b.tick(10);
            b.press_record(0);
            b.release(osc(REC[0]));
            b.tick(3);
            let plain: Vec<u16> = keys[1..5].to_vec();
            let n_ = 2 * rng.usize(3);
            b.typing(&mut rng, &plain, n_);
            b.release_typing(&mut rng, &plain);
            b.tick(20);
            // hold the tap-hold key, tap the stop key before the decision
            let th = osc(TYPING[0]);
            b.press(th);
            b.tick(rng.range(2, 30) as u32);
            b.press_stop(STOP, 0);
            b.tick(rng.range(1, 40) as u32);
            b.release(osc(STOP));
            b.tick(400);
            b.release_all(&mut rng);
            b.settle();
            notes.push("stop key tapped while a tap-hold decision was pending".into());
        }
        Kind::Limit => {
            b.tick(10);
            b.press_record(play_id);
            b.release(osc(REC[play_id]));
            b.tick(1);
            let total = 2 * cfg.max_presses as usize + 8 + rng.usize(8);
            // typing far beyond the limit; bookkeeping keeps everything, the judge tries the cuts
            b.typing(&mut rng, &keys, total);
            let (id, evs) = b.rec.take().unwrap_or((play_id, vec![]));
            b.stored.insert(id, Stored { evs, tail: vec![], by_limit: true });
            b.tick(2);
            b.release_all(&mut rng);
            b.settle();
            notes.push(format!("limit {} exceeded with {} events", cfg.max_presses, total));
        }
        Kind::HeldContext => {
            let n = n_sec(&mut rng);
            record(&mut b, &mut rng, play_id, n, &mut notes, &[], true);
        }
        // built after this match (needs the plan and the configuration's play-key shape)
        Kind::Deferred => {}
        Kind::Graph => {
            let g = graph.as_mut().expect("graph plan");
            play_id = g.top;
            let mut order = vec![0usize, 1, 2];
            rng.shuffle(&mut order);
            let mut skipped = vec![];
            for &m in &order {
                // now and then a macro other than the played one is never recorded: plays of it replay nothing
                if !g.clean && m != g.top && rng.chance(1, 8) {
                    skipped.push(m);
                    continue;
                }
                let mut targets = vec![];
                for j in 0..3 {
                    if g.adj[m][j] {
                        targets.push(j);
                        if rng.chance(1, 4) {
                            targets.push(j);
                        }
                    }
                }
                rng.shuffle(&mut targets);
                record_graph(&mut b, &mut rng, &cfg, &keys, m, &targets, g.clean, &mut notes);
            }
            let adj = g.adj;
            let edges: Vec<String> = (0..3).flat_map(|i| (0..3).filter(move |j| adj[i][*j]).map(move |j| format!("{i}>{j}"))).collect();
            notes.push(format!("graph: edges [{}] top {} recorded in order {:?} never recorded {:?}", edges.join(" "), g.top, order, skipped));
            if !g.clean && rng.coin() {
                let z = rng.usize(3);
                let (typed, fs) = expand(&b.stored, g.top);
                let items = typed.len() as u64 + fs.total_instances() as u64;
                let span = if cfg.recorded_delays { items } else { 5 * items };
                let at = rng.range(1, span.max(2)) as u32;
                g.interrupt = Some((at, z));
                notes.push(format!("graph: play key {z} tapped physically {at} ticks after the judged play key"));
            }
        }
    }
    if kind == Kind::Deferred {
        let g = graph.as_mut().expect("graph plan");
        let d = deferred.as_mut().expect("deferred plan");
        play_id = g.top;
        let lat = cfg.play_t;
        let mut order = vec![0usize, 1, 2];
        rng.shuffle(&mut order);
        // the played macro stopped within 1 ms of its final play tap (recorded delays only, where the
        // pause decides how long the finished replay lingers)
        let short_top = d.disturbed && cfg.recorded_delays && d.shape == PlayShape::Vkey && rng.coin();
        if d.shape == PlayShape::TapDance || short_top {
            // the played macro is recorded last: while it is recorded nothing can replay it live
            order.retain(|m| *m != g.top);
            order.push(g.top);
        }
        for &m in &order {
            let mut targets = vec![];
            for j in 0..3 {
                if g.adj[m][j] {
                    targets.push(j);
                    if rng.chance(1, 4) {
                        targets.push(j);
                    }
                }
            }
            rng.shuffle(&mut targets);
            let mut tail = rng.chance(2, 3);
            if d.shape == PlayShape::TapDance {
                // a tap-dance fires after its timeout or at the next key press: only one tap, last,
                // and only in the played macro (with constant pacing a stored macro that ends with
                // its own tap-dance play tap must not be played live while the others are recorded)
                targets.truncate(1);
                tail = true;
                if m != g.top {
                    targets.clear();
                }
            }
            if short_top && m == g.top {
                tail = true;
            }
            let tail = tail && !targets.is_empty();
            // the stop key is pressed when the replay that the final play tap started live (if that
            // macro is stored by now) is over: replayed events and virtual-key taps share kanata's
            // event queue with the stop key, which would otherwise be processed late (assumption 1)
            // (nothing to wait for while that macro is not stored yet, e.g. the macro's own play key)
            let live = targets.last().filter(|x| b.stored.contains_key(*x)).map(|x| ticks_needed_shape(&b.stored, *x, lat).min(4000) as u32).unwrap_or(0);
            let pause = if !tail {
                34
            } else if d.shape == PlayShape::TapDance {
                // ... and after the tap-dance has fired
                lat + 15 + live
            } else if short_top && m == g.top {
                // (recorded last: what its final tap plays live is over before the judged play)
                1
            } else if d.shape == PlayShape::TapHold {
                // kanata holds a tap-hold's tap action for some ms and processes later events only
                // after that: a control key pressed earlier would be processed late (assumption 1)
                *rng.pick(&[9u32, 12, 34]) + live
            } else {
                *rng.pick(&[2u32, 3, 8, 34]) + live
            };
            d.tail_play[m] = tail;
            d.pauses[m] = pause;
            record_deferred(&mut b, &mut rng, &cfg, &keys, m, &targets, tail, pause, &mut notes);
        }
        let adj = g.adj;
        let edges: Vec<String> = (0..3).flat_map(|i| (0..3).filter(move |j| adj[i][*j]).map(move |j| format!("{i}>{j}"))).collect();
        notes.push(format!(
            "deferred play keys ({}): planned edges [{}] top {} recorded in order {:?}; recordings ending with a play tap {:?}, ticks between the last event and the stop {:?}",
            d.shape.name(),
            edges.join(" "),
            g.top,
            order,
            d.tail_play,
            d.pauses
        ));
        d.tap_gap = 1 + rng.usize(5) as u32;
        if d.disturbed && !short_top && rng.chance(3, 4) {
            let z = rng.usize(3);
            let k = rng.usize(13) as u32;
            d.end_probe = Some((k, z));
            notes.push(format!("deferred: play key {z} tapped physically {k} ticks before the end of the judged replay (as measured without it)"));
        }
    }
    // how long a replay can take
    let mut total: u64 = 0;
    for s in b.stored.values() {
        total += s.evs.iter().map(|e| e.gap as u64 + 6).sum::<u64>() + 12;
    }
    let mut wait = (total * 4 + 200).min(20_000) as u32 + settle;
    if kind == Kind::Graph {
        // nested plays repeat stored content: size the wait from the expansions instead
        let need: u64 = (0..3).map(|m| ticks_needed(&b.stored, m)).sum();
        wait = (need + 200).min(20_000) as u32 + settle;
    }
    if kind == Kind::Deferred {
        let need: u64 = (0..3).map(|m| ticks_needed_shape(&b.stored, m, cfg.play_t)).sum();
        wait = (need + 200 + 4 * cfg.play_t as u64).min(20_000) as u32 + settle;
    }
    // replays started while recording must be over before the judged play
    b.tick(wait);
    if kind == Kind::HeldContext {
        // keys physically held while the macro plays
        let mut ks = keys.clone();
        rng.shuffle(&mut ks);
        ks.truncate(1 + rng.usize(2));
        if rng.coin() && !ks.contains(&osc(LAYER_KEY)) {
            ks[0] = osc(LAYER_KEY);
        }
        for c in &ks {
            b.press(*c);
            b.tick(2);
        }
        b.tick(20);
        held_at_play = ks;
        notes.push("keys held while playing".into());
    }
    Case { kind, cfg, prefix: b.h, play_id, stored: b.stored, wait, held_at_play, notes, graph, deferred }
}

fn play_code(id: usize) -> u16 {
    osc(PLAY[id])
}

fn is_play_key(code: u16) -> Option<usize> {
    PLAY.iter().position(|p| osc(p) == code)
}

/// why the model refuses a play key found inside a replayed macro
#[derive(Clone, Copy, Debug, PartialEq, Eq, PartialOrd, Ord)]
enum Refusal {
    /// a nested macro (not the one whose play key was pressed) contains its own play key
    SelfNested,
    /// a macro nested at depth >= 2 plays a nested ancestor other than itself (cycle that does not
    /// pass through the top-level macro)
    BackToNestedAncestor,
    /// the top-level macro contains its own play key
    SelfAtTop,
    /// a nested macro plays the top-level macro
    BackToTop,
}

impl Refusal {
    fn name(self) -> &'static str {
        match self {
            Refusal::SelfNested => "self-nested",
            Refusal::BackToNestedAncestor => "back-to-nested-ancestor",
            Refusal::SelfAtTop => "self-at-top",
            Refusal::BackToTop => "back-to-top",
        }
    }
}

/// what the model's expansion of one play looked like
#[derive(Clone, Debug, Default)]
struct FlatStats {
    max_depth: usize,
    /// how often each macro's content is replayed (the top-level one counts once)
    instances: BTreeMap<usize, u32>,
    /// refused play presses: (class, refused macro)
    refusals: Vec<(Refusal, usize)>,
    /// play presses of macros that were never stored (nothing to replay)
    plays_of_nothing: u32,
    /// length of the typed expansion at the moment of each refusal (a refusal at the very end of
    /// the expansion is a play request that arrives after the last replayed event)
    refusal_at: Vec<usize>,
    /// a play key's release without its press in the same recording, or a play key left down at a
    /// nested macro's stop (deferred shapes: whether that fires is a matter of timing)
    unpaired_play_release: bool,
}

impl FlatStats {
    fn total_instances(&self) -> u32 {
        self.instances.values().sum()
    }
}

/// what typing the recorded macro again means: nested plays expanded in place (a macro never plays
/// itself), play keys replaced by the effect-free keys of the same shape
fn flatten(stored: &BTreeMap<usize, Stored>, id: usize, cut: Option<usize>, active: &mut Vec<usize>, out: &mut Vec<Typed>, order_known: &mut bool, depth: usize, fs: &mut FlatStats, on_release: bool) {
    let Some(st) = stored.get(&id) else { return };
    fs.max_depth = fs.max_depth.max(depth);
    *fs.instances.entry(id).or_insert(0) += 1;
    let evs: &[RecEv] = match cut {
        Some(n) => &st.evs[..n.min(st.evs.len())],
        None => &st.evs,
    };
    // deferred shapes: play keys pressed in this recording and not yet released
    let mut pressed_play: Vec<usize> = vec![];
    for e in evs {
        match is_play_key(e.code) {
            Some(x) => {
                out.push(Typed { press: e.press, code: osc(DUMMY[x]), gap: e.gap });
                let fires = if !on_release {
                    e.press
                } else if e.press {
                    if !pressed_play.contains(&x) {
                        pressed_play.push(x);
                    }
                    false
                } else if pressed_play.contains(&x) {
                    pressed_play.retain(|p| *p != x);
                    true
                } else {
                    fs.unpaired_play_release = true;
                    false
                };
                if fires {
                    if !stored.contains_key(&x) {
                        fs.plays_of_nothing += 1;
                    } else if active.contains(&x) {
                        let class = if x == id {
                            if depth == 0 {
                                Refusal::SelfAtTop
                            } else {
                                Refusal::SelfNested
                            }
                        } else if active.first() == Some(&x) {
                            Refusal::BackToTop
                        } else {
                            Refusal::BackToNestedAncestor
                        };
                        fs.refusals.push((class, x));
                        fs.refusal_at.push(out.len());
                    } else {
                        active.push(x);
                        flatten(stored, x, None, active, out, order_known, depth + 1, fs, on_release);
                        active.pop();
                    }
                }
            }
            None => out.push(Typed { press: e.press, code: e.code, gap: e.gap }),
        }
    }
    if on_release && !pressed_play.is_empty() {
        fs.unpaired_play_release = true;
    }
    if depth > 0 {
        let tail = if cut.is_some() { unreleased(evs) } else { st.tail.clone() };
        if tail.len() > 1 {
            *order_known = false;
        }
        for c in tail {
            let c = match is_play_key(c) {
                Some(x) => osc(DUMMY[x]),
                None => c,
            };
            out.push(Typed { press: false, code: c, gap: 1 });
        }
    }
}

/// the model's expansion of pressing play key `id` while nothing else is replayed
fn expand(stored: &BTreeMap<usize, Stored>, id: usize) -> (Vec<Typed>, FlatStats) {
    expand_shape(stored, id, false)
}

/// `on_release`: the play keys fire when their release is processed (deferred-play family)
fn expand_shape(stored: &BTreeMap<usize, Stored>, id: usize, on_release: bool) -> (Vec<Typed>, FlatStats) {
    let mut typed = vec![];
    let mut ok = true;
    let mut fs = FlatStats::default();
    flatten(stored, id, None, &mut vec![id], &mut typed, &mut ok, 0, &mut fs, on_release);
    (typed, fs)
}

/// deferred-play family: like `ticks_needed` / `replay_bound`, plus the firing delay `lat` of the
/// play keys' shape once per replayed macro and per refused or empty play request
fn ticks_needed_shape(stored: &BTreeMap<usize, Stored>, id: usize, lat: u32) -> u64 {
    let (typed, fs) = expand_shape(stored, id, true);
    let top_tail = stored.get(&id).map(|s| unreleased(&s.evs).len()).unwrap_or(0) as u64;
    let fired = fs.total_instances() as u64 + fs.refusals.len() as u64 + fs.plays_of_nothing as u64 + 1;
    6 * (typed.len() as u64 + top_tail + fs.total_instances() as u64) + fired * (lat as u64 + 8) + 30
}

fn replay_bound_shape(stored: &BTreeMap<usize, Stored>, id: usize, lat: u32) -> u64 {
    let (typed, fs) = expand_shape(stored, id, true);
    let top_tail = stored.get(&id).map(|s| unreleased(&s.evs).len()).unwrap_or(0) as u64;
    let gaps: u64 = typed.iter().map(|t| t.gap as u64).sum();
    let fired = fs.total_instances() as u64 + fs.refusals.len() as u64 + fs.plays_of_nothing as u64 + 1;
    6 * (typed.len() as u64 + top_tail + fs.total_instances() as u64) + gaps + fired * (lat as u64 + 8) + 100
}

/// Upper bound (in 1 ms ticks) for a replay, derived from the recorded lengths only: every replayed
/// event and every nested macro boundary may take the constant pacing (5 ms, one spare), recorded
/// pauses may be waited for in full, plus a fixed slack. An unbounded replay exceeds any such bound.
fn replay_bound(stored: &BTreeMap<usize, Stored>, id: usize) -> u64 {
    let (typed, fs) = expand(stored, id);
    let top_tail = stored.get(&id).map(|s| unreleased(&s.evs).len()).unwrap_or(0) as u64;
    let gaps: u64 = typed.iter().map(|t| t.gap as u64).sum();
    6 * (typed.len() as u64 + top_tail + fs.total_instances() as u64) + gaps + 100
}

/// how often each marker key is pressed in a typed expansion
fn marker_presses(typed: &[Typed]) -> [u32; 3] {
    let mut n = [0u32; 3];
    for t in typed {
        if t.press {
            if let Some(i) = MARKER.iter().position(|m| osc(m) == t.code) {
                n[i] += 1;
            }
        }
    }
    n
}

/// Deferred-play family: the macros among `fs.instances` whose recording ends with the release of a
/// play key (nothing left down) and whose play request, by the harness's bookkeeping, fires only
/// after the finished replay's state has gone: the pause recorded after that release (`recorded`
/// delays; at least 1 ms) or the constant pacing (5 ms) is shorter than the firing delay of the
/// play keys' shape. What happens then is the open finding C19-deferred-play-after-replay-end.
fn late_tail_macros(case: &Case, ids: &[usize]) -> Vec<usize> {
    let shape = case.cfg.play_shape;
    let lat = shape.latency(case.cfg.play_t);
    let mut v = vec![];
    for m in ids {
        let Some(st) = case.stored.get(m) else { continue };
        if !st.tail.is_empty() {
            continue;
        }
        let Some(last) = st.evs.last() else { continue };
        if last.press || is_play_key(last.code).is_none() {
            continue;
        }
        let linger = if case.cfg.recorded_delays { last.gap.max(1) } else { 5 };
        if linger < lat {
            v.push(*m);
        }
    }
    v
}

struct Verdict {
    sig: Option<(String, String)>,
    replay: Vec<IOut>,
    twin: Vec<IOut>,
    typed: Vec<Typed>,
    tail: Vec<u16>,
}

fn render_typed(t: &[Typed]) -> String {
    t.iter().map(|e| format!("{}:{}{}", if e.press { "d" } else { "u" }, code_name(e.code), if e.gap > 0 { format!(" t:{}", e.gap) } else { String::new() })).collect::<Vec<_>>().join(" ")
}

fn multiset(v: &[IOut]) -> Vec<(bool, String)> {
    let mut m: Vec<(bool, String)> = v.iter().map(|o| (o.down, o.name.clone())).collect();
    m.sort();
    m
}

/// run the twin for one candidate cut and compare with the replay outputs
#[allow(clippy::too_many_arguments)]
fn compare(case: &Case, cut: Option<usize>, replay: &[IOut], replay_anchor_len: usize, exact: bool) -> Result<Verdict, String> {
    let mut typed = vec![];
    let mut order_known = true;
    let mut active = vec![case.play_id];
    let mut fs = FlatStats::default();
    flatten(&case.stored, case.play_id, cut, &mut active, &mut typed, &mut order_known, 0, &mut fs, case.cfg.play_shape.on_release());
    let st = case.stored.get(&case.play_id);
    let tail: Vec<u16> = match (st, cut) {
        (Some(s), Some(n)) => unreleased(&s.evs[..n.min(s.evs.len())]),
        (Some(s), None) => s.tail.clone(),
        _ => vec![],
    };
    let mut tw = ISim::new(&case.cfg.text)?;
    tw.run(&case.prefix);
    if tw.outs.len() != replay_anchor_len {
        return Err("twin prefix diverged from the original run (non-determinism)".into());
    }
    let dummy = osc(DUMMY[case.play_id]);
    tw.event(dummy, KeyValue::Press);
    if let Some(d) = &case.deferred {
        // the effect-free key of the same shape is tapped like the play key
        tw.tick(d.tap_gap as u64);
        tw.event(dummy, KeyValue::Release);
        tw.tick(10);
    } else {
        tw.tick(1);
    }
    for (i, e) in typed.iter().enumerate() {
        tw.event(e.code, if e.press { KeyValue::Press } else { KeyValue::Release });
        let g = if exact {
            e.gap
        } else if i + 1 == typed.len() {
            30
        } else {
            e.gap.min(3)
        };
        // deferred play keys: the replay continues 5+ ms after a play key's release (pacing, nested
        // macro boundary); typing on while the twin key's virtual-key tap is still in kanata's event
        // queue is a different history
        let g = if case.deferred.is_some() && !e.press && DUMMY.iter().any(|d| osc(d) == e.code) { g.max(8) } else { g };
        tw.tick(g as u64);
    }
    if !exact {
        tw.tick(30);
    }
    let body_len = tw.outs.len() - replay_anchor_len;
    for c in &tail {
        let c = match is_play_key(*c) {
            Some(x) => osc(DUMMY[x]),
            None => *c,
        };
        tw.event(c, KeyValue::Release);
        tw.tick(1);
    }
    tw.tick(case.wait as u64);
    if case.deferred.is_none() {
        tw.event(dummy, KeyValue::Release);
    }
    tw.tick(case.cfg.max_timeout as u64 + 60);
    for c in &case.held_at_play {
        tw.event(*c, KeyValue::Release);
        tw.tick(1);
    }
    tw.tick(case.cfg.max_timeout as u64 + 60);
    let mut twin: Vec<IOut> = tw.outs[replay_anchor_len..].to_vec();
    // compare
    let mut sig = None;
    let mut body_len = body_len;
    let replay_filtered: Vec<IOut>;
    let mut replay = replay;
    if case.deferred.is_some() {
        // deferred play keys: when the play key's own witness output comes out relative to the
        // replayed events that follow is a matter of a few ms of pacing, so the witness keys are
        // compared by number and taken out of the ordered comparison
        let is_w = |o: &IOut| !o.other && PLAY_WITNESS.iter().any(|w| code_name(osc(w)) == o.name);
        let n_r = replay.iter().filter(|o| is_w(o)).count();
        let n_t = twin.iter().filter(|o| is_w(o)).count();
        // (with a tap-repress timeout a second tap soon after the first holds the tap action from the
        // press on, and the witness presses of two taps can overlap: not counted then)
        if n_r != n_t && case.cfg.play_repress == 0 {
            sig = Some(("C19:replay-differs:keys".to_string(), format!("the play keys' witness outputs occur {n_r} times in the replay and {n_t} times when the recording is typed again")));
        }
        body_len = twin[..body_len.min(twin.len())].iter().filter(|o| !is_w(o)).count();
        twin.retain(|o| !is_w(o));
        replay_filtered = replay.iter().filter(|o| !is_w(o)).cloned().collect();
        replay = &replay_filtered;
    }
    if sig.is_some() {
    } else if !order_known {
        if multiset(replay) != multiset(&twin) {
            sig = Some(("C19:replay-differs:keys".to_string(), "the replay does not press/release the same keys as typing the recording again (nested tail order unknown, compared as a multiset)".to_string()));
        }
    } else {
        let n = body_len.min(replay.len()).min(twin.len());
        for i in 0..n {
            let (r, t) = (&replay[i], &twin[i]);
            if r.down != t.down || r.name != t.name || r.other != t.other {
                sig = Some(("C19:replay-differs:order".to_string(), format!("output #{i} of the replay is {} where typing the recording again gives {}", r.short(), t.short())));
                break;
            }
            if exact && r.it != t.it {
                sig = Some(("C19:replay-differs:timing".to_string(), format!("output #{i} of the replay comes at internal ms {} where typing the recording again gives {}", r.short(), t.short())));
                break;
            }
        }
        if sig.is_none() {
            if replay.len().min(twin.len()) < body_len {
                let (which, missing) = if replay.len() < twin.len() { ("replay", twin[replay.len()].short()) } else { ("typing", replay[twin.len()].short()) };
                sig = Some(("C19:replay-differs:order".to_string(), format!("the {which} run ends early; the other continues with {missing}")));
            } else if multiset(&replay[body_len..]) != multiset(&twin[body_len..]) {
                sig = Some(("C19:replay-differs:tail".to_string(), format!("after the recorded events the replay emits {:?} where releasing the still-held keys gives {:?}", replay[body_len..].iter().map(|o| o.short()).collect::<Vec<_>>(), twin[body_len..].iter().map(|o| o.short()).collect::<Vec<_>>())));
            }
        }
    }
    Ok(Verdict { sig, replay: replay.to_vec(), twin, typed, tail })
}

fn witness(case: &Case, v: Option<&Verdict>, extra: Value) -> Value {
    let mut full = case.prefix.clone();
    full.push(Ev::P(play_code(case.play_id)));
    if let Some(d) = &case.deferred {
        full.push(Ev::T(d.tap_gap));
        full.push(Ev::R(play_code(case.play_id)));
        full.push(Ev::T(case.wait));
    } else {
        full.push(Ev::T(case.wait));
        full.push(Ev::R(play_code(case.play_id)));
    }
    json!({
        "config": case.cfg.text,
        "kind": format!("{:?}", case.kind),
        "notes": case.notes,
        "history": render_hist(&full),
        "played_macro": case.play_id,
        "recorded_portion_typed_by_twin": v.map(|v| render_typed(&v.typed)),
        "keys_still_down_at_stop": v.map(|v| v.tail.iter().map(|c| code_name(*c)).collect::<Vec<_>>()),
        "observed": v.map(|v| v.replay.iter().map(|o| o.short()).collect::<Vec<_>>()),
        "expected": v.map(|v| v.twin.iter().map(|o| o.short()).collect::<Vec<_>>()),
        "extra": extra,
    })
}

impl Check for C19Check {
    fn id(&self) -> &'static str {
        "C19"
    }
    fn n_cases(&self, ctx: &Ctx) -> u64 {
        base_cases(ctx) + graph_cases(ctx) + deferred_cases(ctx)
    }
    fn describe(&self, ctx: &Ctx, idx: u64) -> Value {
        let c = make_case(ctx, idx);
        witness(&c, None, json!(null))
    }
    fn run_case(&self, ctx: &Ctx, idx: u64) -> CaseOut {
        let mut out = CaseOut::new();
        let case = make_case(ctx, idx);
        if ctx.verbose {
            eprintln!("{}\nkind {:?} notes {:?}\nprefix: {}", case.cfg.text, case.kind, case.notes, render_hist(&case.prefix));
            if log::set_logger(&MACRO_LOG).is_ok() {
                log::set_max_level(log::LevelFilter::Info);
            }
        }
        let mut sim = match ISim::new(&case.cfg.text) {
            Ok(s) => s,
            Err(e) => {
                out.inc("configs_rejected");
                if ctx.verbose {
                    eprintln!("rejected: {e}");
                }
                return out;
            }
        };
        out.inc("configs");
        if let Some(d) = &case.deferred {
            // counted here: these cases may end in the open finding's signature before the evidence section
            if d.tail_play[case.play_id] && d.pauses[case.play_id] <= 1 {
                out.inc("deferred_played_macro_stopped_within_1ms_of_final_play_tap");
            }
            if d.shape == PlayShape::TapDance && !case.cfg.recorded_delays && d.tail_play[case.play_id] {
                out.inc("deferred_tap_dance_final_play_tap_with_constant_pacing");
            }
        }
        // deferred-play family: an endless chain of short replays has moments without a replay state,
        // so the last ticks of the prefix (a long wait) are watched one by one
        let mut prefix_watch_saw_replay = false;
        let mut prefix_watch_ep0 = 0;
        match (case.deferred.is_some(), case.prefix.last()) {
            (true, Some(Ev::T(n))) if *n > 400 => {
                sim.run(&case.prefix[..case.prefix.len() - 1]);
                let watch = 60 + 2 * case.cfg.play_t as u64;
                sim.tick(*n as u64 - watch);
                let n0 = sim.outs.len();
                prefix_watch_ep0 = sim.ended_with_pending;
                for _ in 0..watch {
                    sim.tick(1);
                    prefix_watch_saw_replay |= sim.k.dynamic_macro_replay_state.is_some();
                }
                prefix_watch_saw_replay |= sim.outs.len() != n0;
            }
            _ => sim.run(&case.prefix),
        }
        // ---- state observations after the prefix
        if sim.runaway {
            let late_stored = if case.deferred.is_some() { late_tail_macros(&case, &case.stored.keys().copied().collect::<Vec<_>>()) } else { vec![] };
            // (the open finding, see below: replay states kept ending with events still pending)
            let sig = if case.deferred.is_some() && sim.ended_with_pending >= 20 { "C19:recursive-replay:deferred-play-fires-after-replay-state-is-gone" } else { "C19:replay-never-ends" };
            out.violate(sig, format!("a replay started during the recording phase goes on for ever (more than {RUNAWAY_OUTPUTS} outputs)"), witness(&case, None, json!({"macros_whose_final_play_tap_fires_after_the_replay_state_is_gone": late_stored})));
            return out;
        }
        if sim.k.dynamic_macro_record_state.is_some() {
            if case.kind == Kind::Limit {
                out.violate("C19:recording-exceeds-limit", format!("recording still running after typing far beyond dynamic-macro-max-presses {}", case.cfg.max_presses), witness(&case, None, json!({"max_presses": case.cfg.max_presses})));
            } else {
                out.inconclusive = Some("recording still active before the play (harness bookkeeping)".into());
            }
            return out;
        }
        let mut prefix_replay_running = sim.k.dynamic_macro_replay_state.is_some() || sim.runaway;
        let mut late_stored: Vec<usize> = vec![];
        if case.deferred.is_some() {
            prefix_replay_running |= prefix_watch_saw_replay;
            late_stored = late_tail_macros(&case, &case.stored.keys().copied().collect::<Vec<_>>());
        }
        if prefix_replay_running {
            // deferred-play family: a stored macro whose final play tap fires after the replay state has
            // gone and that was played live (the open finding, see `late_tail_macros`)
            let sig = if case.deferred.is_some() && sim.ended_with_pending > prefix_watch_ep0 { "C19:recursive-replay:deferred-play-fires-after-replay-state-is-gone" } else { "C19:replay-never-ends" };
            out.violate(sig, "a replay started during the recording phase is still running after the settle time", witness(&case, None, json!({"macros_whose_final_play_tap_fires_after_the_replay_state_is_gone": late_stored})));
            return out;
        }
        let stored_in_kanata = sim.k.dynamic_macros.get(&(case.play_id as u16)).map(|v| v.len());
        if ctx.verbose {
            for (id, items) in sim.k.dynamic_macros.iter() {
                eprintln!("  stored by kanata: macro {id}: {items:?}");
            }
            for (id, st) in case.stored.iter() {
                eprintln!("  harness bookkeeping: macro {id}: {}", st.evs.iter().map(|e| format!("{}{}+{}", if e.press { "P" } else { "R" }, code_name(e.code), e.gap)).collect::<Vec<_>>().join(" "));
            }
        }
        let anchor = sim.outs.len();
        let it0 = sim.it;
        // ---- the model's expansion of the judged play (harness bookkeeping only)
        let on_release = case.cfg.play_shape.on_release();
        let lat = case.cfg.play_t;
        let (model_typed, model_fs) = expand_shape(&case.stored, case.play_id, on_release);
        let bound_of = |id: usize| if on_release { replay_bound_shape(&case.stored, id, lat) } else { replay_bound(&case.stored, id) };
        let mut bound = bound_of(case.play_id);
        let mut allowed_markers = marker_presses(&model_typed);
        let pc = play_code(case.play_id);
        let mut interrupt = case.graph.as_ref().and_then(|g| g.interrupt);
        // deferred-play family: macros replayed in this case whose recording ends with a play tap that
        // fires only after the finished replay's state has gone (see `late_tail_macros`)
        let mut late: Vec<usize> = vec![];
        let mut probe_offset = None;
        if let Some(d) = &case.deferred {
            late = late_tail_macros(&case, &model_fs.instances.keys().copied().collect::<Vec<_>>());
            if let Some((k, z)) = d.end_probe {
                // measure the end of the judged replay in a run of its own, then aim at it
                let mut m = match ISim::new(&case.cfg.text) {
                    Ok(m) => m,
                    Err(e) => {
                        out.inconclusive = Some(e);
                        return out;
                    }
                };
                m.run(&case.prefix);
                m.event(pc, KeyValue::Press);
                m.tick(d.tap_gap as u64);
                m.event(pc, KeyValue::Release);
                let mut seen = false;
                let mut end = None;
                for t in 0..case.wait {
                    m.tick(1);
                    let running = m.k.dynamic_macro_replay_state.is_some();
                    seen |= running;
                    if seen && !running {
                        end = Some(t + 1);
                        break;
                    }
                }
                if let Some(e) = end {
                    interrupt = Some((e.saturating_sub(k), z));
                    probe_offset = Some(k);
                }
            }
            if !late.is_empty() {
                out.inc("deferred_final_play_tap_fires_after_replay_state_is_gone");
            }
        }
        if let Some((_, z)) = interrupt {
            // a play key tapped physically while the replay runs is nested into it wherever the replay
            // happens to be (or starts a replay of its own afterwards); it is refused if that macro is
            // being replayed. Either way no more than one further expansion of it may be replayed.
            let (zt, zfs) = expand_shape(&case.stored, z, on_release);
            let zm = marker_presses(&zt);
            for i in 0..3 {
                allowed_markers[i] += zm[i];
            }
            bound += bound_of(z);
            if case.deferred.is_some() {
                for m in late_tail_macros(&case, &zfs.instances.keys().copied().collect::<Vec<_>>()) {
                    if !late.contains(&m) {
                        late.push(m);
                    }
                }
            }
        }
        // ---- play
        let ep0 = sim.ended_with_pending;
        sim.max_queue = 0;
        sim.event(pc, KeyValue::Press);
        if let Some(d) = &case.deferred {
            // the play key is tapped: its shape fires at or after the release
            sim.tick(d.tap_gap as u64);
            sim.event(pc, KeyValue::Release);
        }
        let mut ended_after = None;
        let mut interrupted_running = false;
        // a plain play key starts the replay within the first tick; a deferred one some time after the release
        let mut seen_running = case.deferred.is_none();
        let fire_lag = if case.deferred.is_some() { 6 + lat } else { 0 };
        for t in 0..case.wait {
            if let Some((at, z)) = interrupt {
                if t == at {
                    interrupted_running = sim.k.dynamic_macro_replay_state.is_some();
                    sim.event(play_code(z), KeyValue::Press);
                    ended_after = None;
                } else if t == at + 3 {
                    sim.event(play_code(z), KeyValue::Release);
                }
            }
            sim.tick(1);
            let running = sim.k.dynamic_macro_replay_state.is_some();
            seen_running |= running;
            if ended_after.is_none() && !running && seen_running && interrupt.map(|(at, _)| t > at + fire_lag).unwrap_or(true) {
                ended_after = Some(t + 1);
            }
        }
        let still_replaying = sim.k.dynamic_macro_replay_state.is_some() || sim.runaway;
        // the play key is still held: its own witness key is legitimately down
        let own_witness = code_name(osc(PLAY_WITNESS[case.play_id]));
        let down_after_replay: Vec<String> = sim.down.iter().filter(|k| **k != own_witness).cloned().collect();
        if case.deferred.is_none() {
            sim.event(pc, KeyValue::Release);
        }
        sim.tick(case.cfg.max_timeout as u64 + 60);
        for c in &case.held_at_play {
            sim.event(*c, KeyValue::Release);
            sim.tick(1);
        }
        sim.tick(case.cfg.max_timeout as u64 + 60);
        let replay: Vec<IOut> = sim.outs[anchor..].to_vec();
        out.count("internal_ms_run_inside_replays", sim.it.saturating_sub(it0));
        // ---- play graph: no macro is replayed more often than the graph without its recursive edges allows
        let mut observed_markers = [0u32; 3];
        // Open finding on the unchanged tree (findings/C19-deferred-play-after-replay-end.md): the guard
        // lives in the replay state, which ends when the last item has been handed to kanata's event
        // queue, not when that event and what it triggers have been processed. Observed precondition,
        // form 1: during the judged replay a replay state ended while the event queue still held events
        // or a tap-hold / tap-dance decision was pending. Form 2: a play key was tapped physically during
        // the replay and the event queue grew to 3 or more events (replayed events are processed two
        // or more ticks after they were handed over: a nested macro's end marker or the end of the
        // replay state can overtake them). Every other over-replay keeps its own signature.
        let late_sig = "C19:recursive-replay:deferred-play-fires-after-replay-state-is-gone";
        let held_back_sig = "C19:recursive-replay:play-key-pressed-during-replay:replayed-events-held-back-in-event-queue";
        let ended_with_pending = sim.ended_with_pending > ep0;
        let held_back = interrupt.is_some() && sim.max_queue >= 3;
        if case.graph.is_some() {
            for (i, m) in MARKER_OUT.iter().enumerate() {
                let name = code_name(osc(m));
                observed_markers[i] = replay.iter().filter(|o| o.down && !o.other && o.name == name).count() as u32;
            }
            let over: Vec<usize> = (0..3).filter(|i| observed_markers[*i] > allowed_markers[*i]).collect();
            if !over.is_empty() {

                // structural class: the refused (recursive) edge of the model that leads into an over-replayed macro
                let mut classes: Vec<Refusal> = model_fs.refusals.iter().filter(|(_, m)| over.contains(m)).map(|(c, _)| *c).collect();
                classes.sort();
                let suffix = if case.deferred.is_some() { ":deferred-play-key" } else { "" };
                let sig = match (classes.first(), interrupt) {
                    _ if ended_with_pending => late_sig.to_string(),
                    _ if held_back => held_back_sig.to_string(),
                    (_, Some((_, z))) => {
                        // the physically pressed play key is nested wherever the replay happens to be:
                        // class by whether either expansion has a recursive edge at all
                        let (_, zfs) = expand_shape(&case.stored, z, on_release);
                        if model_fs.refusals.is_empty() && zfs.refusals.is_empty() {
                            format!("C19:macro-replayed-too-often:no-recursive-edge{suffix}")
                        } else {
                            format!("C19:recursive-replay:play-key-pressed-during-replay{suffix}")
                        }
                    }
                    (Some(c), None) => format!("C19:recursive-replay:{}{suffix}", c.name()),
                    (None, None) => format!("C19:macro-replayed-too-often:no-recursive-edge{suffix}"),
                };
                let m = over[0];
                out.violate(
                    sig,
                    format!(
                        "macro {m} is replayed {} times where its play graph without the recursive edges allows {} (marker presses per macro observed {:?}, allowed {:?}; replay {})",
                        observed_markers[m],
                        allowed_markers[m],
                        observed_markers,
                        allowed_markers,
                        if still_replaying { "still running at the end of the wait".to_string() } else { format!("ended after {:?} ticks", ended_after) }
                    ),
                    witness(&case, None, json!({"outputs_so_far": replay.len(), "first_outputs": replay.iter().take(60).map(|o| o.short()).collect::<Vec<_>>(), "model_expansion": render_typed(&model_typed), "refused_in_model": model_fs.refusals.iter().map(|(c, m)| format!("{}:{m}", c.name())).collect::<Vec<_>>(), "bound_ticks": bound, "interrupt": interrupt, "macros_whose_final_play_tap_fires_after_the_replay_state_is_gone": late, "replay_state_ended_with_events_pending": ended_with_pending, "longest_event_queue": sim.max_queue})),
                );
                return out;
            }
        }
        if still_replaying {
            out.violate(if ended_with_pending { late_sig } else { "C19:replay-never-ends" }, format!("the replay is still running {} ticks after the play key (bound derived from the recorded lengths: {bound})", case.wait), witness(&case, None, json!({"outputs_so_far": replay.len(), "bound_ticks": bound})));
            return out;
        }
        if let Some(e) = ended_after {
            if e as u64 > bound {
                out.violate(if ended_with_pending { late_sig } else { "C19:replay-exceeds-bound" }, format!("the replay took {e} ticks; the recorded lengths bound it by {bound}"), witness(&case, None, json!({"outputs_so_far": replay.len(), "bound_ticks": bound, "interrupt": interrupt})));
                return out;
            }
            out.inc("replays_ended_within_bound");
        }
        if case.graph.is_some() && interrupt.is_none() && late.is_empty() && !ended_with_pending {
            if let Some(m) = (0..3).find(|i| observed_markers[*i] < allowed_markers[*i]) {
                out.violate(
                    "C19:nested-play-missing",
                    format!("macro {m} is replayed {} times where the play graph demands {} (observed {:?}, expected {:?})", observed_markers[m], allowed_markers[m], observed_markers, allowed_markers),
                    witness(&case, None, json!({"first_outputs": replay.iter().take(60).map(|o| o.short()).collect::<Vec<_>>(), "model_expansion": render_typed(&model_typed)})),
                );
                return out;
            }
        }
        // ---- relational comparison with the twin(s)
        let exact = case.cfg.time_sensitive && case.cfg.recorded_delays;
        let st = case.stored.get(&case.play_id);
        // time-sensitive: the order in which several left-over keys are released is arbitrary and can
        // legitimately change what pending decisions resolve to
        let ambiguous_tail = case.cfg.time_sensitive && st.map(|s| s.tail.len() > 1).unwrap_or(false);
        if ambiguous_tail {
            out.inc("time_sensitive_with_several_keys_down_at_stop");
        }
        // deferred-play family: where a tap-dance's play request lands among the following events is a
        // matter of timing, and so is everything once a play request fires after the replay state has gone
        let deferred_ok = case.deferred.as_ref().map(|d| d.shape != PlayShape::TapDance && late.is_empty() && !ended_with_pending && !model_fs.unpaired_play_release).unwrap_or(true);
        let judge_relational = (!case.cfg.time_sensitive || case.cfg.recorded_delays) && !ambiguous_tail && interrupt.is_none() && deferred_ok;
        let mut verdict: Option<Verdict> = None;
        let mut limit_cut = None;
        if judge_relational {
            let cuts: Vec<Option<usize>> = match st {
                Some(s) if s.by_limit => {
                    let m = 2 * case.cfg.max_presses as usize;
                    (m..=m + 3).map(Some).collect()
                }
                _ => vec![None],
            };
            for cut in cuts {
                match compare(&case, cut, &replay, anchor, exact) {
                    Ok(v) => {
                        let ok = v.sig.is_none();
                        if ok {
                            limit_cut = cut;
                        }
                        let better = verdict.is_none() || ok;
                        if better {
                            verdict = Some(v);
                        }
                        if ok {
                            break;
                        }
                    }
                    Err(e) => {
                        out.inconclusive = Some(e);
                        return out;
                    }
                }
            }
        }
        let rec_len = st.map(|s| s.evs.len()).unwrap_or(0);
        if case.kind == Kind::LateStop {
            out.inc("late_stop_cases");
        }
        if let Some(v) = &verdict {
            if let Some((sig, what)) = &v.sig {
                let (sig, what) = if st.map(|s| s.by_limit).unwrap_or(false) {
                    ("C19:limit-cut-not-a-prefix".to_string(), format!("limit {}: the replay is not what typing the first 2*limit..2*limit+3 recorded events gives ({what})", case.cfg.max_presses))
                } else {
                    // a control key's witness output in the replay means the stop key / truncated tail was replayed
                    let ctl = v.replay.iter().filter(|o| o.name == "F15" || o.name == "F16").count() != v.twin.iter().filter(|o| o.name == "F15" || o.name == "F16").count();
                    let s = match (ctl, case.kind) {
                        (true, Kind::LateStop) => "C19:stop-key-replayed:stop-processed-after-later-events".to_string(),
                        (true, _) => "C19:stop-key-replayed".to_string(),
                        _ => sig.clone(),
                    };
                    (s, what.clone())
                };
                out.violate(sig, what, witness(&case, Some(v), json!({"delay_behaviour": if case.cfg.recorded_delays { "recorded" } else { "constant" }, "items_stored_by_kanata": stored_in_kanata, "limit_cut": limit_cut})));
                return out;
            }
            out.inc(if exact { "replays_equal_with_timing" } else { "replays_equal_in_order" });
            out.count("replayed_outputs_compared", v.replay.len() as u64);
            if !v.tail.is_empty() {
                out.inc("replays_with_keys_down_at_stop");
            }
        } else {
            out.inc("replays_judged_by_invariants_only");
        }
        // ---- invariants
        if !down_after_replay.is_empty() && case.held_at_play.is_empty() {
            out.violate("C19:key-down-after-replay", format!("{} down after the replay ended (play key still held, nothing else)", down_after_replay.join(",")), witness(&case, verdict.as_ref(), json!({"replay_ended_after": ended_after})));
            return out;
        }
        if !sim.down.is_empty() {
            out.violate("C19:key-down-after-replay", format!("{} down after the replay and after every physical key was released", sim.down.iter().cloned().collect::<Vec<_>>().join(",")), witness(&case, verdict.as_ref(), json!({"replay_ended_after": ended_after})));
            return out;
        }
        // ---- evidence
        out.max("outputs_in_one_run", sim.outs.len() as u64);
        out.max("internal_ms_in_one_run", sim.it);
        out.inc(&format!("kind_{:?}", case.kind));
        out.inc(if case.cfg.recorded_delays { "delay_recorded" } else { "delay_constant" });
        out.max("recorded_events", rec_len as u64);
        if rec_len > 0 {
            out.inc("nonempty_recordings");
        }
        if !replay.is_empty() {
            out.inc("replays_with_output");
        }
        for n in &case.notes {
            if n.contains("truncate") {
                out.inc("stops_with_truncation");
            } else if n.contains("pressed again") {
                out.inc("stops_by_record_again");
            } else if n.contains("stopped by record key") {
                out.inc("stops_by_other_record_key");
            } else if n.ends_with(": stop") {
                out.inc("stops_by_stop_key");
            } else if n.starts_with("nested") {
                out.inc("nested_cases");
            }
        }
        if case.kind == Kind::Limit {
            out.inc("limit_hits");
            if let Some(Some(c)) = Some(limit_cut) {
                out.inc(&format!("limit_cut_at_2m_plus_{}", c - 2 * case.cfg.max_presses as usize));
            }
        }
        if case.kind == Kind::Nested {
            let (_, fs) = expand(&case.stored, case.play_id);
            out.max("nested_depth", fs.max_depth as u64);
            let self_refused = case.stored.get(&case.play_id).map(|s| s.evs.iter().any(|e| e.press && is_play_key(e.code) == Some(case.play_id))).unwrap_or(false);
            if self_refused {
                out.inc("self_play_inside_own_recording");
            }
        }
        if let (Some(g), Some(d)) = (&case.graph, &case.deferred) {
            out.inc("deferred_cases");
            out.inc(match d.shape {
                PlayShape::TapHold => "deferred_shape_tap_hold_tap",
                PlayShape::Vkey => "deferred_shape_on_release_vkey",
                PlayShape::TapDance => "deferred_shape_tap_dance",
                PlayShape::Plain => "deferred_shape_plain",
            });
            out.count("deferred_marker_counts_checked", 3);
            out.count("deferred_nested_instances_counted", (model_fs.total_instances().saturating_sub(1)) as u64);
            // a recording that ends with a play tap, as stored (harness bookkeeping)
            let ends_with_play = |m: usize| case.stored.get(&m).map(|s| s.tail.is_empty() && s.evs.last().map(|e| !e.press && is_play_key(e.code).is_some()).unwrap_or(false)).unwrap_or(false);
            out.count("deferred_recordings_ending_with_a_play_tap", (0..3).filter(|m| ends_with_play(*m)).count() as u64);
            let top_tail_empty = st.map(|s| s.tail.is_empty()).unwrap_or(true);
            if ends_with_play(case.play_id) {
                out.inc("deferred_played_macro_ends_with_a_play_tap");
                out.inc(&format!("deferred_pause_after_final_play_tap_{}", match d.pauses[case.play_id] {
                    0..=1 => "1ms",
                    2..=3 => "2_3ms",
                    4..=12 => "8_12ms",
                    _ => "long",
                }));
                // the very last event of the whole replay fires a play request: it arrives after the last item
                let at_end: Vec<Refusal> = model_fs.refusals.iter().zip(model_fs.refusal_at.iter()).filter(|(_, at)| **at == model_typed.len()).map(|((c, _), _)| *c).collect();
                if top_tail_empty && !at_end.is_empty() {
                    out.inc("deferred_refused_play_request_after_last_replayed_event");
                    if at_end.contains(&Refusal::SelfAtTop) {
                        out.inc("deferred_refused_after_last_event_self");
                    }
                    if at_end.iter().any(|c| *c != Refusal::SelfAtTop) {
                        out.inc("deferred_refused_after_last_event_through_nested_macro");
                    }
                } else if top_tail_empty {
                    out.inc("deferred_accepted_play_request_after_last_replayed_event");
                }
            }
            if interrupt.is_some() {
                out.inc("deferred_physical_play_around_end_of_replay");
                if interrupted_running {
                    out.inc("deferred_physical_play_while_replay_running");
                    if probe_offset.map(|k| k <= 6).unwrap_or(false) {
                        out.inc("deferred_physical_play_within_6_ticks_of_end_while_running");
                    }
                } else {
                    out.inc("deferred_physical_play_after_replay_ended");
                }
            } else if verdict.is_some() {
                out.inc("deferred_replays_equal_to_expansion");
            } else if late.is_empty() {
                out.inc("deferred_replays_judged_by_counts");
            }
            let mut classes: Vec<Refusal> = model_fs.refusals.iter().map(|(c, _)| *c).collect();
            classes.sort();
            classes.dedup();
            for c in &classes {
                out.inc(match c {
                    Refusal::SelfNested => "deferred_refused_self_nested",
                    Refusal::BackToNestedAncestor => "deferred_refused_back_to_nested_ancestor",
                    Refusal::SelfAtTop => "deferred_refused_self_at_top",
                    Refusal::BackToTop => "deferred_refused_back_to_top",
                });
            }
            out.max("deferred_nested_depth", model_fs.max_depth as u64);
            out.tag(format!(
                "Deferred|{}|{}|adj{:?}|top{}|tail{:?}|pause{:?}|probe{:?}|{}|d{}|n{}",
                d.shape.name(),
                if case.cfg.recorded_delays { "rec" } else { "const" },
                g.adj,
                g.top,
                d.tail_play,
                d.pauses.map(|p| p.min(40)),
                d.end_probe.map(|(k, z)| (k / 4, z)),
                classes.iter().map(|c| c.name()).collect::<Vec<_>>().join(","),
                model_fs.max_depth,
                model_fs.total_instances()
            ));
        }
        if let (Some(g), None) = (&case.graph, &case.deferred) {
            out.inc("graph_cases");
            if g.clean {
                out.inc("graph_cases_realised_exactly");
            }
            // the graph as realised in the stored recordings (truncation may have removed taps)
            let edge = |i: usize, j: usize| case.stored.get(&i).map(|s| s.evs.iter().any(|e| e.press && is_play_key(e.code) == Some(j))).unwrap_or(false) && case.stored.contains_key(&j);
            let n_edges = (0..3).flat_map(|i| (0..3).map(move |j| (i, j))).filter(|(i, j)| edge(*i, *j)).count();
            out.inc(&format!("graph_realised_edges_{n_edges}"));
            out.max("graph_macro_instances_in_one_replay", model_fs.total_instances() as u64);
            out.max("graph_nested_depth", model_fs.max_depth as u64);
            out.count("graph_nested_instances_counted", (model_fs.total_instances().saturating_sub(1)) as u64);
            out.count("graph_marker_counts_checked", 3);
            let mut classes: Vec<Refusal> = model_fs.refusals.iter().map(|(c, _)| *c).collect();
            classes.sort();
            classes.dedup();
            for c in &classes {
                out.inc(match c {
                    Refusal::SelfNested => "graph_refused_self_nested",
                    Refusal::BackToNestedAncestor => "graph_refused_back_to_nested_ancestor",
                    Refusal::SelfAtTop => "graph_refused_self_at_top",
                    Refusal::BackToTop => "graph_refused_back_to_top",
                });
            }
            if classes.is_empty() && model_fs.max_depth > 0 {
                out.inc("graph_acyclic_nested");
            }
            let t = g.top;
            let (a, b_) = ((t + 1) % 3, (t + 2) % 3);
            if (edge(t, a) && edge(a, b_) && edge(b_, t)) || (edge(t, b_) && edge(b_, a) && edge(a, t)) {
                out.inc("graph_three_cycle_through_top");
            }
            if (edge(t, a) || edge(t, b_)) && edge(a, b_) && edge(b_, a) {
                out.inc("graph_two_cycle_below_top");
            }
            if model_fs.plays_of_nothing > 0 {
                out.inc("graph_plays_of_unrecorded_macro");
            }
            if interrupt.is_some() {
                out.inc("graph_physical_play_during_replay");
                if interrupted_running {
                    out.inc("graph_physical_play_while_replay_running");
                    if (0..3).any(|i| observed_markers[i] > marker_presses(&model_typed)[i]) {
                        out.inc("graph_physical_play_nested_into_running_replay");
                    }
                }
            } else if verdict.is_some() {
                out.inc("graph_replays_equal_to_expansion");
            }
            out.tag(format!(
                "Graph|{}|adj{:?}|top{}|int{}|{}|d{}|n{}",
                if case.cfg.recorded_delays { "rec" } else { "const" },
                g.adj,
                g.top,
                g.interrupt.map(|(_, z)| z as i32).unwrap_or(-1),
                classes.iter().map(|c| c.name()).collect::<Vec<_>>().join(","),
                model_fs.max_depth,
                model_fs.total_instances()
            ));
        }
        if case.graph.is_none() {
            out.tag(format!(
                "{:?}|{}|{}|{}|len{}|tail{}|{:?}",
                case.kind,
                if case.cfg.recorded_delays { "rec" } else { "const" },
                case.cfg.shapes.iter().copied().collect::<Vec<_>>().join(","),
                case.notes.join(";"),
                rec_len.min(30),
                st.map(|s| s.tail.len()).unwrap_or(0),
                ended_after.map(|e| e / 16)
            ));
        }
        if idx % 1500 < 6 || (case.graph.is_some() && idx % 400 == 7) {
            out.sample = Some(witness(&case, verdict.as_ref(), json!({"replay_ended_after_ticks": ended_after})));
        }
        out
    }
    fn rule(&self) -> String {
        "case = one configuration (5 typing keys with plain / output-chord / multi / modifier actions on two layers, a layer-while-held key, 3 record keys, 3 play keys, stop and two stop-truncate keys, optionally each control key also outputs a witness key; 1/3 of the cases add tap-hold (3 variants), one-shot and tap-dance keys; both replay-delay behaviours) and one history that records macros and finally plays one: basic (keys held across start and stop, stop by stop key / truncation 1-9 / record key again / another record key), re-record, nested (B plays A, self-play, mutual, twice+self, A re-recorded later), size limit 0-5 exceeded, keys or the layer key physically held while playing, time-sensitive. The replay's OS stream after the play key is compared with a twin run with the identical prefix that types the recorded portion again (harness bookkeeping; nested plays expanded in place, a macro never inside itself; keys still down at stop released at the end and compared as a multiset): time-insensitive configs by order, time-sensitive configs with `recorded` delays by order and kanata-internal millisecond (gaps >= 1 ms in the recorded section), time-sensitive with `constant` only by the invariants. Invariants always: the replay ends within the wait time, nothing is down when it has ended, nothing down after everything is released, the recording has stopped by itself after the limit was exceeded and the replay equals typing the first 2*limit..2*limit+3 events. Every replay (all families) must end within a bound derived from the recorded lengths only: 6 ticks per event and per macro boundary of the model's expansion + the recorded pauses + 100. Play-graph family (enumerated completely in both tiers: 512 graphs 'recording of macro i contains a tap of play key j' over the 3 macros x 3 top-level plays x {constant, recorded}, realised exactly; plus 2 (quick) / 22 (thorough) seeded variants per graph and top with a macro never recorded, truncating stops, repeated taps and a second play key tapped physically during the judged replay): every recording starts with a tap of the macro's own marker key (f19/f20/f21, produced by nothing else); the number of marker presses in the replay must equal the number of times the macro occurs in the expansion of the play graph without its recursive edges (a play key of a macro that is being replayed - the played one or a nested one - is refused: self edge at the top, self edge in a nested macro, back edge to the top, back edge to a nested ancestor); with a physical play key during the replay: at most the expansion of the judged play plus one expansion of the other macro, termination within the sum of both bounds, nothing left down. Deferred-play family (512 graphs x 3 top-level plays x 8 (quick) / 48 (thorough) variants; variant mod 8: tap-hold tap constant/recorded, on-release virtual key constant/recorded, tap-dance constant/recorded, two seeded disturbed ones): play keys and their effect-free twins fire on release (tap-hold tap, tap-repress timeout 0 in 3/4 of the configs), two ticks after the release (`on-release tap-vkey`) or after a timeout (tap-dance 20/30/50 ms; only the played macro contains a tap then); play keys are tapped 9+ ms after the previous event with nothing in between, replays they start live are waited for; 2/3 of the recordings end with their last play tap (typing keys released before it) and are stopped 1 (on-release shape, played macro, recorded last) / 2 / 3 / 8 / 34 ms (tap-hold: 9 / 12 / 34; tap-dance: timeout + 15) after it, plus the time a live replay takes. The model nests a deferred play where the play key's release stands; marker counts must equal the model's (refused: the macro is still being replayed, including requests that arrive after the last replayed event of the played macro or of a nested one), the replay must end within the bound (+ the firing delay per request), and for tap-hold / on-release shapes the OS stream must equal the twin's, the play keys' witness outputs compared by number only. Disturbed variants: a play key tapped physically 0..12 ticks before the end of the judged replay as measured in a run without it (upper bounds, as above); the played macro stopped 1 ms after its final play tap. Non-trivial = a replay that produced output; distinct = (kind, delay behaviour, action shapes, stop modes, recorded length, tail size, replay duration class), play graphs: (delay, graph, top, physical play, refusal classes, depth, instances); deferred: (shape, delay, graph, top, which recordings end with a play tap, pauses, probe offset class, refusal classes, depth, instances).".into()
    }
    fn assumptions(&self) -> Vec<String> {
        vec![
            "control keys (record/stop/play) are pressed when no tap-hold/tap-dance decision is pending and at least 2 ms pass before the next event, so 'between start and stop' is unambiguous".into(),
            "time-sensitive configurations: exact timing is only judged with `recorded` delays, recorded gaps >= 1 ms, no nested plays, and a full settle before the stop when keys are still held (the moment the left-over releases are sent is not specified); with `constant` delays only the invariants are judged".into(),
            "the exact cut at dynamic-macro-max-presses is implementation-defined: any prefix of 2*limit .. 2*limit+3 events is accepted".into(),
            "no recording is active while the judged play runs; macros with cancel-on-press are not in these configurations".into(),
            "play graphs: 'a macro never replays itself recursively' is read as: a play key met while that macro is being replayed (as the played macro or nested anywhere on the current chain) replays nothing, and the same macro may be replayed again once its nested replay is over (X containing two taps of play Y replays Y twice); time-insensitive configurations only".into(),
            "play graphs: where a play key tapped physically during a replay takes effect inside the running replay is not specified, so those cases are judged by upper bounds only (marker counts <= judged expansion + one expansion of the other macro, termination within the sum of both bounds, nothing down afterwards), not by the relational comparison".into(),
            "deferred play keys: a play key that fires on release (or later) nests the played macro where its release stands; the request counts as made by the macro whose recording contains the tap, so it is refused while that macro or the played one is being replayed - also when the tap is the very last recorded event (the guide: 'dynamic macros cannot recurse'). Play keys are tapped (never held into a stop, never overlapped with typing), 9+ ms after the previous event, and a replay they start live is over before the next event or the stop: replayed tap-hold taps and virtual-key taps share kanata's event queue with what is typed meanwhile and would delay the stop key (assumption 1)".into(),
            "deferred play keys: tap-dance play keys are judged by marker counts, termination and the invariants only (where the request lands among later events depends on the pacing), and only the played macro contains one; the play keys' own witness outputs are compared by number, not by position (with a tap-repress timeout not at all: two quick taps overlap)".into(),
            "deferred play keys: the under-count clause and the relational comparison are not applied when the harness's bookkeeping says the final play tap fires after the replay state has gone (pause recorded behind it, or 5 ms constant pacing, shorter than the shape's firing delay) or when a replay state was seen to end with events still pending - what is replayed then depends on timing; over-replay, termination and 'nothing left down' are always judged. Over-replays in runs where a replay state ended with events pending in kanata's event queue (or, with a physical play tap, the queue reached 3 events) are the open finding's two signatures; every other over-replay is live".into(),
            "the termination bound is an upper bound written from the documentation (constant pacing of a few ms per event, or the recorded pauses), deliberately loose: 6 ticks per replayed event and macro boundary + all recorded pauses + 100".into(),
        ]
    }
    fn floors(&self, ctx: &Ctx) -> Vec<(&'static str, u64)> {
        let s = ctx.tier.sel(1, 15);
        // play-graph family: 2 exact + 2 disturbed variants per graph and top in quick, 2 + 22 in thorough
        let g = |q: u64, t: u64| ctx.tier.sel(q, t);
        vec![
            ("replays_equal_in_order", 12_000 * s),
            ("replays_equal_with_timing", 3_000 * s),
            ("replays_with_output", 15_000 * s),
            ("replays_with_keys_down_at_stop", 8_000 * s),
            ("stops_with_truncation", 3_000 * s),
            ("stops_by_record_again", 2_500 * s),
            ("stops_by_other_record_key", 3_000 * s),
            ("nested_cases", 2_500 * s),
            ("self_play_inside_own_recording", 1_000 * s),
            ("limit_hits", 1_500 * s),
            ("delay_constant", 6_000 * s),
            ("delay_recorded", 9_000 * s),
            ("late_stop_cases", 150 * s),
            ("replays_ended_within_bound", ctx.tier.sel(35_000, 620_000)),
            ("graph_cases", g(6_000, 36_000)),
            ("graph_cases_realised_exactly", 3_000),
            ("graph_replays_equal_to_expansion", g(4_000, 17_000)),
            ("graph_marker_counts_checked", g(18_000, 108_000)),
            ("graph_nested_instances_counted", g(8_000, 45_000)),
            ("graph_refused_self_at_top", g(2_000, 13_000)),
            ("graph_refused_self_nested", g(2_000, 11_000)),
            ("graph_refused_back_to_top", g(2_000, 11_000)),
            ("graph_refused_back_to_nested_ancestor", g(600, 3_500)),
            ("graph_two_cycle_below_top", g(600, 3_500)),
            ("graph_three_cycle_through_top", g(800, 4_500)),
            ("graph_acyclic_nested", g(150, 1_200)),
            ("graph_physical_play_nested_into_running_replay", g(300, 4_000)),
            ("graph_plays_of_unrecorded_macro", g(250, 3_000)),
            // deferred-play family (8 variants per graph and top in quick, 48 in thorough)
            ("deferred_cases", g(9_000, 54_000)),
            ("deferred_shape_tap_hold_tap", g(3_500, 21_000)),
            ("deferred_shape_on_release_vkey", g(3_200, 19_000)),
            ("deferred_shape_tap_dance", g(2_000, 12_000)),
            ("deferred_marker_counts_checked", g(27_000, 160_000)),
            ("deferred_nested_instances_counted", g(15_000, 90_000)),
            ("deferred_replays_equal_to_expansion", g(5_000, 30_000)),
            ("deferred_recordings_ending_with_a_play_tap", g(14_000, 84_000)),
            ("deferred_played_macro_ends_with_a_play_tap", g(5_500, 33_000)),
            // the play request arrives after the last replayed event ...
            ("deferred_refused_play_request_after_last_replayed_event", g(3_000, 18_000)),
            ("deferred_refused_after_last_event_self", g(1_500, 9_000)),
            ("deferred_refused_after_last_event_through_nested_macro", g(1_300, 8_000)),
            ("deferred_accepted_play_request_after_last_replayed_event", g(2_500, 15_000)),
            // ... with short and long pauses recorded behind it
            ("deferred_pause_after_final_play_tap_2_3ms", g(500, 3_000)),
            ("deferred_pause_after_final_play_tap_8_12ms", g(1_100, 6_500)),
            ("deferred_pause_after_final_play_tap_long", g(3_500, 21_000)),
            ("deferred_played_macro_stopped_within_1ms_of_final_play_tap", g(200, 1_200)),
            ("deferred_tap_dance_final_play_tap_with_constant_pacing", g(1_000, 6_000)),
            ("deferred_final_play_tap_fires_after_replay_state_is_gone", g(1_200, 7_000)),
            ("deferred_refused_self_at_top", g(3_500, 21_000)),
            ("deferred_refused_self_nested", g(3_200, 19_000)),
            ("deferred_refused_back_to_top", g(3_200, 19_000)),
            ("deferred_refused_back_to_nested_ancestor", g(1_100, 6_500)),
            ("deferred_physical_play_around_end_of_replay", g(1_400, 8_400)),
            ("deferred_physical_play_within_6_ticks_of_end_while_running", g(600, 3_600)),
            ("deferred_physical_play_after_replay_ended", g(150, 900)),
        ]
    }
}
