//! C19 — not implemented yet (stub so that the registry compiles).

use crate::core::{CaseOut, Check, Ctx};

pub struct C19Check;
pub static C19: C19Check = C19Check;

impl Check for C19Check {
    fn id(&self) -> &'static str {
        "C19"
    }
    fn n_cases(&self, _ctx: &Ctx) -> u64 {
        0
    }
    fn run_case(&self, _ctx: &Ctx, _idx: u64) -> CaseOut {
        CaseOut::new()
    }
    fn rule(&self) -> String {
        "not implemented".into()
    }
    fn assumptions(&self) -> Vec<String> {
        vec![]
    }
}
