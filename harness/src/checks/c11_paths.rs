//! C11 parts 5 and 6.
//!
//! (5) "The reserved no-op codes are never sent to the OS" on EVERY output path, not only on a
//!     plain press/repeat/release: a family of small configurations in which a key K is typed
//!     through sequences (three input modes; completed, cancelled by an invalid key, cancelled by
//!     the timeout, cancelled by K itself, K held over the cancel, shifted K, leader in a macro),
//!     macros (four kinds), dynamic macro replay, zippychord (as bystander input and as mapped
//!     output character), unmod/unshift, overrides, one-shot, chords v1/v2, tap-hold, tap-dance,
//!     fork/switch/multi, modifier prefixes, rpt/rpt-any, virtual keys (actions and direct
//!     operations), caps-word and held/switched layers. Every scenario is run with K = nop0..nop9
//!     and with K = f24 (control: proves that the path really writes the typed key).
//! (6) the defsrc layer is the identity under every combination of the defcfg options that touch
//!     layer resolution: a key mapped to `use-defsrc` (deflayer entry, deflayermap explicit input,
//!     `_`, `__`, `___`) or left transparent above identity, on a held / switched / held-over-
//!     switched layer or on the first layer itself, emits the key itself whatever the first layer
//!     maps the position to.

use super::{expected_identity, kc_of, pinned_keycode_names, Exp};
use crate::core::rng::Rng;
use crate::core::sim::{osc, render_hist, Ev, FileMap, OutKind, Sim};
use crate::core::{CaseOut, Ctx};
use kanata_keyberon::action::Action;
use serde_json::{json, Value};

// ------------------------------------------------------------------ history notation

/// `d:a u:a r:a t:10 k:a` (k = tap: press, 4 ticks, release, 6 ticks) `fk:name:p|r|t|g`; key names as
/// in a configuration
fn hist(s: &str) -> Vec<Ev> {
    let mut v = vec![];
    for tok in s.split_whitespace() {
        let mut it = tok.splitn(3, ':');
        let (Some(k), Some(a)) = (it.next(), it.next()) else { continue };
        match k {
            "t" => v.push(Ev::T(a.parse().unwrap_or(1))),
            "d" => v.push(Ev::P(osc(a))),
            "u" => v.push(Ev::R(osc(a))),
            "r" => v.push(Ev::Rep(osc(a))),
            "k" => v.extend([Ev::P(osc(a)), Ev::T(4), Ev::R(osc(a)), Ev::T(6)]),
            "fk" => v.push(Ev::Fk(a.to_string(), it.next().and_then(|x| x.chars().next()).unwrap_or('t'))),
            _ => {}
        }
    }
    v
}

// ------------------------------------------------------------------ part 5: reserved codes on every output path

pub const NOP_KEYS: [&str; 10] = ["nop0", "nop1", "nop2", "nop3", "nop4", "nop5", "nop6", "nop7", "nop8", "nop9"];
pub const CONTROL_KEY: &str = "f24";
const CONTROL_NAME: &str = "F24";
const SCEN_PER_CASE: usize = 3;

pub struct Scen {
    pub family: &'static str,
    pub variant: String,
    pub cfg: String,
    pub files: Vec<(String, String)>,
    pub hist: Vec<Ev>,
    /// physical keys of the configuration (for the random histories)
    pub keys: Vec<&'static str>,
    pub vkeys: Vec<&'static str>,
}

const SEQ_MODES: [&str; 3] = ["visible-backspaced", "hidden-suppressed", "hidden-delay-type"];
const SEQ_FAM: [[&str; 7]; 3] = [
    [
        "seq-visible-backspaced-complete",
        "seq-visible-backspaced-invalid-key",
        "seq-visible-backspaced-timeout",
        "seq-visible-backspaced-cancelled-by-the-key",
        "seq-visible-backspaced-held-over-cancel",
        "seq-visible-backspaced-shifted-invalid",
        "seq-visible-backspaced-leader-in-macro",
    ],
    [
        "seq-hidden-suppressed-complete",
        "seq-hidden-suppressed-invalid-key",
        "seq-hidden-suppressed-timeout",
        "seq-hidden-suppressed-cancelled-by-the-key",
        "seq-hidden-suppressed-held-over-cancel",
        "seq-hidden-suppressed-shifted-invalid",
        "seq-hidden-suppressed-leader-in-macro",
    ],
    [
        "seq-hidden-delay-type-complete",
        "seq-hidden-delay-type-invalid-key",
        "seq-hidden-delay-type-timeout",
        "seq-hidden-delay-type-cancelled-by-the-key",
        "seq-hidden-delay-type-held-over-cancel",
        "seq-hidden-delay-type-shifted-invalid",
        "seq-hidden-delay-type-leader-in-macro",
    ],
];

fn simple(family: &'static str, variant: &str, cfg: String, h: &str, keys: &[&'static str]) -> Scen {
    Scen { family, variant: variant.to_string(), cfg, files: vec![], hist: hist(h), keys: keys.to_vec(), vkeys: vec![] }
}

/// every scenario, with the key under test written as `k`
pub fn nop_scenarios(k: &str) -> Vec<Scen> {
    let mut v: Vec<Scen> = vec![];
    // ---- sequences
    let seq_keys: [&'static str; 8] = ["a", "b", "c", "d", "e", "f", "g", "lsft"];
    for (mi, mode) in SEQ_MODES.iter().enumerate() {
        for how in 0..2 {
            let other = SEQ_MODES[(mi + 1) % 3];
            let (cfg_mode, leader) = if how == 0 { (*mode, "sldr".to_string()) } else { (other, format!("(sequence 100 {mode})")) };
            let hw = if how == 0 { "defcfg" } else { "leader-arg" };
            let head = |seq: &str, ldr: &str| -> String {
                format!(
                    "(defcfg sequence-input-mode {cfg_mode} sequence-timeout 100)\n(defsrc a b c d e f g lsft)\n(deflayer base {ldr} {k} c d e f g lsft)\n(defvirtualkeys s1 (macro h i))\n(defseq s1 ({seq}))\n"
                )
            };
            for pos in 0..3usize {
                // the sequence: K at `pos` among c d, then g
                let mut names: Vec<String> = vec!["c".into(), "d".into()];
                names.insert(pos, k.to_string());
                names.push("g".into());
                let mut phys: Vec<&str> = vec!["c", "d"];
                phys.insert(pos, "b");
                phys.push("g");
                let seq = names.join(" ");
                let through: String = phys[..=pos].iter().map(|p| format!(" k:{p}")).collect();
                let all: String = phys.iter().map(|p| format!(" k:{p}")).collect();
                v.push(Scen { files: vec![], vkeys: vec!["s1"], ..simple(SEQ_FAM[mi][0], &format!("{hw}:pos{pos}"), head(&seq, &leader), &format!("k:a{all} t:60"), &seq_keys) });
                v.push(Scen { files: vec![], vkeys: vec!["s1"], ..simple(SEQ_FAM[mi][1], &format!("{hw}:pos{pos}"), head(&seq, &leader), &format!("k:a{through} k:e t:60"), &seq_keys) });
                v.push(Scen { files: vec![], vkeys: vec!["s1"], ..simple(SEQ_FAM[mi][2], &format!("{hw}:pos{pos}"), head(&seq, &leader), &format!("k:a{through} t:300"), &seq_keys) });
            }
            // K is not part of any sequence and is the key that makes the sequence invalid
            v.push(simple(SEQ_FAM[mi][3], hw, head("c d g", &leader), "k:a k:c k:b t:60 k:e t:20", &seq_keys));
            v.push(simple(SEQ_FAM[mi][3], &format!("{hw}:first"), head("c d g", &leader), "k:a k:b t:60 k:b t:20", &seq_keys));
            // K is held (and auto-repeated by the OS) while the sequence is cancelled
            v.push(simple(SEQ_FAM[mi][4], hw, head(&format!("{k} c d g"), &leader), "k:a d:b t:5 r:b t:5 k:e r:b t:5 r:b u:b t:60", &seq_keys));
            v.push(simple(SEQ_FAM[mi][4], &format!("{hw}:timeout"), head(&format!("{k} c d g"), &leader), "k:a d:b t:5 r:b t:150 r:b t:5 u:b t:60", &seq_keys));
            // shifted K
            v.push(simple(SEQ_FAM[mi][5], hw, head(&format!("S-{k} c g"), &leader), "k:a d:lsft t:3 k:b u:lsft t:5 k:e t:60", &seq_keys));
            v.push(simple(SEQ_FAM[mi][5], &format!("{hw}:timeout"), head(&format!("S-{k} c g"), &leader), "k:a d:lsft t:3 k:b u:lsft t:300", &seq_keys));
        }
        // the leader and K typed by one macro (the guide's dot-sequence example)
        v.push(simple(
            SEQ_FAM[mi][6],
            "invalid",
            format!("(defcfg sequence-timeout 100)\n(defsrc a b c d)\n(deflayer base (macro (sequence 100 {mode}) 10 {k} 10 d) {k} c d)\n(defvirtualkeys s1 (macro h i))\n(defseq s1 ({k} c))\n"),
            "k:a t:100",
            &["a", "b", "c", "d"],
        ));
        v.push(simple(
            SEQ_FAM[mi][6],
            "timeout",
            format!("(defcfg sequence-timeout 100)\n(defsrc a b c d)\n(deflayer base (macro (sequence 100 {mode}) 10 {k}) {k} c d)\n(defvirtualkeys s1 (macro h i))\n(defseq s1 ({k} c))\n"),
            "k:a t:300",
            &["a", "b", "c", "d"],
        ));
        v.push(simple(
            SEQ_FAM[mi][0],
            "virtual-key-types-the-key",
            format!("(defcfg sequence-input-mode {mode} sequence-timeout 100)\n(defsrc a b c d)\n(deflayer base sldr {k} c d)\n(defvirtualkeys s1 (macro h {k} i))\n(defseq s1 (c d))\n"),
            "k:a k:c k:d t:100",
            &["a", "b", "c", "d"],
        ));
    }
    // ---- macros
    let abcd: [&'static str; 4] = ["a", "b", "c", "d"];
    let one = |action: &str| -> String { format!("(defsrc a b c d)\n(deflayer base {action} {k} c d)\n") };
    for (vi, m) in [format!("(macro c {k} d)"), format!("(macro S-{k})"), format!("(macro C-S-{k} 5 {k} 5 S-({k} c))"), format!("(macro {k} 20 {k})")].iter().enumerate() {
        v.push(simple("macro", &format!("v{vi}:tap"), one(m), "k:a t:150", &abcd));
        v.push(simple("macro", &format!("v{vi}:held"), one(m), "d:a t:20 r:a t:100 u:a t:60", &abcd));
    }
    v.push(simple("macro-release-cancel", "completes", one(&format!("(macro-release-cancel c {k} 30 {k} d)")), "d:a t:120 u:a t:60", &abcd));
    v.push(simple("macro-release-cancel", "cancelled", one(&format!("(macro-release-cancel c {k} 30 {k} d)")), "d:a t:12 u:a t:100", &abcd));
    v.push(simple("macro-cancel-on-press", "completes", one(&format!("(macro-cancel-on-press c {k} 30 {k} d)")), "k:a t:150", &abcd));
    v.push(simple("macro-cancel-on-press", "cancelled", one(&format!("(macro-cancel-on-press c {k} 30 {k} d)")), "k:a t:5 k:b t:100", &abcd));
    v.push(simple("macro-repeat", "held", one(&format!("(macro-repeat {k} c 10)")), "d:a t:120 u:a t:80", &abcd));
    // ---- dynamic macro: K recorded and replayed
    let dm = format!("(defsrc a b c d e)\n(deflayer base (dynamic-macro-record 1) {k} dynamic-macro-record-stop (dynamic-macro-play 1) e)\n");
    v.push(simple("dynamic-macro-replay", "tap", dm.clone(), "k:a k:b k:e k:b k:c t:20 k:d t:300", &["a", "b", "c", "d", "e"]));
    v.push(simple("dynamic-macro-replay", "held-repeated", dm.clone(), "k:a d:b t:5 r:b t:5 r:b u:b t:5 k:e k:c t:20 k:d t:300 k:d t:300", &["a", "b", "c", "d", "e"]));
    v.push(simple("dynamic-macro-replay", "stopped-by-record", dm, "k:a k:e k:b k:a t:20 k:d t:300", &["a", "b", "c", "d", "e"]));
    // ---- zippychord
    v.push(Scen {
        files: vec![("zfile".into(), "ab\thello\nabd\tbye\n".into())],
        ..simple(
            "zippy-bystander-input",
            "in-chord",
            format!("(defsrc a b c d)\n(deflayer base a b {k} d)\n(defzippy zfile)\n"),
            "d:c t:3 d:a t:3 d:b t:20 u:a u:b u:c t:60 d:a t:2 d:c t:2 d:b t:20 u:c u:a u:b t:60 k:c d:a d:b d:d t:20 u:a u:b u:d t:100",
            &abcd,
        )
    });
    v.push(Scen {
        files: vec![("zfile".into(), "ab\tx!y\nbd\tz?\nad\t%&\n".into())],
        ..simple(
            "zippy-output-mapping",
            "plain-shifted-noerase-single",
            format!("(defsrc a b c d)\n(deflayer base a b c d)\n(defzippy zfile output-character-mappings (! {k} ? S-{k} % (no-erase {k}) & (single-output {k} c)))\n"),
            "d:a t:2 d:b t:20 u:a u:b t:60 d:b t:2 d:d t:20 u:b u:d t:60 d:a t:2 d:d t:20 u:a u:d t:100",
            &abcd,
        )
    });
    v.push(Scen {
        files: vec![("zfile".into(), "ab\tx!y\n".into())],
        ..simple("zippy-output-mapping", "minimal", format!("(defsrc a b)\n(deflayer base a b)\n(defzippy zfile output-character-mappings (! {k}))\n"), "d:a t:2 d:b t:20 u:a u:b t:60", &["a", "b"])
    });
    // ---- unmod / unshift
    let um = format!("(defsrc a b c lsft)\n(deflayer base (unmod {k}) (unshift {k}) (unmod (lsft) {k} c) lsft)\n");
    v.push(simple("unmod-unshift", "shift-held", um.clone(), "d:lsft t:5 k:a k:b k:c u:lsft t:60", &["a", "b", "c", "lsft"]));
    v.push(simple("unmod-unshift", "repeated", um, "d:a t:5 r:a t:5 r:a u:a t:5 d:lsft t:2 d:b t:5 r:b t:2 u:b d:c t:5 r:c u:c u:lsft t:60", &["a", "b", "c", "lsft"]));
    // ---- overrides
    let ov = format!("(defsrc a b c lsft)\n(deflayer base a b c lsft)\n(defoverrides (a) ({k}) (lsft b) (lsft {k}) (c) (lsft {k}))\n");
    v.push(simple("override-output", "tap-and-repeat", ov, "d:a t:5 r:a t:5 r:a u:a t:10 d:lsft t:5 d:b t:5 r:b t:5 u:b u:lsft t:10 d:c t:5 r:c u:c t:60", &["a", "b", "c", "lsft"]));
    let ov2 = format!("(defcfg override-release-on-activation yes)\n(defsrc a b c lsft)\n(deflayer base a b c lsft)\n(defoverrides (a) ({k}) (lsft b) (lsft {k}) (c) (lsft {k}))\n");
    v.push(simple("override-output", "release-on-activation", ov2, "d:a t:5 r:a t:5 u:a t:10 d:lsft t:5 d:b t:5 r:b t:5 u:lsft t:3 u:b t:10 d:c t:5 d:a t:3 r:a u:c u:a t:60", &["a", "b", "c", "lsft"]));
    // ---- one-shot
    let os = format!("(defsrc a b c d)\n(deflayer base (one-shot 200 {k}) (one-shot-release 200 {k}) c (one-shot 200 S-{k}))\n");
    v.push(simple("one-shot", "consumed-and-timeout", os, "k:a k:c t:50 k:b k:c t:50 k:d k:c t:50 k:a t:300 k:a k:b k:c t:300", &abcd));
    // ---- chords
    let c1 = format!("(defsrc a b c d)\n(deflayer base (chord g a) (chord g b) c d)\n(defchords g 50 (a) {k} (b) c (a b) (multi lsft {k}))\n");
    v.push(simple("chords-v1", "single-and-pair", c1, "k:a t:100 d:a t:5 d:b t:20 r:a t:60 u:a u:b t:100 d:a t:80 r:a u:a t:50", &abcd));
    let c2 = format!("(defcfg concurrent-tap-hold yes)\n(defsrc a b c d)\n(deflayer base a b c d)\n(defchordsv2 (a b) {k} 50 all-released () (c d) (macro {k} c) 50 first-release ())\n");
    v.push(simple("chords-v2", "key-and-macro", c2, "d:a t:5 d:b t:100 r:a u:a u:b t:100 d:c d:d t:50 u:c u:d t:100", &abcd));
    // ---- tap-hold, tap-dance
    let th = format!("(defsrc a b c d)\n(deflayer base (tap-hold 100 100 {k} c) (tap-hold 100 100 c {k}) (tap-hold-press 100 100 {k} {k}) (tap-hold-release 100 100 {k} c))\n");
    v.push(simple("tap-hold", "tap-hold-press-release", th, "k:a t:50 d:b t:150 r:b t:5 u:b t:50 d:c t:5 k:d t:5 u:c t:150 k:d t:50 k:a d:a t:50 r:a u:a t:50", &abcd));
    let td = format!("(defsrc a b c d)\n(deflayer base (tap-dance 100 ({k} c)) (tap-dance-eager 100 ({k} c)) c d)\n");
    v.push(simple("tap-dance", "lazy-and-eager", td, "k:a t:150 k:a k:a t:150 k:b t:150 k:b k:b t:150 d:a t:150 r:a u:a t:50", &abcd));
    // ---- fork / switch / multi / modifier prefixes
    let fk = format!("(defsrc a b c d lsft)\n(deflayer base (fork {k} c (lsft)) (switch () {k} break) (multi lsft {k}) (multi {k} c) lsft)\n");
    v.push(simple("fork-switch-multi", "tap-and-repeat", fk, "d:a t:5 r:a u:a t:10 d:b t:5 r:b u:b t:10 d:c t:5 r:c u:c t:10 d:d t:5 r:d u:d t:10 d:lsft k:a k:d u:lsft t:60", &["a", "b", "c", "d", "lsft"]));
    let mp = format!("(defsrc a b c d)\n(deflayer base S-{k} C-A-{k} RA-{k} (multi S-{k} C-{k}))\n");
    v.push(simple("modifier-prefix", "tap-and-repeat", mp, "d:a t:5 r:a u:a t:10 d:b t:5 r:b u:b t:10 d:c t:5 r:c u:c t:10 d:d t:5 r:d u:d t:60", &abcd));
    // ---- rpt / rpt-any
    let rp = format!("(defsrc a b c d)\n(deflayer base {k} rpt rpt-any (multi lsft {k}))\n");
    v.push(simple("rpt", "after-the-key", rp, "k:a k:b k:b k:c k:d k:b k:c d:a t:3 k:b u:a t:60", &abcd));
    let rc = format!("(defsrc a b c d)\n(deflayer base (caps-word 300) {k} rpt (multi {k} (release-key {k})))\n");
    v.push(simple("rpt", "under-caps-word-and-release-key", rc, "k:a k:b k:c t:400 k:b k:c k:d k:c d:d t:5 r:d u:d t:60", &abcd));
    // ---- virtual keys
    let vk = format!(
        "(defsrc a b c d e)\n(defvirtualkeys v {k} w (multi lsft {k}))\n(deflayer base (on-press tap-vkey v) (on-press press-vkey v) (on-release release-vkey v) (on-press toggle-vkey w) (hold-for-duration 50 v))\n"
    );
    v.push(Scen {
        vkeys: vec!["v", "w"],
        ..simple("virtual-key", "actions-and-direct-operations", vk, "k:a k:b t:5 k:c k:d t:5 k:d k:e t:100 fk:v:t t:10 fk:v:p t:5 fk:v:r t:5 fk:w:g t:5 fk:w:g t:60", &["a", "b", "c", "d", "e"])
    });
    // ---- caps-word
    let cw = format!("(defsrc a b c d)\n(deflayer base (caps-word 300) {k} c (caps-word-custom 300 ({k} c) (d)))\n");
    v.push(simple("caps-word", "default-and-custom", cw, "k:a k:b k:c d:b t:5 r:b u:b t:400 k:d k:b k:c t:400", &abcd));
    // ---- layers
    let ly = format!("(defsrc a b c d)\n(deflayer base (layer-while-held up) {k} c (layer-switch up))\n(deflayer up _ _ {k} (layer-switch base))\n");
    v.push(simple("layers", "held-and-switched", ly, "d:a t:5 d:b t:5 r:b u:a t:5 r:b u:b t:10 d:a t:3 d:c t:5 r:c u:c u:a t:10 k:d d:c t:5 r:c u:c k:b k:d t:60", &abcd));
    v
}

fn reserved_names() -> Vec<String> {
    let p = pinned_keycode_names();
    (0x2a4..=0x2adusize).map(|c| p.get(c).copied().unwrap_or("?").to_string()).collect()
}

fn files_map(files: &[(String, String)]) -> FileMap {
    let mut m = FileMap::default();
    for (k, v) in files {
        m.insert(k.clone(), v.clone());
    }
    m
}

fn random_hist(rng: &mut Rng, sc: &Scen) -> Vec<Ev> {
    let mut h = vec![];
    let mut down: Vec<u16> = vec![];
    let n = rng.range(4, 14);
    for _ in 0..n {
        match rng.usize(10) {
            0..=4 => {
                let c = osc(*rng.pick(&sc.keys[..]));
                if !down.contains(&c) {
                    down.push(c);
                    h.push(Ev::P(c));
                }
            }
            5..=6 if !down.is_empty() => {
                let i = rng.usize(down.len());
                h.push(Ev::R(down.remove(i)));
            }
            7 if !down.is_empty() => h.push(Ev::Rep(*rng.pick(&down))),
            8 if !sc.vkeys.is_empty() => h.push(Ev::Fk(rng.pick(&sc.vkeys[..]).to_string(), *rng.pick(&['t', 'p', 'r', 'g']))),
            _ => {}
        }
        h.push(Ev::T(*rng.pick(&[1u32, 2, 5, 12, 40, 120, 260])));
    }
    for c in down {
        h.push(Ev::R(c));
        h.push(Ev::T(3));
    }
    h.push(Ev::T(350));
    h
}

pub fn n_nop_scenarios() -> usize {
    nop_scenarios(CONTROL_KEY).len()
}
pub fn n_nop_cases() -> u64 {
    ((n_nop_scenarios() + SCEN_PER_CASE - 1) / SCEN_PER_CASE) as u64
}

pub fn describe_nop(idx: u64) -> Value {
    let all = nop_scenarios("nop1");
    let v: Vec<Value> = all.iter().skip(idx as usize * SCEN_PER_CASE).take(SCEN_PER_CASE).map(|s| json!({"family": s.family, "variant": s.variant, "config": s.cfg, "history": render_hist(&s.hist)})).collect();
    json!({"part": "reserved codes on every output path", "keys": "nop0..nop9 and f24 (control)", "scenarios": v})
}

/// run one scenario with one key; returns whether the control key name was seen
fn run_nop_one(out: &mut CaseOut, sc: &Scen, key: &str, h: &[Ev], reserved: &[String], random: bool) -> bool {
    let is_control = key == CONTROL_KEY;
    let mut sim = match Sim::new_with_files(&sc.cfg, files_map(&sc.files)) {
        Ok(s) => s,
        Err(e) => {
            // A configuration that asks for a reserved code to be *typed* may be refused: nothing
            // reaches the OS then. The control key must still be accepted (the path must exist).
            if !is_control && sc.family.starts_with("zippy-output-mapping") {
                out.inc("noppath_reserved_output_refused_by_parser");
                return false;
            }
            out.inc("noppath_configs_rejected");
            out.violate(
                format!("C11:nop-path:config-rejected:{}", sc.family),
                format!("scenario {} / {} with key {key} rejected", sc.family, sc.variant),
                json!({"config": sc.cfg, "files": sc.files, "history": render_hist(h), "observed": e, "expected": "accepted"}),
            );
            return false;
        }
    };
    sim.run(h);
    sim.ticks(if random { 50 } else { 350 });
    out.inc(if is_control { "noppath_control_runs" } else { "noppath_runs" });
    if random {
        out.inc("noppath_random_history_runs");
    }
    out.count("noppath_os_events_inspected", sim.trace.len() as u64);
    if is_control {
        return sim.trace.iter().any(|o| matches!(o.kind, OutKind::Down | OutKind::Repeat) && o.name == CONTROL_NAME);
    }
    // judged on the raw stream: a release of a reserved code is an OS event as well
    let bad: Vec<&crate::core::sim::Out> = sim
        .trace
        .iter()
        .filter(|o| match o.kind {
            OutKind::Down | OutKind::Up | OutKind::Repeat => reserved.contains(&o.name),
            OutKind::Code => o.name.split(';').next().and_then(|c| c.trim().parse::<u32>().ok()).map(|c| (0x2a4..=0x2ad).contains(&c)).unwrap_or(false),
            _ => false,
        })
        .collect();
    if !bad.is_empty() {
        let class = if bad.iter().any(|o| o.kind == OutKind::Down || o.kind == OutKind::Code) {
            "reserved-code-reached-os"
        } else if bad.iter().any(|o| o.kind == OutKind::Repeat) {
            "reserved-code-reached-os-as-repeat"
        } else {
            "reserved-code-reached-os-as-release"
        };
        out.violate(
            format!("C11:nop-path:{class}:{}", sc.family),
            format!("{key} typed through {} ({}) reached the OS: {:?}", sc.family, sc.variant, bad.iter().map(|o| o.short()).collect::<Vec<_>>()),
            json!({"config": sc.cfg, "files": sc.files, "history": render_hist(h), "observed": sim.trace_short(), "expected": "no OS event for codes 0x2a4..=0x2ad (nop0..nop9)", "key": key, "variant": sc.variant, "random_history": random}),
        );
    }
    false
}

pub fn run_nop(out: &mut CaseOut, ctx: &Ctx, idx: u64) {
    let reserved = reserved_names();
    let n_rand = ctx.tier.sel(6u64, 200);
    let lo = idx as usize * SCEN_PER_CASE;
    let keys: Vec<&str> = NOP_KEYS.iter().copied().chain([CONTROL_KEY]).collect();
    for (ki, key) in keys.iter().enumerate() {
        let all = nop_scenarios(key);
        for (si, sc) in all.iter().enumerate().skip(lo).take(SCEN_PER_CASE) {
            if ki == 0 {
                out.inc("noppath_scenarios");
                out.tag(format!("noppath:{}:{}", sc.family, sc.variant));
            }
            if ctx.verbose {
                eprintln!("--- {} / {} key {key}\n{}{}", sc.family, sc.variant, sc.cfg, render_hist(&sc.hist));
            }
            let seen = run_nop_one(out, sc, key, &sc.hist, &reserved, false);
            if seen {
                out.inc("noppath_control_key_reached_os");
                out.inc(&format!("noppath_control_reached_os__{}", sc.family));
            } else if *key == CONTROL_KEY {
                out.inc(&format!("noppath_control_silent__{}", sc.family));
            }
            // random histories over the same configuration (seeded); the control key is not needed here
            if *key != CONTROL_KEY {
                for r in 0..n_rand {
                    let mut rng = Rng::for_case(ctx.seed, "C11", "noppath", ((si as u64) << 20) | ((ki as u64) << 12) | r);
                    let h = random_hist(&mut rng, sc);
                    run_nop_one(out, sc, key, &h, &reserved, true);
                }
            }
        }
    }
    if idx == 0 {
        let all = nop_scenarios("nop1");
        out.sample = Some(json!({"part": "reserved codes on every output path", "family": all[2].family, "config": all[2].cfg, "history": render_hist(&all[2].hist), "expected": "no OS event named K676..K685"}));
    }
}

/// families in which the control key is written to the OS through the path: a run in which it
/// is not proves nothing about that path (floors)
pub const NOP_FLOOR_FAMILIES: &[&str] = &[
    "seq-visible-backspaced-complete",
    "seq-visible-backspaced-invalid-key",
    "seq-visible-backspaced-timeout",
    "seq-visible-backspaced-cancelled-by-the-key",
    "seq-visible-backspaced-held-over-cancel",
    "seq-visible-backspaced-shifted-invalid",
    "seq-visible-backspaced-leader-in-macro",
    "seq-hidden-suppressed-complete",
    "seq-hidden-suppressed-cancelled-by-the-key",
    "seq-hidden-suppressed-held-over-cancel",
    "seq-hidden-delay-type-complete",
    "seq-hidden-delay-type-invalid-key",
    "seq-hidden-delay-type-timeout",
    "seq-hidden-delay-type-cancelled-by-the-key",
    "seq-hidden-delay-type-held-over-cancel",
    "seq-hidden-delay-type-shifted-invalid",
    "seq-hidden-delay-type-leader-in-macro",
    "macro",
    "macro-release-cancel",
    "macro-cancel-on-press",
    "macro-repeat",
    "dynamic-macro-replay",
    "zippy-bystander-input",
    "zippy-output-mapping",
    "unmod-unshift",
    "override-output",
    "one-shot",
    "chords-v1",
    "chords-v2",
    "tap-hold",
    "tap-dance",
    "fork-switch-multi",
    "modifier-prefix",
    "rpt",
    "virtual-key",
    "caps-word",
    "layers",
];

pub fn nop_family_floors() -> Vec<(&'static str, u64)> {
    static NAMES: std::sync::OnceLock<Vec<&'static str>> = std::sync::OnceLock::new();
    let names = NAMES.get_or_init(|| NOP_FLOOR_FAMILIES.iter().map(|f| &*Box::leak(format!("noppath_control_reached_os__{f}").into_boxed_str())).collect());
    names.iter().map(|n| (*n, 1u64)).collect()
}

// ------------------------------------------------------------------ part 6: the defsrc layer is the identity under every option combination

pub const IDENT_CODES_QUICK: [u16; 4] = [30, 42, 183, 600];
pub const IDENT_CODES_THOROUGH: [u16; 12] = [30, 42, 183, 600, 1, 57, 100, 111, 125, 425, 675, 744];
const N_OPT: u64 = 2 * 3 * 2 * 3;

pub fn ident_codes(ctx: &Ctx) -> &'static [u16] {
    ctx.tier.sel(&IDENT_CODES_QUICK[..], &IDENT_CODES_THOROUGH[..])
}
/// two cases per (code, option combination): first layers that do not / do use `use-defsrc` themselves
/// (if the defsrc row is not the identity the latter can recurse without bound and take the worker
/// process down; kept apart so that the former still report what came out)
pub fn n_ident_cases(ctx: &Ctx) -> u64 {
    ident_codes(ctx).len() as u64 * N_OPT * 2
}

#[derive(Clone, Copy, Debug)]
struct Opts {
    delegate: bool,
    /// 0 absent, 1 to-base-layer, 2 layer-stack
    tkr: u8,
    block: bool,
    /// 0 no, 1 yes, 2 (all-except f24)
    pu: u8,
}

fn opts_of(i: u64) -> Opts {
    Opts { delegate: i % 2 == 1, tkr: ((i / 2) % 3) as u8, block: (i / 6) % 2 == 1, pu: ((i / 12) % 3) as u8 }
}

impl Opts {
    fn defcfg(&self) -> String {
        let mut s = String::from("(defcfg process-unmapped-keys ");
        s.push_str(match self.pu {
            0 => "no",
            1 => "yes",
            _ => "(all-except f24)",
        });
        if self.block {
            s.push_str(" block-unmapped-keys yes");
        }
        if self.delegate {
            s.push_str(" delegate-to-first-layer yes");
        }
        match self.tkr {
            1 => s.push_str(" transparent-key-resolution to-base-layer"),
            2 => s.push_str(" transparent-key-resolution layer-stack"),
            _ => {}
        }
        s.push_str(")\n");
        s
    }
    fn label(&self) -> String {
        format!(
            "delegate-{}:tkr-{}:block-{}:pu-{}",
            if self.delegate { "yes" } else { "no" },
            ["default", "to-base-layer", "layer-stack"][self.tkr as usize],
            if self.block { "yes" } else { "no" },
            ["no", "yes", "all-except"][self.pu as usize]
        )
    }
}

/// how the first layer treats K
#[derive(Clone, Copy, Debug, PartialEq)]
enum First {
    /// deflayer with this action at K (K in defsrc)
    Layer(&'static str),
    /// deflayermap with K as explicit input
    Map(&'static str),
    /// deflayermap that does not mention K
    MapAbsent,
}
const FIRSTS: [First; 10] = [
    First::Layer("x"),
    First::Layer("XX"),
    First::Layer("_"),
    First::Layer("SELF"),
    First::Layer("use-defsrc"),
    First::Layer("(multi lctl x)"),
    First::Layer("(tap-hold 100 100 x y)"),
    First::Map("x"),
    First::Map("use-defsrc"),
    First::MapAbsent,
];

/// how the upper layer maps K
#[derive(Clone, Copy, Debug, PartialEq)]
enum Upper {
    LayerEntry,
    MapExplicit,
    MapDefsrcWildcard,
    MapUnmappedWildcard,
    MapBothWildcard,
    /// K transparent (explicit `_`) above a first layer that is itself the identity at K
    LayerTrans,
    MapTrans,
}
const UPPERS: [(Upper, &str); 7] = [
    (Upper::LayerEntry, "deflayer-entry"),
    (Upper::MapExplicit, "deflayermap-explicit"),
    (Upper::MapDefsrcWildcard, "deflayermap-_"),
    (Upper::MapUnmappedWildcard, "deflayermap-__"),
    (Upper::MapBothWildcard, "deflayermap-___"),
    (Upper::LayerTrans, "deflayer-transparent"),
    (Upper::MapTrans, "deflayermap-transparent"),
];
const ACTIVATIONS: [&str; 4] = ["held", "switched", "held-transparent-over-switched", "first-layer-itself"];

pub struct IdentCase {
    pub cfg: String,
    pub hist: Vec<Ev>,
    pub upper: &'static str,
    pub activation: &'static str,
    pub first: String,
    pub in_defsrc: bool,
}

fn ident_case(c: u16, o: Opts, in_defsrc: bool, first: First, upper: (Upper, &'static str), act: usize) -> Option<IdentCase> {
    let n = format!("zz{c}");
    let first_is_layer = matches!(first, First::Layer(_));
    if first_is_layer && !in_defsrc {
        return None;
    }
    let first_action: Option<String> = match first {
        First::Layer(a) | First::Map(a) => Some(if a == "SELF" { n.clone() } else { a.to_string() }),
        First::MapAbsent => None,
    };
    let first_is_identity = matches!(first_action.as_deref(), Some("_") | Some("use-defsrc")) || first_action.as_deref() == Some(n.as_str());
    let four_key_defsrc = first_is_layer;
    // the upper layer
    let up: Option<String> = if act == 3 {
        None
    } else {
        let held2 = "(layer-while-held up2)";
        Some(match upper.0 {
            Upper::LayerEntry | Upper::LayerTrans => {
                if !in_defsrc {
                    return None;
                }
                let a = if upper.0 == Upper::LayerEntry { "use-defsrc" } else { "_" };
                if four_key_defsrc {
                    format!("(deflayer up {a} _ _ {held2})\n")
                } else {
                    if act == 2 {
                        return None; // no position for the second held layer
                    }
                    format!("(deflayer up {a})\n")
                }
            }
            Upper::MapExplicit => format!("(deflayermap (up) {n} use-defsrc 3 {held2})\n"),
            Upper::MapTrans => format!("(deflayermap (up) {n} _ 3 {held2})\n"),
            Upper::MapDefsrcWildcard => {
                if !in_defsrc {
                    return None;
                }
                format!("(deflayermap (up) 3 {held2} _ use-defsrc)\n")
            }
            Upper::MapUnmappedWildcard => {
                if in_defsrc || o.pu == 0 {
                    return None;
                }
                format!("(deflayermap (up) 3 {held2} __ use-defsrc)\n")
            }
            Upper::MapBothWildcard => {
                if o.pu == 0 {
                    return None;
                }
                format!("(deflayermap (up) 3 {held2} ___ use-defsrc)\n")
            }
        })
    };
    if matches!(upper.0, Upper::LayerTrans | Upper::MapTrans) && act != 3 {
        // transparent is only an identity above an identity
        if !first_is_identity {
            return None;
        }
        // held-over-switched: what is below a transparent key of the switched layer is C04's business
        if act == 2 {
            return None;
        }
    }
    if act == 3 {
        // K on the first layer itself: judged when the first layer is the identity at K; one upper style only
        if !first_is_identity || upper.0 != Upper::MapExplicit {
            return None;
        }
    }
    if act == 2 && o.tkr == 1 && o.delegate {
        // to-base-layer + delegate-to-first-layer: whether a transparent key of a held layer goes to
        // the switched layer or to the first layer is not decided by the guide
        return None;
    }
    // K must be intercepted at all
    let explicit_input = matches!(first, First::Map(_)) || (act != 3 && matches!(upper.0, Upper::MapExplicit | Upper::MapTrans));
    if !(in_defsrc || explicit_input || o.pu != 0) {
        return None;
    }
    let mut s = format!("(deflocalkeys-linux {n} {c})\n");
    s.push_str(&o.defcfg());
    let acts = "(layer-while-held up) (layer-switch up) (layer-while-held up2)";
    let acts_nop = "XX XX XX";
    let helper_actions = if act == 3 { acts_nop } else { acts };
    match first {
        First::Layer(_) => {
            s.push_str(&format!("(defsrc {n} 1 2 3)\n(deflayer first {} {helper_actions})\n", first_action.clone().unwrap_or_default()));
        }
        First::Map(_) | First::MapAbsent => {
            s.push_str(&format!("(defsrc{})\n", if in_defsrc { format!(" {n}") } else { String::new() }));
            let ha: Vec<&str> = if act == 3 { vec!["XX", "XX", "XX"] } else { vec!["(layer-while-held up)", "(layer-switch up)", "(layer-while-held up2)"] };
            s.push_str(&format!("(deflayermap (first) 1 {} 2 {} 3 {}", ha[0], ha[1], ha[2]));
            if let Some(a) = &first_action {
                s.push_str(&format!(" {n} {a}"));
            }
            s.push_str(")\n");
        }
    }
    if let Some(u) = &up {
        s.push_str(u);
        s.push_str(&format!("(deflayermap (up2) {n} _)\n"));
    }
    let (h1, h2, h3) = (osc("1"), osc("2"), osc("3"));
    let mut h = vec![];
    match act {
        0 => h.extend([Ev::P(h1), Ev::T(3)]),
        1 => h.extend([Ev::P(h2), Ev::T(3), Ev::R(h2), Ev::T(3)]),
        2 => h.extend([Ev::P(h2), Ev::T(3), Ev::R(h2), Ev::T(3), Ev::P(h3), Ev::T(3)]),
        _ => {}
    }
    h.extend([Ev::P(c), Ev::T(3), Ev::Rep(c), Ev::T(1), Ev::Rep(c), Ev::T(2), Ev::R(c), Ev::T(3)]);
    match act {
        0 => h.extend([Ev::R(h1), Ev::T(3)]),
        2 => h.extend([Ev::R(h3), Ev::T(3)]),
        _ => {}
    }
    h.push(Ev::T(5));
    Some(IdentCase { cfg: s, hist: h, upper: upper.1, activation: ACTIVATIONS[act], first: format!("{first:?}"), in_defsrc })
}

fn ident_cases(c: u16, o: Opts, group: u64) -> Vec<IdentCase> {
    let mut v = vec![];
    for in_defsrc in [true, false] {
        for first in FIRSTS {
            let uses_src = matches!(first, First::Layer("use-defsrc") | First::Map("use-defsrc"));
            if uses_src != (group == 1) {
                continue;
            }
            for upper in UPPERS {
                for act in 0..4 {
                    if let Some(ic) = ident_case(c, o, in_defsrc, first, upper, act) {
                        v.push(ic);
                    }
                }
            }
        }
    }
    v
}

pub fn describe_ident(ctx: &Ctx, idx: u64) -> Value {
    let codes = ident_codes(ctx);
    let (group, idx) = (idx % 2, idx / 2);
    let c = codes[(idx / N_OPT) as usize % codes.len()];
    let o = opts_of(idx % N_OPT);
    let cases = ident_cases(c, o, group);
    json!({"part": "defsrc identity under option combinations", "code": c, "options": o.label(), "first_layer_uses_use_defsrc": group == 1, "configurations": cases.len(), "first": cases.first().map(|x| x.cfg.clone())})
}

pub fn run_ident(out: &mut CaseOut, ctx: &Ctx, idx: u64) {
    let codes = ident_codes(ctx);
    let (group, idx) = (idx % 2, idx / 2);
    let c = codes[(idx / N_OPT) as usize % codes.len()];
    let o = opts_of(idx % N_OPT);
    let want = expected_identity(c);
    let Exp::Key(name) = &want else { return };
    let exp: Vec<(OutKind, String)> = vec![(OutKind::Down, name.clone()), (OutKind::Repeat, name.clone()), (OutKind::Repeat, name.clone()), (OutKind::Up, name.clone())];
    let dl = if o.delegate { "delegate-yes" } else { "delegate-no" };
    out.tag(format!("ident:{c}:{}:{group}", o.label()));
    for ic in ident_cases(c, o, group) {
        if ctx.verbose {
            eprintln!("--- {} / {} / first {} / in_defsrc {}\n{}{}", ic.upper, ic.activation, ic.first, ic.in_defsrc, ic.cfg, render_hist(&ic.hist));
        }
        let mut sim = match Sim::new(&ic.cfg) {
            Ok(s) => s,
            Err(e) => {
                out.inc("ident_configs_rejected");
                out.violate(
                    format!("C11:defsrc-identity:config-rejected:{}", ic.upper),
                    format!("identity configuration for code {c} ({}) rejected", o.label()),
                    json!({"config": ic.cfg, "history": render_hist(&ic.hist), "observed": e, "expected": "accepted"}),
                );
                continue;
            }
        };
        out.inc("ident_configs");
        out.inc(if o.delegate { "ident_delegate_to_first_layer_yes" } else { "ident_delegate_to_first_layer_no" });
        out.inc(["ident_trans_resolution_default", "ident_trans_resolution_to_base_layer", "ident_trans_resolution_layer_stack"][o.tkr as usize]);
        out.inc(if o.block { "ident_block_unmapped_yes" } else { "ident_block_unmapped_no" });
        out.inc(["ident_process_unmapped_no", "ident_process_unmapped_yes", "ident_process_unmapped_all_except"][o.pu as usize]);
        out.inc(&format!("ident_upper_{}", ic.upper));
        out.inc(&format!("ident_activation_{}", ic.activation));
        if !ic.in_defsrc {
            out.inc("ident_key_not_in_defsrc");
        }
        // the defsrc layer handed to the layout: identity key code per column, index 0 no-op
        {
            let l = sim.k.layout.b();
            let mut bad: Option<(usize, String, String)> = None;
            for (i, ac) in l.src_keys.iter().enumerate() {
                let want_ac = match (i, kc_of(i as u16)) {
                    (0, _) | (_, None) => Action::NoOp,
                    (_, Some(k)) => Action::KeyCode(k),
                };
                if *ac != want_ac {
                    bad = Some((i, format!("{ac:?}"), format!("{want_ac:?}")));
                    break;
                }
            }
            out.count("ident_defsrc_columns_inspected", l.src_keys.len() as u64);
            for (li, layer) in l.layers.iter().enumerate() {
                out.inc("ident_layer_cells0_inspected");
                if layer[0][0] != Action::NoOp {
                    out.violate(
                        format!("C11:defsrc-identity:cell0-not-noop:{}", ic.upper),
                        format!("cell (0,0) of layer #{li} is {:?}, expected NoOp ({})", layer[0][0], o.label()),
                        json!({"config": ic.cfg, "history": "(parse only)", "observed": format!("{:?}", layer[0][0]), "expected": "NoOp", "layer_index": li}),
                    );
                    break;
                }
            }
            if let Some((i, got, wanted)) = bad {
                out.violate(
                    format!("C11:defsrc-layer:not-identity:{dl}"),
                    format!("column {i} of the defsrc layer is {got}, expected {wanted} ({})", o.label()),
                    json!({"config": ic.cfg, "history": "(parse only)", "observed": got, "expected": wanted, "column": i}),
                );
            }
        }
        sim.run(&ic.hist);
        out.inc("ident_runs");
        let got: Vec<(OutKind, String)> = sim.normalized().into_iter().map(|x| (x.kind, x.name)).collect();
        if got == exp {
            out.inc("ident_key_came_out_as_itself");
        } else {
            let no_rep = |v: &Vec<(OutKind, String)>| -> Vec<(OutKind, String)> { v.iter().filter(|x| x.0 != OutKind::Repeat).cloned().collect() };
            let n_rep = got.iter().filter(|x| x.0 == OutKind::Repeat).count();
            let class = if no_rep(&got) == no_rep(&exp) {
                if n_rep == 0 {
                    "repeat-not-forwarded"
                } else if n_rep != 2 {
                    "repeat-count"
                } else {
                    "repeat-of-different-code"
                }
            } else if no_rep(&got).is_empty() {
                "nothing-emitted"
            } else {
                "different-code"
            };
            out.violate(
                format!("C11:defsrc-identity:{class}:{}:{}:{dl}", ic.upper, ic.activation),
                format!("code {c} on a layer that maps it to itself ({}, {}, first layer {}, {}) produced {:?}, expected {:?}", ic.upper, ic.activation, ic.first, o.label(), sim.trace_short(), exp),
                json!({"config": ic.cfg, "history": render_hist(&ic.hist), "observed": sim.trace_short(), "expected": format!("{exp:?}"), "code": c, "options": o.label(), "first_layer": ic.first}),
            );
        }
        if !sim.os.all_up() {
            out.violate(
                format!("C11:defsrc-identity:stuck:{}:{}:{dl}", ic.upper, ic.activation),
                format!("code {c}: something is still held after the release"),
                json!({"config": ic.cfg, "history": render_hist(&ic.hist), "observed": sim.os.describe(), "expected": "nothing held"}),
            );
        }
    }
    if idx == 1 && group == 0 {
        if let Some(ic) = ident_cases(c, o, group).into_iter().find(|x| x.activation == "held" && x.upper == "deflayermap-_") {
            out.sample = Some(json!({"part": "defsrc identity under option combinations", "options": o.label(), "config": ic.cfg, "history": render_hist(&ic.hist), "expected": format!("{exp:?}")}));
        }
    }
}
