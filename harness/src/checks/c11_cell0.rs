//! C11 part 7: coordinate (0,0) - code 0, KEY_RESERVED, "index 0 of every layer" - is a no-op on
//! every layer whatever the layer's fill rules are.
//!
//! Other code relies on (0,0) as an always-no-op coordinate: chords v2 queue a fake press at (0,0)
//! whenever an input chord activates and a fake release whenever one is released (to poke pending
//! tap-holds), sequences / macros report fake (0,0) presses to the one-shot tracker. Nothing a
//! user writes may therefore end up in cell 0: not the action of a deflayermap any-key entry
//! (`_`, `__`, `___`), not an explicit entry for a deflocalkeys name bound to number 0.
//!
//! Enumerated (seed-independent) space: how cell 0 could be written (route) x the action written
//! (key, shifted key, layer-switch, layer-while-held, macro, multi, tap-hold, one-shot, alias,
//! virtual key, mouse button, arbitrary-code, unicode) x where the layer with the entry sits (first
//! layer, held, switched, on both the first and a held layer) x process-unmapped-keys x
//! block-unmapped-keys x delegate-to-first-layer x transparent-key-resolution. Every
//! configuration carries two defchordsv2 chords, a tap-hold, a one-shot, a macro and a sequence on
//! keys that have entries of their own on every layer.
//!
//! Judged:
//!  (a) cell [layer][0][0] of every layer of the parsed configuration and column 0 of the defsrc
//!      row are `NoOp`;
//!  (b) histories that only touch keys with entries of their own (v2 chord activation / release,
//!      with a key tapped while the chord is held, with a pending tap-hold, after a one-shot; macro,
//!      one-shot, sequence without any chord; a device that really emits code 0 when the
//!      configuration intercepts it; seeded random histories over all of these): nothing the
//!      any-key action could produce (the marker keys F23/F24/LAlt, a mouse button, a raw code, a
//!      unicode character) reaches the OS, the OS stream (with timing) and the layer state at the
//!      end equal those of the same configuration without the entry, nothing stays held.

use crate::core::rng::Rng;
use crate::core::sim::{first_diff, osc, render_hist, Ev, OutKind, Sim};
use crate::core::{CaseOut, Ctx};
use kanata_keyberon::action::Action;
use kanata_parser::keys::OsCode;
use serde_json::{json, Value};

// ------------------------------------------------------------------ the enumerated space

/// how cell 0 of the layer could be written
#[derive(Clone, Copy, Debug, PartialEq)]
enum Route {
    /// `__ ACT`: all keys outside defsrc
    Unmapped,
    /// `___ ACT`: all keys; code 0 is not in defsrc
    Both,
    /// `___ ACT`; a local key bound to number 0 is in defsrc
    BothZeroInDefsrc,
    /// `_ ACT`: all defsrc keys; a local key bound to number 0 is in defsrc
    DefsrcZeroInDefsrc,
    /// `zz0 ACT` as explicit deflayermap input (zz0 = local key bound to number 0)
    MapInputZero,
    /// as above and zz0 is also in defsrc
    MapInputZeroInDefsrc,
    /// deflayer with ACT at the defsrc position of zz0
    LayerEntryZero,
}
const ROUTES: [(Route, &str); 7] = [
    (Route::Unmapped, "anykey-unmapped"),
    (Route::Both, "anykey-all"),
    (Route::BothZeroInDefsrc, "anykey-all-code0-in-defsrc"),
    (Route::DefsrcZeroInDefsrc, "anykey-defsrc-code0-in-defsrc"),
    (Route::MapInputZero, "deflayermap-input-code0"),
    (Route::MapInputZeroInDefsrc, "deflayermap-input-code0-in-defsrc"),
    (Route::LayerEntryZero, "deflayer-entry-code0"),
];

impl Route {
    fn zero_in_defsrc(self) -> bool {
        matches!(self, Route::BothZeroInDefsrc | Route::DefsrcZeroInDefsrc | Route::MapInputZeroInDefsrc | Route::LayerEntryZero)
    }
    fn needs_process_unmapped(self) -> bool {
        matches!(self, Route::Unmapped | Route::Both | Route::BothZeroInDefsrc)
    }
    fn is_anykey(self) -> bool {
        matches!(self, Route::Unmapped | Route::Both | Route::BothZeroInDefsrc | Route::DefsrcZeroInDefsrc)
    }
}

/// the action of the entry: everything it can produce is a marker nothing else in the
/// configuration produces
const ACTIONS: [(&str, &str); 13] = [
    ("key", "f24"),
    ("shifted-key", "S-f24"),
    ("layer-switch", "(layer-switch mk)"),
    ("layer-while-held", "(layer-while-held mk)"),
    ("macro", "(macro f24 5 f23)"),
    ("multi", "(multi lalt f24)"),
    ("tap-hold", "(tap-hold 100 100 f24 f23)"),
    ("one-shot", "(one-shot 500 f24)"),
    ("alias", "@mrk"),
    ("virtual-key", "(on-press tap-vkey vm)"),
    ("mouse-button", "mlft"),
    ("arbitrary-code", "(arbitrary-code 700)"),
    ("unicode", "(unicode r)"),
];

/// where the layer that carries the entry sits
const PLACEMENTS: [&str; 4] = ["first-layer", "held-layer", "switched-layer", "first-and-held-layer"];

#[derive(Clone, Copy, Debug)]
struct Opts {
    /// 0 no, 1 yes, 2 (all-except f22)
    pu: u8,
    block: bool,
    delegate: bool,
    /// 0 absent, 1 to-base-layer, 2 layer-stack
    tkr: u8,
}
const N_OPT: u64 = 3 * 2 * 2 * 3;

fn opts_of(i: u64) -> Opts {
    Opts { pu: (i % 3) as u8, block: (i / 3) % 2 == 1, delegate: (i / 6) % 2 == 1, tkr: ((i / 12) % 3) as u8 }
}

impl Opts {
    fn defcfg(&self) -> String {
        let mut s = String::from("(defcfg concurrent-tap-hold yes process-unmapped-keys ");
        s.push_str(["no", "yes", "(all-except f22)"][self.pu as usize]);
        if self.block {
            s.push_str(" block-unmapped-keys yes");
        }
        if self.delegate {
            s.push_str(" delegate-to-first-layer yes");
        }
        match self.tkr {
            1 => s.push_str(" transparent-key-resolution to-base-layer"),
            2 => s.push_str(" transparent-key-resolution layer-stack"),
            _ => {}
        }
        s.push_str(")\n");
        s
    }
    fn label(&self) -> String {
        format!(
            "pu-{}:block-{}:delegate-{}:tkr-{}",
            ["no", "yes", "all-except"][self.pu as usize],
            if self.block { "yes" } else { "no" },
            if self.delegate { "yes" } else { "no" },
            ["default", "to-base-layer", "layer-stack"][self.tkr as usize]
        )
    }
}

pub fn n_cases() -> u64 {
    N_OPT * PLACEMENTS.len() as u64 * ROUTES.len() as u64
}

fn case_of(idx: u64) -> (Opts, usize, (Route, &'static str)) {
    let o = opts_of(idx % N_OPT);
    let p = ((idx / N_OPT) % PLACEMENTS.len() as u64) as usize;
    let r = ROUTES[((idx / N_OPT / PLACEMENTS.len() as u64) % ROUTES.len() as u64) as usize];
    (o, p, r)
}

// ------------------------------------------------------------------ configurations

/// the keys every history uses; each has an entry of its own on every layer
const KEYS: [&str; 9] = ["a", "b", "c", "d", "e", "f", "g", "1", "2"];

/// actions of KEYS on the first layer / on the upper layer / on the marker layer
fn first_actions() -> [&'static str; 9] {
    ["a", "b", "(tap-hold-press 200 200 c lctl)", "(one-shot 300 lsft)", "(macro m 5 n)", "sldr", "g", "(layer-while-held up)", "(layer-switch up)"]
}
fn upper_actions() -> [&'static str; 9] {
    ["a", "b", "(tap-hold-press 200 200 c lctl)", "(one-shot 300 lsft)", "(macro m 5 n)", "sldr", "g", "XX", "(layer-switch first)"]
}
fn marker_actions() -> [&'static str; 9] {
    ["f23", "f23", "f23", "f23", "f23", "f23", "f23", "XX", "(layer-switch first)"]
}

/// one layer; `entry` = the action written through the route (None: the same layer without it)
fn layer_text(name: &str, acts: &[&str; 9], route: Option<Route>, entry: Option<&str>) -> String {
    match route {
        Some(Route::LayerEntryZero) => {
            // defsrc is `a b c d e f g 1 2 zz0`
            let mut s = format!("(deflayer {name}");
            for a in acts {
                s.push(' ');
                s.push_str(a);
            }
            s.push(' ');
            s.push_str(entry.unwrap_or("XX"));
            s.push_str(")\n");
            s
        }
        _ => {
            let mut s = format!("(deflayermap ({name})");
            for (k, a) in KEYS.iter().zip(acts.iter()) {
                s.push_str(&format!(" {k} {a}"));
            }
            match (route, entry) {
                (Some(r), Some(e)) => {
                    let input = match r {
                        Route::Unmapped => "__",
                        Route::Both | Route::BothZeroInDefsrc => "___",
                        Route::DefsrcZeroInDefsrc => "_",
                        _ => "zz0",
                    };
                    s.push_str(&format!(" {input} {e}"));
                }
                // the reference keeps code 0 an input of the layer: only the action goes
                (Some(Route::MapInputZero | Route::MapInputZeroInDefsrc), None) => s.push_str(" zz0 XX"),
                _ => {}
            }
            s.push_str(")\n");
            s
        }
    }
}

/// the configuration; `entry` None = the reference (same configuration without the entry)
fn config(o: Opts, placement: usize, route: Route, entry: Option<&str>) -> String {
    let mut s = String::from("(deflocalkeys-linux zz0 0)\n");
    s.push_str(&o.defcfg());
    s.push_str("(defsrc a b c d e f g 1 2");
    if route.zero_in_defsrc() {
        s.push_str(" zz0");
    }
    s.push_str(")\n(defalias mrk f24)\n(defvirtualkeys vm f24 vs (macro q))\n(defseq vs (g g))\n");
    let on_first = placement == 0 || placement == 3;
    let on_upper = placement != 0;
    // a deflayer needs an action for every defsrc key: LayerEntryZero makes every layer a deflayer
    let shape = |with: bool| -> Option<Route> {
        if with || route == Route::LayerEntryZero {
            Some(route)
        } else {
            None
        }
    };
    s.push_str(&layer_text("first", &first_actions(), shape(on_first), if on_first { entry } else { None }));
    s.push_str(&layer_text("up", &upper_actions(), shape(on_upper), if on_upper { entry } else { None }));
    s.push_str(&layer_text("mk", &marker_actions(), shape(false), None));
    s.push_str("(defchordsv2\n (a b) x 60 all-released ()\n (a g) (macro y 5 z) 60 first-release ())\n");
    s
}

// ------------------------------------------------------------------ histories

fn hist(s: &str) -> Vec<Ev> {
    let mut v = vec![];
    for tok in s.split_whitespace() {
        let Some((k, a)) = tok.split_once(':') else { continue };
        let code = |a: &str| -> u16 {
            if a == "#0" {
                0
            } else {
                osc(a)
            }
        };
        match k {
            "t" => v.push(Ev::T(a.parse().unwrap_or(1))),
            "d" => v.push(Ev::P(code(a))),
            "u" => v.push(Ev::R(code(a))),
            "r" => v.push(Ev::Rep(code(a))),
            "k" => v.extend([Ev::P(code(a)), Ev::T(4), Ev::R(code(a)), Ev::T(8)]),
            _ => {}
        }
    }
    v
}

/// (injector class, body); `g` tapped at the end shows on which layer the run ended
const DESIGNED: [(&str, &str); 4] = [
    ("chords-v2", "d:a t:5 d:b t:80 k:g t:20 u:a t:3 u:b t:100 k:g t:40"),
    ("chords-v2", "d:c t:10 d:a t:2 d:b t:80 u:a u:b t:20 u:c t:250 k:d d:a t:3 d:g t:80 u:a t:20 u:g t:100 k:d t:400 k:g t:40"),
    ("macro-oneshot-sequence", "k:e t:50 k:d k:g t:50 k:f k:g k:g t:150 k:c t:30 k:g t:40"),
    ("physical-code-0", "d:#0 t:5 r:#0 t:5 r:#0 u:#0 t:30 d:g t:3 d:#0 t:5 u:#0 u:g t:30 k:g t:40"),
];

fn wrap(placement: usize, body: Vec<Ev>) -> Vec<Ev> {
    let (k1, k2) = (osc("1"), osc("2"));
    let mut h = vec![];
    match placement {
        1 | 3 => h.extend([Ev::P(k1), Ev::T(10)]),
        2 => h.extend([Ev::P(k2), Ev::T(4), Ev::R(k2), Ev::T(10)]),
        _ => {}
    }
    h.extend(body);
    if placement == 1 || placement == 3 {
        h.extend([Ev::R(k1), Ev::T(20)]);
        // the layer state after the held layer is gone
        let g = osc("g");
        h.extend([Ev::P(g), Ev::T(4), Ev::R(g), Ev::T(8)]);
    }
    h.push(Ev::T(40));
    h
}

fn random_body(rng: &mut Rng, with_zero: bool) -> (Vec<Ev>, bool) {
    let names: [&str; 7] = ["a", "b", "c", "d", "e", "f", "g"];
    let mut h = vec![];
    let mut down: Vec<u16> = vec![];
    let mut chordish = false;
    let n = rng.range(5, 16);
    for _ in 0..n {
        match rng.usize(12) {
            0..=1 => {
                // the two keys of a chord, close together
                let (x, y) = *rng.pick(&[("a", "b"), ("a", "g"), ("b", "a"), ("g", "a")]);
                let (x, y) = (osc(x), osc(y));
                if !down.contains(&x) && !down.contains(&y) {
                    h.extend([Ev::P(x), Ev::T(*rng.pick(&[0u32, 1, 4, 20])), Ev::P(y)]);
                    down.extend([x, y]);
                    chordish = true;
                }
            }
            2..=5 => {
                let c = osc(*rng.pick(&names[..]));
                if !down.contains(&c) {
                    down.push(c);
                    h.push(Ev::P(c));
                }
            }
            6 if with_zero => {
                if !down.contains(&0) {
                    down.push(0);
                    h.push(Ev::P(0));
                }
            }
            7..=9 if !down.is_empty() => {
                let i = rng.usize(down.len());
                h.push(Ev::R(down.remove(i)));
            }
            10 if !down.is_empty() => h.push(Ev::Rep(*rng.pick(&down))),
            _ => {}
        }
        h.push(Ev::T(*rng.pick(&[1u32, 3, 8, 30, 70, 130, 320])));
    }
    for c in down {
        h.push(Ev::R(c));
        h.push(Ev::T(3));
    }
    h.push(Ev::T(330));
    let g = osc("g");
    h.extend([Ev::P(g), Ev::T(4), Ev::R(g), Ev::T(20)]);
    (h, chordish)
}

// ------------------------------------------------------------------ oracle

fn is_marker(kind: &OutKind, name: &str) -> bool {
    match kind {
        OutKind::Down | OutKind::Up | OutKind::Repeat => matches!(name, "F23" | "F24" | "LAlt"),
        OutKind::BtnDown | OutKind::BtnUp | OutKind::Code | OutKind::Unicode | OutKind::Scroll | OutKind::Move | OutKind::Other => true,
    }
}

struct RefRun {
    trace: Vec<crate::core::sim::Out>,
    current_layer: usize,
    default_layer: usize,
    all_up: bool,
    fired_chords: u64,
}

/// number of chord outputs (X of the first chord, Y of the second) in a stream
fn chord_outputs(t: &[crate::core::sim::Out]) -> u64 {
    t.iter().filter(|o| o.kind == OutKind::Down && (o.name == "X" || o.name == "Y")).count() as u64
}

fn run(cfg: &str, h: &[Ev]) -> Result<(Sim, RefRun), String> {
    let mut sim = Sim::new(cfg)?;
    sim.run(h);
    // let everything that is still pending (timeouts of up to 500 ms) run out
    for i in 0..700 {
        sim.tick();
        if i >= 25 && sim.is_idle() {
            break;
        }
    }
    let l = sim.k.layout.b();
    let r = RefRun { trace: sim.trace.clone(), current_layer: l.current_layer(), default_layer: l.default_layer, all_up: sim.os.all_up(), fired_chords: chord_outputs(&sim.trace) };
    Ok((sim, r))
}

fn code0_intercepted(cfg: &str) -> Option<bool> {
    let c = kanata_parser::cfg::new_from_str(cfg, Default::default()).ok()?;
    let zero = OsCode::from_u16(0)?;
    Some(c.mapped_keys.contains(&zero))
}

pub fn describe(idx: u64) -> Value {
    let (o, p, r) = case_of(idx);
    if r.0.needs_process_unmapped() && o.pu == 0 {
        return json!({"part": "coordinate (0,0) stays a no-op", "skipped": "the language rejects __ / ___ without process-unmapped-keys"});
    }
    json!({"part": "coordinate (0,0) stays a no-op", "route": r.1, "placement": PLACEMENTS[p], "options": o.label(), "actions": ACTIONS.iter().map(|a| a.1).collect::<Vec<_>>(), "first": config(o, p, r.0, Some(ACTIONS[0].1))})
}

pub fn run_case(out: &mut CaseOut, ctx: &Ctx, idx: u64) {
    let (o, p, (route, rname)) = case_of(idx);
    if route.needs_process_unmapped() && o.pu == 0 {
        out.inc("cell0_combinations_the_language_rejects");
        return;
    }
    let placement = PLACEMENTS[p];
    let n_rand = ctx.tier.sel(2u64, 30);
    let ref_cfg = config(o, p, route, None);
    // does a device's code 0 reach kanata at all in this configuration?
    let zero_reaches = code0_intercepted(&ref_cfg);
    let Some(zero_reaches) = zero_reaches else {
        out.inc("cell0_configs_rejected");
        out.violate(
            format!("C11:cell0:config-rejected:reference:{rname}"),
            format!("configuration without the entry rejected ({placement}, {})", o.label()),
            json!({"config": ref_cfg, "history": "(parse only)", "observed": Sim::new(&ref_cfg).err(), "expected": "accepted"}),
        );
        return;
    };
    out.tag(format!("cell0:{rname}:{placement}:{}", o.label()));
    // histories of this case (the same for every action): (injector, history, random?)
    let mut hs: Vec<(&'static str, Vec<Ev>, bool)> = vec![];
    for (inj, body) in DESIGNED {
        if inj == "physical-code-0" && !zero_reaches {
            out.inc("cell0_code0_not_intercepted_history_skipped");
            continue;
        }
        hs.push((inj, wrap(p, hist(body)), false));
    }
    for r in 0..n_rand {
        let mut rng = Rng::for_case(ctx.seed, "C11", "cell0", (idx << 8) | r);
        let (body, chordish) = random_body(&mut rng, zero_reaches && r % 2 == 1);
        hs.push((if chordish { "random-with-chords-v2" } else { "random-without-chords" }, wrap(p, body), true));
    }
    // reference runs
    let mut refs: Vec<Option<RefRun>> = vec![];
    for (inj, h, _) in &hs {
        match run(&ref_cfg, h) {
            Ok((_, r)) => {
                out.inc("cell0_reference_runs");
                if *inj == "chords-v2" && r.fired_chords >= 1 {
                    out.inc("cell0_designed_chord_histories_with_activation");
                }
                if *inj == "macro-oneshot-sequence" && r.trace.iter().any(|x| x.kind == OutKind::Down && x.name == "Q") && r.trace.iter().any(|x| x.kind == OutKind::Down && x.name == "N") {
                    out.inc("cell0_designed_histories_macro_and_sequence_completed");
                }
                if r.trace.iter().any(|x| is_marker(&x.kind, &x.name)) {
                    // the scenario itself is wrong: the markers must be unreachable without the entry
                    out.inconclusive = Some(format!("cell0: a marker is produced without the entry ({rname}, {placement}, {inj})"));
                }
                refs.push(Some(r));
            }
            Err(_) => refs.push(None),
        }
    }
    for (aname, atext) in ACTIONS {
        let cfg = config(o, p, route, Some(atext));
        // ---- (a) the parsed configuration
        let parsed = match kanata_parser::cfg::new_from_str(&cfg, Default::default()) {
            Ok(c) => c,
            Err(e) => {
                out.inc("cell0_configs_rejected");
                out.violate(
                    format!("C11:cell0:config-rejected:{rname}"),
                    format!("configuration with {atext} written through {rname} rejected ({placement}, {})", o.label()),
                    json!({"config": cfg, "history": "(parse only)", "observed": format!("{e:?}").lines().take(10).collect::<Vec<_>>().join(" | "), "expected": "accepted"}),
                );
                continue;
            }
        };
        out.inc("cell0_configs");
        out.inc(&format!("cell0_route_{rname}"));
        out.inc(&format!("cell0_action_{aname}"));
        out.inc(&format!("cell0_placement_{placement}"));
        out.inc(["cell0_process_unmapped_no", "cell0_process_unmapped_yes", "cell0_process_unmapped_all_except"][o.pu as usize]);
        if o.block {
            out.inc("cell0_block_unmapped_yes");
        }
        if o.delegate {
            out.inc("cell0_delegate_to_first_layer_yes");
        }
        if o.tkr != 0 {
            out.inc("cell0_transparent_key_resolution_set");
        }
        {
            let l = parsed.layout.b();
            // the entry did land somewhere: a neighbour cell the route covers holds the action
            for (li, layer) in l.layers.iter().enumerate() {
                out.inc("cell0_layer_cells_inspected");
                let cell = &layer[0][0];
                if *cell != Action::NoOp {
                    out.violate(
                        format!("C11:cell0:not-noop:{rname}"),
                        format!("cell (0,0) of layer #{li} is {cell:?} after {atext} was written through {rname} ({placement}, {}); expected NoOp", o.label()),
                        json!({"config": cfg, "history": "(parse only)", "observed": format!("{cell:?}"), "expected": "NoOp", "layer_index": li, "options": o.label()}),
                    );
                    break;
                }
            }
            out.inc("cell0_defsrc_column0_inspected");
            if l.src_keys[0] != Action::NoOp {
                out.violate(
                    format!("C11:cell0:defsrc-column0-not-noop:{rname}"),
                    format!("column 0 of the defsrc row is {:?} ({placement}, {})", l.src_keys[0], o.label()),
                    json!({"config": cfg, "history": "(parse only)", "observed": format!("{:?}", l.src_keys[0]), "expected": "NoOp"}),
                );
            }
            if route.is_anykey() {
                // proof that the any-key entry was applied: a cell it covers is not what the reference has
                let probe = if route == Route::DefsrcZeroInDefsrc { None } else { Some(osc("z") as usize) };
                if let Some(pc) = probe {
                    let li = if p == 0 || p == 3 { 0 } else { 1 };
                    if l.layers.get(li).map(|x| x[0][pc] != Action::NoOp && x[0][pc] != Action::Trans).unwrap_or(false) {
                        out.inc("cell0_anykey_entry_applied_to_other_cells");
                    }
                }
            }
        }
        drop(parsed);
        // ---- (b) behaviour
        for ((inj, h, random), rf) in hs.iter().zip(refs.iter()) {
            let Some(rf) = rf else { continue };
            let (sim, got) = match run(&cfg, h) {
                Ok(x) => x,
                Err(_) => continue,
            };
            out.inc("cell0_runs");
            out.inc(&format!("cell0_runs_{inj}"));
            if *random {
                out.inc("cell0_random_history_runs");
            }
            out.count("cell0_v2_chord_activations_in_reference", rf.fired_chords);
            if ctx.verbose {
                eprintln!("--- {rname} / {aname} / {placement} / {} / {inj}\n{cfg}{}\n  got {:?}\n  ref {:?}", o.label(), render_hist(h), sim.trace_short(), rf.trace.iter().map(|x| x.short()).collect::<Vec<_>>());
            }
            let markers: Vec<String> = got.trace.iter().filter(|x| is_marker(&x.kind, &x.name)).map(|x| x.short()).collect();
            let wit = |observed: Value, expected: Value| -> Value {
                json!({"config": cfg, "history": render_hist(h), "observed": observed, "expected": expected, "observed_trace": sim.trace_short(), "trace_without_the_entry": rf.trace.iter().map(|x| x.short()).collect::<Vec<_>>(), "entry": atext, "route": rname, "placement": placement, "options": o.label(), "random_history": random})
            };
            if !markers.is_empty() {
                out.violate(
                    format!("C11:cell0:anykey-action-performed:{rname}:{inj}"),
                    format!("{atext} written through {rname} ({placement}) was performed although no key it stands for was pressed: {markers:?}"),
                    wit(json!(markers), json!("no output of the entry's action: only keys with entries of their own were pressed")),
                );
            } else if let Some(d) = first_diff(&got.trace, &rf.trace) {
                out.violate(
                    format!("C11:cell0:output-differs-from-config-without-the-entry:{rname}:{inj}"),
                    format!("{atext} written through {rname} ({placement}) changes the output of a history that presses only keys with entries of their own: {d}"),
                    wit(json!(d), json!("the OS stream of the same configuration without the entry")),
                );
            } else {
                out.inc("cell0_output_equal_to_reference");
            }
            if (got.current_layer, got.default_layer) != (rf.current_layer, rf.default_layer) {
                out.violate(
                    format!("C11:cell0:layer-state-differs:{rname}"),
                    format!("{atext} written through {rname} ({placement}): layer state at the end is current {} / default {}, without the entry {} / {}", got.current_layer, got.default_layer, rf.current_layer, rf.default_layer),
                    wit(json!({"current": got.current_layer, "default": got.default_layer}), json!({"current": rf.current_layer, "default": rf.default_layer})),
                );
            }
            if !got.all_up && rf.all_up {
                out.violate(
                    format!("C11:cell0:stuck:{rname}"),
                    format!("{atext} written through {rname} ({placement}): something is still held at the end: {}", sim.os.describe()),
                    wit(json!(sim.os.describe()), json!("nothing held")),
                );
            }
        }
    }
    if idx == N_OPT * 1 + 1 {
        out.sample = Some(json!({"part": "coordinate (0,0) stays a no-op", "route": rname, "placement": placement, "options": o.label(), "config": config(o, p, route, Some(ACTIONS[0].1)), "history": render_hist(&hs[0].1), "expected": "cell (0,0) of every layer NoOp; OS stream equal to the configuration without the entry; no F23/F24/LAlt/mouse/raw-code/unicode output"}));
    }
}

pub fn floors(ctx: &Ctx) -> Vec<(&'static str, u64)> {
    let q = ctx.tier == crate::core::Tier::Quick;
    vec![
        ("cell0_configs", 11_000),
        ("cell0_layer_cells_inspected", 33_000),
        ("cell0_defsrc_column0_inspected", 11_000),
        ("cell0_anykey_entry_applied_to_other_cells", 3_700),
        ("cell0_reference_runs", if q { 5_000 } else { 29_000 }),
        ("cell0_runs", if q { 65_000 } else { 375_000 }),
        ("cell0_output_equal_to_reference", if q { 65_000 } else { 375_000 }),
        ("cell0_runs_chords-v2", 22_000),
        ("cell0_runs_macro-oneshot-sequence", 11_000),
        ("cell0_runs_physical-code-0", 11_000),
        ("cell0_runs_random-with-chords-v2", if q { 10_000 } else { 150_000 }),
        ("cell0_random_history_runs", if q { 22_000 } else { 330_000 }),
        ("cell0_designed_chord_histories_with_activation", 1_700),
        ("cell0_designed_histories_macro_and_sequence_completed", 860),
        ("cell0_v2_chord_activations_in_reference", 40_000),
        ("cell0_route_anykey-unmapped", 1_200),
        ("cell0_route_anykey-all", 1_200),
        ("cell0_route_anykey-all-code0-in-defsrc", 1_200),
        ("cell0_route_anykey-defsrc-code0-in-defsrc", 1_800),
        ("cell0_route_deflayermap-input-code0", 1_800),
        ("cell0_route_deflayermap-input-code0-in-defsrc", 1_800),
        ("cell0_route_deflayer-entry-code0", 1_800),
        ("cell0_action_key", 860),
        ("cell0_action_shifted-key", 860),
        ("cell0_action_layer-switch", 860),
        ("cell0_action_layer-while-held", 860),
        ("cell0_action_macro", 860),
        ("cell0_action_multi", 860),
        ("cell0_action_tap-hold", 860),
        ("cell0_action_one-shot", 860),
        ("cell0_action_alias", 860),
        ("cell0_action_virtual-key", 860),
        ("cell0_action_mouse-button", 860),
        ("cell0_action_arbitrary-code", 860),
        ("cell0_action_unicode", 860),
        ("cell0_placement_first-layer", 2_800),
        ("cell0_placement_held-layer", 2_800),
        ("cell0_placement_switched-layer", 2_800),
        ("cell0_placement_first-and-held-layer", 2_800),
        ("cell0_process_unmapped_no", 2_400),
        ("cell0_process_unmapped_yes", 4_300),
        ("cell0_process_unmapped_all_except", 4_300),
        ("cell0_block_unmapped_yes", 5_600),
        ("cell0_delegate_to_first_layer_yes", 5_600),
        ("cell0_transparent_key_resolution_set", 7_400),
    ]
}
