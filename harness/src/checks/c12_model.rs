//! Independent model of defseq tables for C12: what the user types for each sequence, the
//! documented matching rule, prefix conflicts, table generator. Written from the guide, does not
//! use kanata's trie or encodings.

use crate::core::rng::Rng;

pub const ALPHA: [&str; 7] = ["a", "b", "c", "d", "e", "f", "g"];
/// (prefix, key)
pub const MODS: [(&str, &str); 3] = [("S", "lsft"), ("C", "lctl"), ("A", "lalt")];
pub const WIT: [&str; 8] = ["f13", "f14", "f15", "f16", "f17", "f18", "f19", "f20"];

#[derive(Clone, Debug, PartialEq, Eq)]
pub enum El {
    Plain(u8),
    /// modifier(s) held around one or more tapped keys; `group` selects the `S-(a b)` spelling
    Mod { mods: Vec<u8>, keys: Vec<u8>, group: bool },
    /// keys that must all be down together, in any order
    Ov(Vec<u8>),
    /// a bare modifier key (index into `BARE`) listed like any other key: `(lsft a b)`
    Bare(u8),
}

/// bare modifier keys that can be sequence members: (name, modifier class, right-hand twin of a left key).
/// Modifier classes: 0 = shift, 1 = ctrl, 2 = alt (as in `MODS`), 3 = meta, 4 = altgr.
pub const BARE: [(&str, u8, bool); 8] = [("lsft", 0, false), ("lctl", 1, false), ("lalt", 2, false), ("lmet", 3, false), ("ralt", 4, false), ("rsft", 0, true), ("rctl", 1, true), ("rmet", 3, true)];
/// number of entries of `BARE` that are not right-hand twins
pub const N_BARE_LEFT: usize = 5;

impl El {
    pub fn text(&self) -> String {
        match self {
            El::Plain(k) => ALPHA[*k as usize].to_string(),
            El::Mod { mods, keys, group } => {
                let pre: String = mods.iter().map(|m| format!("{}-", MODS[*m as usize].0)).collect();
                if *group {
                    format!("{pre}({})", keys.iter().map(|k| ALPHA[*k as usize]).collect::<Vec<_>>().join(" "))
                } else {
                    format!("{pre}{}", ALPHA[keys[0] as usize])
                }
            }
            El::Ov(ks) => format!("O-({})", ks.iter().map(|k| ALPHA[*k as usize]).collect::<Vec<_>>().join(" ")),
            El::Bare(m) => BARE[*m as usize].0.to_string(),
        }
    }
    fn n_tokens(&self) -> usize {
        match self {
            El::Plain(_) => 1,
            El::Mod { mods, keys, .. } => mods.len() + keys.len(),
            El::Ov(ks) => ks.len(),
            El::Bare(_) => 1,
        }
    }
}

pub fn seq_text(els: &[El]) -> String {
    format!("({})", els.iter().map(|e| e.text()).collect::<Vec<_>>().join(" "))
}

#[derive(Clone, Debug, PartialEq, Eq)]
pub struct Seq {
    pub els: Vec<El>,
}
impl Seq {
    pub fn text(&self) -> String {
        seq_text(&self.els)
    }
}

#[derive(Clone, Debug)]
pub struct Table {
    pub seqs: Vec<Seq>,
}

#[derive(Clone, Debug)]
pub struct Conflict {
    pub x: usize,
    pub y: usize,
    pub class: &'static str,
}

/// one press as the matcher can see it: key and the modifiers held at that moment
#[derive(Clone, Debug, PartialEq, Eq)]
struct Tok {
    key: String,
    mods: Vec<u8>,
}

fn el_tokens(e: &El) -> Vec<Tok> {
    match e {
        El::Plain(k) => vec![Tok { key: ALPHA[*k as usize].into(), mods: vec![] }],
        El::Mod { mods, keys, .. } => {
            let mut v = vec![];
            for i in 0..mods.len() {
                let mut held: Vec<u8> = mods[..=i].to_vec();
                held.sort();
                v.push(Tok { key: MODS[mods[i] as usize].1.into(), mods: held });
            }
            let mut held = mods.clone();
            held.sort();
            for k in keys {
                v.push(Tok { key: ALPHA[*k as usize].into(), mods: held.clone() });
            }
            v
        }
        El::Ov(ks) => ks.iter().map(|k| Tok { key: ALPHA[*k as usize].into(), mods: vec![] }).collect(),
        // as defined, a bare modifier key is just a key: no modifier is "held around" it
        El::Bare(m) => vec![Tok { key: BARE[*m as usize].0.into(), mods: vec![] }],
    }
}

/// Press/release steps of the canonical typing of one ordering: (is_press, key name).
/// `hold_through`: the keys of an overlap group that is followed by further elements stay down
/// until the next element has been typed.
pub fn user_steps(ord: &[El], hold_through: bool) -> Vec<(bool, String)> {
    let mut v: Vec<(bool, String)> = vec![];
    let mut pending_release: Vec<String> = vec![];
    for (i, e) in ord.iter().enumerate() {
        match e {
            El::Plain(k) => {
                let n = ALPHA[*k as usize].to_string();
                v.push((true, n.clone()));
                v.push((false, n));
            }
            El::Bare(m) => {
                let n = BARE[*m as usize].0.to_string();
                v.push((true, n.clone()));
                v.push((false, n));
            }
            El::Mod { mods, keys, .. } => {
                for m in mods {
                    v.push((true, MODS[*m as usize].1.into()));
                }
                for k in keys {
                    v.push((true, ALPHA[*k as usize].into()));
                    v.push((false, ALPHA[*k as usize].into()));
                }
                for m in mods.iter().rev() {
                    v.push((false, MODS[*m as usize].1.into()));
                }
            }
            El::Ov(ks) => {
                for k in ks {
                    v.push((true, ALPHA[*k as usize].into()));
                }
                let rel: Vec<String> = ks.iter().map(|k| ALPHA[*k as usize].to_string()).collect();
                if hold_through && i + 1 < ord.len() && !matches!(ord[i + 1], El::Ov(_)) && !el_uses_any(&ord[i + 1], ks) {
                    pending_release = rel;
                    continue;
                }
                for n in rel {
                    v.push((false, n));
                }
            }
        }
        if !pending_release.is_empty() && !matches!(e, El::Ov(_)) {
            for n in pending_release.drain(..) {
                v.push((false, n));
            }
        }
    }
    for n in pending_release {
        v.push((false, n));
    }
    v
}

fn el_uses_any(e: &El, ks: &[u8]) -> bool {
    match e {
        El::Plain(k) => ks.contains(k),
        El::Mod { keys, .. } => keys.iter().any(|k| ks.contains(k)),
        El::Ov(o) => o.iter().any(|k| ks.contains(k)),
        El::Bare(_) => false,
    }
}

fn fact(n: usize) -> u64 {
    (1..=n as u64).product()
}
pub fn n_orderings(els: &[El]) -> u64 {
    els.iter().map(|e| if let El::Ov(k) = e { fact(k.len()) } else { 1 }).product()
}

fn nth_perm(keys: &[u8], mut n: u64) -> Vec<u8> {
    let mut pool = keys.to_vec();
    let mut out = vec![];
    while !pool.is_empty() {
        let f = fact(pool.len() - 1);
        let i = (n / f) as usize;
        n %= f;
        out.push(pool.remove(i));
    }
    out
}

fn nth_ordering(els: &[El], mut n: u64) -> Vec<El> {
    els.iter()
        .map(|e| match e {
            El::Ov(k) => {
                let f = fact(k.len());
                let r = El::Ov(nth_perm(k, n % f));
                n /= f;
                r
            }
            o => o.clone(),
        })
        .collect()
}

/// all orderings if there are at most `cap`, otherwise the written one, its reverse and random ones
pub fn orderings(els: &[El], cap: usize, rng: &mut Rng) -> Vec<Vec<El>> {
    let total = n_orderings(els);
    if total <= cap as u64 {
        return (0..total).map(|n| nth_ordering(els, n)).collect();
    }
    let mut picks: Vec<u64> = vec![0, total - 1];
    while picks.len() < cap {
        let n = rng.below(total);
        if !picks.contains(&n) {
            picks.push(n);
        }
    }
    picks.into_iter().map(|n| nth_ordering(els, n)).collect()
}

/// Result of matching all of X against the beginning of Y.
struct PrefixMatch {
    /// number of presses of X (== presses of Y consumed)
    plain_in_group: bool,
    sub_group: bool,
    identical_shape: bool,
    consumed: usize,
}

/// Does sequence `x` (any ordering of its groups) match the beginning of what the user types for
/// `y`? `y_fixed`: `y`'s groups are typed in exactly the written order; otherwise any order.
/// Rule: presses must agree in key and held modifiers; keys of an overlap group of `x` must all be
/// down together, which in the canonical typing of `y` only happens inside one overlap group of
/// `y`; plain members of `x` carry no constraint on releases.
fn match_prefix(x: &[El], y: &[El], y_fixed: bool) -> Option<PrefixMatch> {
    let mut yi = 0usize; // next element of y
    let mut ytoks: Vec<Tok> = vec![]; // remaining tokens of the current non-overlap element of y
    let mut grp: Vec<u8> = vec![]; // remaining keys of the current overlap group of y
    let mut grp_fresh = false; // nothing consumed from it yet
    let mut m = PrefixMatch { plain_in_group: false, sub_group: false, identical_shape: true, consumed: 0 };
    for xe in x {
        match xe {
            El::Ov(xk) => {
                if grp.is_empty() && ytoks.is_empty() {
                    match y.get(yi) {
                        Some(El::Ov(yk)) => {
                            grp = yk.clone();
                            grp_fresh = true;
                            yi += 1;
                        }
                        _ => return None,
                    }
                }
                if grp.is_empty() {
                    return None; // in the middle of a modifier element of y
                }
                if xk.len() > grp.len() {
                    return None;
                }
                if y_fixed {
                    let head: Vec<u8> = grp[..xk.len()].to_vec();
                    if !xk.iter().all(|k| head.contains(k)) {
                        return None;
                    }
                    grp.drain(..xk.len());
                } else {
                    if !xk.iter().all(|k| grp.contains(k)) {
                        return None;
                    }
                    grp.retain(|k| !xk.contains(k));
                }
                if !(grp_fresh && grp.is_empty()) {
                    m.sub_group = true;
                    m.identical_shape = false;
                }
                grp_fresh = false;
                m.consumed += xk.len();
            }
            other => {
                for xt in el_tokens(other) {
                    if grp.is_empty() && ytoks.is_empty() {
                        match y.get(yi) {
                            Some(El::Ov(yk)) => {
                                grp = yk.clone();
                                grp_fresh = true;
                            }
                            Some(e) => ytoks = el_tokens(e),
                            None => return None,
                        }
                        yi += 1;
                    }
                    if !grp.is_empty() {
                        if !xt.mods.is_empty() {
                            return None;
                        }
                        let Some(ki) = ALPHA.iter().position(|a| *a == xt.key) else { return None };
                        let ki = ki as u8;
                        if y_fixed {
                            if grp[0] != ki {
                                return None;
                            }
                            grp.remove(0);
                        } else {
                            if !grp.contains(&ki) {
                                return None;
                            }
                            grp.retain(|k| *k != ki);
                        }
                        grp_fresh = false;
                        m.plain_in_group = true;
                        m.identical_shape = false;
                    } else {
                        if ytoks[0] != xt {
                            return None;
                        }
                        ytoks.remove(0);
                    }
                    m.consumed += 1;
                }
            }
        }
    }
    Some(m)
}

fn total_tokens(els: &[El]) -> usize {
    els.iter().map(|e| e.n_tokens()).sum()
}

fn conflict_class(x: &[El], y: &[El], y_fixed: bool) -> Option<&'static str> {
    let m = match_prefix(x, y, y_fixed)?;
    let ny = total_tokens(y);
    if m.consumed < ny {
        // proper prefix: x completes while y is still being typed
        Some(if m.plain_in_group {
            "plain-key-prefix-of-overlap-ordering"
        } else if m.sub_group {
            "overlap-group-inside-larger-group"
        } else {
            "no-overlap-group-involved"
        })
    } else if m.identical_shape {
        Some("identical-sequences")
    } else {
        // both complete on the same press: the overlap variant wins (repository's own tests)
        None
    }
}

impl Table {
    pub fn text(&self) -> String {
        let mut s = String::from("(defvirtualkeys");
        for i in 0..self.seqs.len() {
            s.push_str(&format!(" v{i} (macro {})", WIT[i]));
        }
        s.push_str(")\n(defseq");
        for (i, q) in self.seqs.iter().enumerate() {
            s.push_str(&format!("\n  v{i} {}", q.text()));
        }
        s.push_str(")\n");
        s
    }
    pub fn has_chorded_members(&self) -> bool {
        self.seqs.iter().any(|q| q.els.iter().any(|e| matches!(e, El::Mod { .. })))
    }
    /// coarse structural shape (for distinct-case counting)
    pub fn shape(&self) -> String {
        self.seqs
            .iter()
            .map(|q| {
                q.els
                    .iter()
                    .map(|e| match e {
                        El::Plain(_) => "p".to_string(),
                        El::Mod { mods, keys, group } => format!("m{}{}{}", mods.len(), keys.len(), if *group { "g" } else { "" }),
                        El::Ov(k) => format!("o{}", k.len()),
                        El::Bare(m) => (if BARE[*m as usize].2 { "R" } else { "B" }).to_string(),
                    })
                    .collect::<Vec<_>>()
                    .join("")
            })
            .collect::<Vec<_>>()
            .join("|")
    }
    /// every ordered pair (x, y) such that x, in some ordering, is a prefix of some ordering of y
    pub fn conflicts(&self) -> Vec<Conflict> {
        let mut v = vec![];
        for x in 0..self.seqs.len() {
            for y in 0..self.seqs.len() {
                if x == y {
                    continue;
                }
                if let Some(class) = conflict_class(&self.seqs[x].els, &self.seqs[y].els, false) {
                    if class == "identical-sequences" && x > y {
                        continue; // report once
                    }
                    v.push(Conflict { x, y, class });
                }
            }
        }
        v
    }
    /// can some other sequence begin with the same press as this ordering?
    pub fn shares_first_press(&self, si: usize, ord: &[El]) -> bool {
        let Some(first) = ord.first().map(|e| el_tokens(e)[0].clone()) else { return false };
        self.seqs.iter().enumerate().any(|(i, q)| {
            i != si
                && match q.els.first() {
                    Some(El::Ov(k)) => first.mods.is_empty() && k.iter().any(|x| ALPHA[*x as usize] == first.key),
                    Some(e) => el_tokens(e)[0] == first,
                    None => false,
                }
        })
    }
    /// does some other sequence complete while this ordering of sequence `si` is being typed?
    pub fn ordering_has_prefix_conflict(&self, si: usize, ord: &[El]) -> bool {
        (0..self.seqs.len()).any(|x| x != si && conflict_class(&self.seqs[x].els, ord, true).is_some())
    }
    /// Structural class of known finding #21 with respect to typing ordering `ord` of sequence `si`:
    /// another sequence P follows the same presses with a *different* structure (plain keys, or a
    /// smaller overlap group followed by plain keys) all the way through an overlap group of the
    /// typed ordering that is followed by further keys. Returns the indices of such P.
    pub fn shadowed_by(&self, si: usize, ord: &[El]) -> Vec<usize> {
        let mut ends = vec![];
        let mut pos = 0;
        for (i, e) in ord.iter().enumerate() {
            pos += e.n_tokens();
            if matches!(e, El::Ov(_)) && i + 1 < ord.len() {
                ends.push(pos);
            }
        }
        let mut out = vec![];
        for (pi, p) in self.seqs.iter().enumerate() {
            if pi == si {
                continue;
            }
            for &e in &ends {
                let Some(x) = truncate_tokens(&p.els, e) else { continue };
                if let Some(m) = match_prefix(&x, ord, true) {
                    if m.consumed == e && !m.identical_shape {
                        out.push(pi);
                        break;
                    }
                }
            }
        }
        out
    }
    /// Second structural class found by the check: another sequence P has an overlap group whose
    /// keys are, at the same position, typed by this ordering as taps while a modifier is held
    /// (members of S-(..) / C-(..)). The matcher's overlap track drops the modifier bits and never
    /// sees "all released" while the modifier is down, so it follows P.
    pub fn overlap_group_vs_modded_taps(&self, si: usize, ord: &[El]) -> Vec<usize> {
        let ytoks: Vec<Tok> = ord.iter().flat_map(el_tokens).collect();
        (0..self.seqs.len()).filter(|&pi| pi != si && modded_taps_match_overlap_group(&self.seqs[pi].els, &ytoks)).collect()
    }
}

fn modded_taps_match_overlap_group(p: &[El], typed: &[Tok]) -> bool {
    let mut i = 0usize;
    for e in p {
        match e {
            El::Ov(ks) => {
                if i + ks.len() > typed.len() {
                    return false;
                }
                let mut pool: Vec<String> = ks.iter().map(|k| ALPHA[*k as usize].to_string()).collect();
                for t in &typed[i..i + ks.len()] {
                    match pool.iter().position(|k| *k == t.key) {
                        Some(x) => {
                            pool.remove(x);
                        }
                        None => return false,
                    }
                }
                if typed[i..i + ks.len()].iter().any(|t| !t.mods.is_empty()) {
                    return true;
                }
                i += ks.len();
            }
            other => {
                for t in el_tokens(other) {
                    if i >= typed.len() || t.key != typed[i].key {
                        return false;
                    }
                    i += 1;
                }
            }
        }
    }
    false
}

/// the first `n` press tokens of `els` as elements; None if that cuts an overlap group or `els` is shorter
fn truncate_tokens(els: &[El], n: usize) -> Option<Vec<El>> {
    let mut v = vec![];
    let mut left = n;
    for e in els {
        if left == 0 {
            break;
        }
        let t = e.n_tokens();
        if t <= left {
            v.push(e.clone());
            left -= t;
        } else {
            match e {
                El::Mod { mods, keys, group } if left > mods.len() => {
                    v.push(El::Mod { mods: mods.clone(), keys: keys[..left - mods.len()].to_vec(), group: *group });
                    left = 0;
                }
                _ => return None,
            }
        }
    }
    if left == 0 {
        Some(v)
    } else {
        None
    }
}

// ---------------------------------------------------------------- generator

fn gen_el(rng: &mut Rng, big: bool) -> El {
    match rng.below(100) {
        0..=54 => El::Plain(rng.below(ALPHA.len() as u64) as u8),
        55..=66 => {
            let nm = if rng.chance(1, 4) { 3 } else { 2 };
            let m = rng.below(nm) as u8;
            let mut mods = vec![m];
            if rng.chance(1, 6) {
                let m2 = rng.below(3) as u8;
                if m2 != m {
                    mods.push(m2);
                }
            }
            El::Mod { mods, keys: vec![rng.below(ALPHA.len() as u64) as u8], group: false }
        }
        67..=76 => {
            let m = rng.below(2) as u8;
            let n = 1 + rng.usize(3);
            let keys = (0..n).map(|_| rng.below(ALPHA.len() as u64) as u8).collect();
            El::Mod { mods: vec![m], keys, group: true }
        }
        _ => {
            let n = match rng.below(20) {
                0..=10 => 2,
                11..=16 => 3,
                17 => 4,
                18 => {
                    if big {
                        5
                    } else {
                        4
                    }
                }
                _ => {
                    if big {
                        6
                    } else {
                        3
                    }
                }
            };
            let ks = rng.subset(ALPHA.len(), n).into_iter().map(|k| k as u8).collect();
            El::Ov(ks)
        }
    }
}

fn gen_seq(rng: &mut Rng, big: bool) -> Seq {
    loop {
        let n = 1 + rng.usize(4);
        let els: Vec<El> = (0..n).map(|_| gen_el(rng, big)).collect();
        if n_orderings(&els) <= 720 {
            return Seq { els };
        }
    }
}

/// derive a sequence that is related to `base` (prefix / extension / group variations)
fn derive(rng: &mut Rng, base: &Seq, big: bool) -> Seq {
    let ord = nth_ordering(&base.els, rng.below(n_orderings(&base.els)));
    let mut els: Vec<El> = match rng.below(7) {
        0 => {
            // key-level prefix of one ordering, written with plain keys where possible
            let mut v = vec![];
            for e in &ord {
                match e {
                    El::Ov(k) => v.extend(k.iter().map(|x| El::Plain(*x))),
                    o => v.push(o.clone()),
                }
            }
            let keep = 1 + rng.usize(v.len());
            v.truncate(keep);
            v
        }
        1 => {
            // element-level prefix
            let keep = 1 + rng.usize(ord.len());
            base.els[..keep].to_vec()
        }
        2 => {
            // extension
            let mut v = base.els.clone();
            v.push(gen_el(rng, big));
            v
        }
        3 => {
            // a group replaced by a sub- or super-group
            let mut v = base.els.clone();
            if let Some(i) = v.iter().position(|e| matches!(e, El::Ov(_))) {
                if let El::Ov(k) = &v[i] {
                    let mut k = k.clone();
                    if k.len() > 2 && rng.coin() {
                        k.pop();
                    } else if let Some(extra) = (0..ALPHA.len() as u8).find(|x| !k.contains(x)) {
                        k.push(extra);
                    }
                    v[i] = El::Ov(k);
                }
            } else {
                v.push(gen_el(rng, big));
            }
            v
        }
        4 => {
            // plain keys turned into an overlap group (same keys, same completion press), then more
            let mut v = vec![];
            let mut run: Vec<u8> = vec![];
            for e in &base.els {
                match e {
                    El::Plain(k) if !run.contains(k) && run.len() < 3 => run.push(*k),
                    o => {
                        if run.len() >= 2 {
                            v.push(El::Ov(std::mem::take(&mut run)));
                        } else {
                            v.extend(run.drain(..).map(El::Plain));
                        }
                        v.push(o.clone());
                    }
                }
            }
            if run.len() >= 2 {
                v.push(El::Ov(run));
            } else {
                v.extend(run.into_iter().map(El::Plain));
            }
            if rng.coin() {
                v.push(gen_el(rng, big));
            }
            v
        }
        5 => {
            // the chorded spelling changed: S-(a b) <-> S-a b <-> S-a S-b
            let mut v = vec![];
            for e in &base.els {
                match e {
                    El::Mod { mods, keys, group: true } if keys.len() > 1 => {
                        if rng.coin() {
                            for k in keys {
                                v.push(El::Mod { mods: mods.clone(), keys: vec![*k], group: false });
                            }
                        } else {
                            v.push(El::Mod { mods: mods.clone(), keys: vec![keys[0]], group: false });
                            v.extend(keys[1..].iter().map(|k| El::Plain(*k)));
                        }
                    }
                    o => v.push(o.clone()),
                }
            }
            if rng.coin() {
                v.push(gen_el(rng, big));
            }
            v
        }
        _ => {
            // same beginning, different end
            let mut v = ord.clone();
            v.pop();
            v.push(gen_el(rng, big));
            v
        }
    };
    if els.is_empty() {
        els.push(gen_el(rng, big));
    }
    if n_orderings(&els) > 720 {
        return gen_seq(rng, big);
    }
    Seq { els }
}

pub fn gen_table(rng: &mut Rng, big: bool) -> Table {
    let n = 2 + rng.usize(3);
    let mut seqs: Vec<Seq> = vec![gen_seq(rng, big)];
    while seqs.len() < n {
        if rng.chance(2, 5) {
            let b = rng.usize(seqs.len());
            let d = derive(rng, &seqs[b].clone(), big);
            seqs.push(d);
        } else {
            seqs.push(gen_seq(rng, big));
        }
    }
    if rng.coin() {
        rng.shuffle(&mut seqs);
    }
    Table { seqs }
}

fn p(k: &str) -> El {
    El::Plain(ALPHA.iter().position(|a| *a == k).expect("alpha") as u8)
}
fn o(ks: &[&str]) -> El {
    El::Ov(ks.iter().map(|k| ALPHA.iter().position(|a| a == k).expect("alpha") as u8).collect())
}
fn sg(ks: &[&str]) -> El {
    El::Mod { mods: vec![0], keys: ks.iter().map(|k| ALPHA.iter().position(|a| a == k).expect("alpha") as u8).collect(), group: ks.len() > 1 }
}
fn t(seqs: Vec<Vec<El>>) -> Table {
    Table { seqs: seqs.into_iter().map(|els| Seq { els }).collect() }
}

/// tables that are typed under all eight (mode, leader) combinations for every seed
pub fn fixed_tables() -> Vec<Table> {
    vec![
        // the guide's examples, transliterated to the key alphabet
        t(vec![vec![p("a"), p("b"), p("c")]]),
        t(vec![vec![p("a"), sg(&["c"])], vec![p("a"), sg(&["d"])], vec![sg(&["e", "b"])]]),
        t(vec![vec![o(&["a", "b", "c"])]]),
        // the repository's own overlap table (seq_sim_tests.rs)
        t(vec![vec![o(&["a", "b"])], vec![p("a"), p("b")], vec![o(&["c", "d"]), p("e")], vec![p("c"), p("d"), p("e")], vec![o(&["c", "d"]), o(&["f", "g"])], vec![o(&["c", "d"]), p("f"), p("g")], vec![p("c"), p("d"), o(&["f", "g"])]]),
        t(vec![vec![o(&["a", "b"])], vec![p("a"), p("b")]]),
        // known finding #20
        t(vec![vec![o(&["b", "e"])], vec![p("b")]]),
        t(vec![vec![p("a"), p("b")], vec![o(&["a", "b"]), p("c")]]),
        // known finding #21
        t(vec![vec![p("e"), p("c"), sg(&["d", "d", "d"])], vec![o(&["e", "c"]), p("e")]]),
        t(vec![vec![o(&["c", "d"]), p("e"), p("f")], vec![p("c"), p("d"), p("e"), p("a")]]),
        // found by this check: overlap group of another sequence matched by taps under a held modifier
        t(vec![vec![sg(&["a", "b", "c"])], vec![sg(&["a"]), o(&["b", "c"])]]),
        // group inside larger group
        t(vec![vec![o(&["a", "b"])], vec![o(&["a", "b", "c"])]]),
        // chords
        t(vec![vec![sg(&["a", "b"])], vec![sg(&["a"]), p("b")], vec![sg(&["a"]), sg(&["b"])]]),
        t(vec![vec![El::Mod { mods: vec![1, 0], keys: vec![0], group: false }], vec![El::Mod { mods: vec![0, 1], keys: vec![0], group: false }], vec![El::Mod { mods: vec![1], keys: vec![0, 1], group: true }]]),
        // big groups
        t(vec![vec![o(&["a", "b", "c", "d", "e", "f"])], vec![p("a"), o(&["b", "c", "d", "e"])]]),
        t(vec![vec![o(&["a", "b"]), o(&["c", "d"]), o(&["e", "f"])], vec![p("f"), o(&["a", "b", "c"])]]),
        // conflicting on purpose (must be rejected)
        t(vec![vec![p("a"), p("b")], vec![p("a")]]),
        t(vec![vec![p("a")], vec![p("a"), p("b")]]),
        t(vec![vec![o(&["a", "b"])], vec![o(&["b", "a"]), p("c")]]),
        t(vec![vec![sg(&["a"])], vec![sg(&["a", "b"])]]),
    ]
}

// ---------------------------------------------------------------- modifier family
//
// Tables whose sequences list bare modifier keys as ordinary members, `(lsft a b)`, next to
// chorded members, typed with the modifier tapped or kept down, and with an unrelated modifier
// still down while the first key(s) are typed. The model is the matching rule of the guide's
// `sequence-backtrack-modcancel` section (and the design note it links to): a press is seen with
// the modifiers that are down at that moment; with `yes` (the default) a press that does not match
// as seen is tried again without modifiers; with `no` it is not.

#[derive(Clone, Debug, PartialEq, Eq)]
pub struct Plan {
    /// per element; for a bare modifier: over how many following elements it stays down
    /// (0 = tapped, usize::MAX = until the whole sequence has been typed); for a chorded member:
    /// over how many following elements its modifiers are released late
    pub hold: Vec<usize>,
    /// unrelated modifier (index into `BARE`) pressed before the leader and released right after
    /// this many presses of the sequence (usize::MAX = after everything)
    pub linger: Option<(u8, usize)>,
}

pub struct Typing {
    /// key pressed before the leader
    pub pre: Option<String>,
    pub steps: Vec<(bool, String)>,
    /// the presses of `steps` as a matcher can see them
    toks: Vec<Tok>,
    pub any_bare_held: bool,
    pub any_chord_mod_late: bool,
}

fn bare_class(name: &str) -> Option<u8> {
    BARE.iter().find(|b| b.0 == name).map(|b| b.1)
}

fn el_presses(e: &El) -> Vec<String> {
    match e {
        El::Plain(k) => vec![ALPHA[*k as usize].to_string()],
        El::Bare(m) => vec![BARE[*m as usize].0.to_string()],
        El::Mod { mods, keys, .. } => mods.iter().map(|m| MODS[*m as usize].1.to_string()).chain(keys.iter().map(|k| ALPHA[*k as usize].to_string())).collect(),
        El::Ov(ks) => ks.iter().map(|k| ALPHA[*k as usize].to_string()).collect(),
    }
}

pub fn plan_typing(els: &[El], plan: &Plan) -> Typing {
    let mut steps: Vec<(bool, String)> = vec![];
    // bare modifiers that are being kept down: (name, index of the last element they stay down over)
    let mut down: Vec<(String, usize)> = vec![];
    let mut any_bare_held = false;
    let mut any_chord_mod_late = false;
    for (i, e) in els.iter().enumerate() {
        let needs = el_presses(e);
        // a key cannot be pressed while it is down
        let mut j = 0;
        while j < down.len() {
            if needs.contains(&down[j].0) {
                steps.push((false, down.remove(j).0));
            } else {
                j += 1;
            }
        }
        match e {
            El::Bare(m) => {
                let n = BARE[*m as usize].0.to_string();
                steps.push((true, n.clone()));
                let ext = plan.hold.get(i).copied().unwrap_or(0);
                if ext == 0 || i + 1 == els.len() {
                    steps.push((false, n));
                } else {
                    any_bare_held = true;
                    down.push((n, i.saturating_add(ext)));
                }
            }
            El::Mod { mods, .. } if plan.hold.get(i).copied().unwrap_or(0) > 0 && i + 1 < els.len() => {
                let mut st = user_steps(std::slice::from_ref(e), false);
                st.truncate(st.len() - mods.len());
                steps.extend(st);
                any_chord_mod_late = true;
                for m in mods {
                    down.push((MODS[*m as usize].1.to_string(), i.saturating_add(plan.hold[i])));
                }
            }
            other => steps.extend(user_steps(std::slice::from_ref(other), false)),
        }
        let mut j = down.len();
        while j > 0 {
            j -= 1;
            if down[j].1 <= i {
                steps.push((false, down.remove(j).0));
            }
        }
    }
    for (n, _) in down.into_iter().rev() {
        steps.push((false, n));
    }
    let mut pre = None;
    if let Some((u, after)) = plan.linger {
        let name = BARE[u as usize].0.to_string();
        let mut np = 0usize;
        let mut at = steps.len();
        for (i, s) in steps.iter().enumerate() {
            if s.0 {
                np += 1;
                if np == after {
                    at = i + 1;
                    break;
                }
            }
        }
        steps.insert(at, (false, name.clone()));
        pre = Some(name);
    }
    // what a matcher can see: every press with the modifier classes that are down (a modifier key
    // counts itself)
    let mut classes: Vec<u8> = vec![];
    if let Some(c) = pre.as_deref().and_then(bare_class) {
        classes.push(c);
    }
    let mut toks = vec![];
    for (is_press, key) in &steps {
        let c = bare_class(key);
        if *is_press {
            if let Some(c) = c {
                classes.push(c);
            }
            let mut mods = classes.clone();
            mods.sort();
            mods.dedup();
            toks.push(Tok { key: key.clone(), mods });
        } else if let Some(c) = c {
            if let Some(p) = classes.iter().position(|x| *x == c) {
                classes.remove(p);
            }
        }
    }
    Typing { pre, steps, toks, any_bare_held, any_chord_mod_late }
}

#[derive(Clone, Copy, Debug, PartialEq, Eq)]
pub enum Verdict {
    /// the typed presses match the sequence and nothing else: its virtual key is tapped once
    Fires,
    /// the typed presses match no sequence (and no part of them does): no virtual key
    Unmatchable,
    /// not judged; the reason is counted
    Skip(&'static str),
}

fn tok_match(def: &Tok, typed: &Tok, modcancel: bool) -> bool {
    def.key == typed.key && (def.mods == typed.mods || (modcancel && def.mods.is_empty()))
}

fn def_toks(q: &Seq) -> Vec<Tok> {
    q.els.iter().flat_map(el_tokens).collect()
}

impl Table {
    pub fn has_bare_members(&self) -> bool {
        self.seqs.iter().any(|q| q.els.iter().any(|e| matches!(e, El::Bare(_))))
    }
    pub fn has_overlap_groups(&self) -> bool {
        self.seqs.iter().any(|q| q.els.iter().any(|e| matches!(e, El::Ov(_))))
    }
    /// does the sequence list a right-hand modifier whose presses are reported as the left-hand key?
    pub fn has_right_hand_bare(&self, si: usize) -> bool {
        self.seqs[si].els.iter().any(|e| matches!(e, El::Bare(m) if BARE[*m as usize].2))
    }
    /// modifier classes the sequence uses in any way
    pub fn classes_used(&self, si: usize) -> Vec<u8> {
        let mut v = vec![];
        for e in &self.seqs[si].els {
            match e {
                El::Bare(m) => v.push(BARE[*m as usize].1),
                El::Mod { mods, .. } => v.extend(mods.iter().copied()),
                _ => {}
            }
        }
        v.sort();
        v.dedup();
        v
    }
    /// some sequence begins with this key (as a bare member or as the modifier of a chord)
    pub fn some_seq_begins_with_key(&self, name: &str) -> bool {
        self.seqs.iter().any(|q| def_toks(q).first().map(|t| t.key == name).unwrap_or(false))
    }

    /// What must typing `ty` (a typing of sequence `si`) do, by the documented matching rule?
    /// Judged only where the rule decides it whatever the order in which alternatives are tried.
    pub fn verdict(&self, si: usize, ty: &Typing, modcancel: bool) -> Verdict {
        let t = &ty.toks;
        let all: Vec<Vec<Tok>> = self.seqs.iter().map(def_toks).collect();
        let covers = |d: &[Tok], from: usize, n: usize, mc: bool| -> bool { (0..n).all(|i| tok_match(&d[i], &t[from + i], mc)) };
        for (x, d) in all.iter().enumerate() {
            // another sequence could (with modifiers cancelled) complete on these presses, or part of
            // them (the matcher may drop keys from the front), or swallow them as its beginning
            for from in 0..t.len() {
                if x == si && from == 0 {
                    continue;
                }
                if d.len() <= t.len() - from && covers(d, from, d.len(), true) {
                    return Verdict::Skip(if from == 0 { "ambiguous_other_seq_matches" } else { "ambiguous_part_of_typing_matches" });
                }
            }
            if x != si && d.len() > t.len() && covers(d, 0, t.len(), true) {
                return Verdict::Skip("ambiguous_typing_begins_other_seq");
            }
        }
        let d = &all[si];
        if d.len() != t.len() || !covers(d, 0, d.len(), modcancel) {
            return Verdict::Unmatchable;
        }
        // a press that must be read without its modifiers while a later press must be read with
        // them: decided only if nothing in the table could take the earlier press as seen
        let kept_after = |q: usize| (q + 1..t.len()).any(|p| !t[p].mods.is_empty() && d[p].mods == t[p].mods);
        for q in 0..t.len() {
            if !t[q].mods.is_empty() && d[q].mods.is_empty() && kept_after(q) && all.iter().any(|x| x.len() > q && x[q] == t[q]) {
                return Verdict::Skip("reading_order_dependent");
            }
        }
        Verdict::Fires
    }
}

fn gen_mf_el(rng: &mut Rng, first: bool) -> El {
    let k = |rng: &mut Rng| rng.below(ALPHA.len() as u64) as u8;
    match rng.below(100) {
        0..=44 => El::Plain(k(rng)),
        x if x < if first { 80 } else { 65 } => {
            // mostly the usual left-hand keys; sometimes altgr or a right-hand twin
            let m = match rng.below(20) {
                0..=6 => 0,
                7..=11 => 1,
                12..=13 => 2,
                14..=15 => 3,
                16..=18 => 4,
                _ => 5 + rng.below(3) as u8,
            };
            El::Bare(m)
        }
        _ => {
            let nm = if rng.chance(1, 5) { 3 } else { 2 };
            let m = rng.below(nm) as u8;
            let mut mods = vec![m];
            if rng.chance(1, 8) {
                let m2 = rng.below(3) as u8;
                if m2 != m {
                    mods.push(m2);
                }
            }
            if rng.chance(2, 5) {
                let n = 2 + rng.usize(2);
                El::Mod { mods: vec![m], keys: (0..n).map(|_| k(rng)).collect(), group: true }
            } else {
                El::Mod { mods, keys: vec![k(rng)], group: false }
            }
        }
    }
}

fn gen_mf_seq(rng: &mut Rng) -> Seq {
    let n = 1 + rng.usize(4);
    Seq { els: (0..n).map(|i| gen_mf_el(rng, i == 0)).collect() }
}

/// a relative of `base`: chorded <-> bare spelling of the same presses, a modifier put in front, ...
fn derive_mf(rng: &mut Rng, base: &Seq) -> Seq {
    let mut els: Vec<El> = vec![];
    match rng.below(6) {
        0 => {
            // chords respelled with the bare modifier key: S-(a b) -> lsft a b
            for e in &base.els {
                match e {
                    El::Mod { mods, keys, .. } => {
                        els.extend(mods.iter().map(|m| El::Bare(*m)));
                        els.extend(keys.iter().map(|k| El::Plain(*k)));
                    }
                    o => els.push(o.clone()),
                }
            }
            if els == base.els {
                els.push(gen_mf_el(rng, false));
            }
        }
        1 => {
            // bare modifier + following plain keys respelled as a chord: lsft a b -> S-(a b) / S-a b
            let mut i = 0;
            while i < base.els.len() {
                match (&base.els[i], base.els.get(i + 1)) {
                    (El::Bare(m), Some(El::Plain(k))) if (*m as usize) < MODS.len() => {
                        let mut keys = vec![*k];
                        i += 2;
                        if rng.coin() {
                            while let Some(El::Plain(k2)) = base.els.get(i) {
                                keys.push(*k2);
                                i += 1;
                            }
                        }
                        let group = keys.len() > 1;
                        els.push(El::Mod { mods: vec![*m], keys, group });
                    }
                    (o, _) => {
                        els.push(o.clone());
                        i += 1;
                    }
                }
            }
            if els == base.els {
                els.insert(0, El::Bare(rng.below(N_BARE_LEFT as u64) as u8));
            }
        }
        2 => {
            // a bare modifier put in front
            els = base.els.clone();
            els.insert(0, El::Bare(rng.below(N_BARE_LEFT as u64) as u8));
        }
        3 => {
            // same beginning, different end
            els = base.els.clone();
            els.pop();
            els.push(gen_mf_el(rng, els.is_empty()));
        }
        4 => {
            // extension
            els = base.els.clone();
            els.push(gen_mf_el(rng, false));
        }
        _ => {
            // the modifiers dropped: the same keys, plain
            for e in &base.els {
                match e {
                    El::Mod { keys, .. } => els.extend(keys.iter().map(|k| El::Plain(*k))),
                    El::Bare(_) => {}
                    o => els.push(o.clone()),
                }
            }
            if els.is_empty() || els == base.els {
                els.push(gen_mf_el(rng, els.is_empty()));
            }
        }
    }
    els.truncate(5);
    Seq { els }
}

pub fn gen_mf_table(rng: &mut Rng) -> Table {
    let n = 1 + rng.usize(4);
    let mut seqs: Vec<Seq> = vec![gen_mf_seq(rng)];
    while seqs.len() < n {
        if rng.chance(2, 5) {
            let b = rng.usize(seqs.len());
            let d = derive_mf(rng, &seqs[b].clone());
            seqs.push(d);
        } else {
            seqs.push(gen_mf_seq(rng));
        }
    }
    if rng.coin() {
        rng.shuffle(&mut seqs);
    }
    Table { seqs }
}

/// Typings of one sequence: canonical; every bare modifier kept down to the end; single bare
/// modifiers kept down over the next element(s); the modifier of a chorded member released only
/// after the next member; an unrelated modifier still down while the first key / the first keys /
/// everything is typed; both together.
pub fn mf_plans(table: &Table, si: usize, rng: &mut Rng) -> Vec<Plan> {
    let els = &table.seqs[si].els;
    let n = els.len();
    let tap = vec![0usize; n];
    let mut v = vec![Plan { hold: tap.clone(), linger: None }];
    let bare_at: Vec<usize> = (0..n).filter(|i| matches!(els[*i], El::Bare(_))).collect();
    let mut all_held = None;
    if !bare_at.is_empty() {
        let mut h = tap.clone();
        for i in &bare_at {
            h[*i] = usize::MAX;
        }
        all_held = Some(h.clone());
        v.push(Plan { hold: h, linger: None });
        for _ in 0..2 {
            let mut h = tap.clone();
            h[*rng.pick(&bare_at)] = 1 + rng.usize(2);
            v.push(Plan { hold: h, linger: None });
        }
    }
    let chord_at: Vec<usize> = (0..n.saturating_sub(1)).filter(|i| matches!(els[*i], El::Mod { .. })).collect();
    if !chord_at.is_empty() {
        let mut h = tap.clone();
        h[*rng.pick(&chord_at)] = 1;
        v.push(Plan { hold: h, linger: None });
    }
    let used = table.classes_used(si);
    let mut free: Vec<u8> = (0..N_BARE_LEFT as u8).filter(|u| !used.contains(&BARE[*u as usize].1)).collect();
    rng.shuffle(&mut free);
    let n_presses: usize = els.iter().map(|e| e.n_tokens()).sum();
    if let Some(u) = free.first().copied() {
        v.push(Plan { hold: tap.clone(), linger: Some((u, 1)) });
        v.push(Plan { hold: tap.clone(), linger: Some((u, usize::MAX)) });
        if let Some(h) = all_held {
            v.push(Plan { hold: h, linger: Some((u, 1)) });
        }
    }
    if let Some(u) = free.get(1).copied() {
        v.push(Plan { hold: tap.clone(), linger: Some((u, 1 + rng.usize(n_presses.max(1)))) });
    }
    let mut out: Vec<Plan> = vec![];
    let mut seen: Vec<(Option<String>, Vec<(bool, String)>)> = vec![];
    for p in v {
        let ty = plan_typing(els, &p);
        let key = (ty.pre, ty.steps);
        if !seen.contains(&key) {
            seen.push(key);
            out.push(p);
        }
    }
    out
}

fn b(name: &str) -> El {
    El::Bare(BARE.iter().position(|x| x.0 == name).expect("bare") as u8)
}
fn ch(m: u8, ks: &[&str]) -> El {
    El::Mod { mods: vec![m], keys: ks.iter().map(|k| ALPHA.iter().position(|a| a == k).expect("alpha") as u8).collect(), group: ks.len() > 1 }
}

/// modifier-family tables typed under all (mode, leader) combinations and all three settings of
/// sequence-backtrack-modcancel for every seed
pub fn mf_fixed_tables() -> Vec<Table> {
    vec![
        // the guide's example for sequence-backtrack-modcancel
        t(vec![vec![b("lsft"), p("a"), p("b")], vec![sg(&["c", "d"])]]),
        t(vec![vec![b("lsft"), p("a"), p("b")]]),
        t(vec![vec![b("lctl"), p("a")], vec![ch(1, &["b"]), p("c")]]),
        t(vec![vec![p("a"), b("lsft"), p("b")], vec![sg(&["a"]), p("b")]]),
        // nothing modified in the table: only the unrelated-modifier typings differ from the plain family
        t(vec![vec![p("a"), p("b")], vec![p("c")]]),
        t(vec![vec![p("a"), p("b")], vec![sg(&["a"]), p("c")], vec![ch(1, &["b", "a"])]]),
        // a later press read as seen after an earlier one read without modifiers
        t(vec![vec![b("lsft"), p("a"), sg(&["b"])], vec![p("a"), ch(1, &["b"])]]),
        t(vec![vec![b("lsft"), b("lctl"), p("a")], vec![El::Mod { mods: vec![1, 0], keys: vec![1], group: false }]]),
        t(vec![vec![b("lmet"), p("a")], vec![p("a"), b("lmet")], vec![b("lalt"), b("lalt")]]),
        t(vec![vec![b("ralt"), p("f")], vec![b("lalt"), p("f")]]),
        // the same presses spelled both ways
        t(vec![vec![b("lsft"), p("a"), p("b")], vec![sg(&["a", "b"])], vec![sg(&["a"]), p("c")]]),
        // right-hand twins as members
        t(vec![vec![b("rctl"), p("e")], vec![p("a"), b("rsft")]]),
        t(vec![vec![b("rsft"), p("a")], vec![b("lsft"), p("a")]]),
    ]
}
