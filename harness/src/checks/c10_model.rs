//! C10 helper: expression tree, renderer, reference evaluator, shape enumeration.
//! Written from docs/config.adoc (switch / fork) and the doc comments on the timing opcodes.

use crate::core::rng::Rng;

#[derive(Clone, Copy, Debug, PartialEq, Eq)]
pub enum Inp {
    /// index into U.keys
    Real(usize),
    /// index into U.vkeys
    Virt(usize),
}

#[derive(Clone, Debug, PartialEq, Eq)]
pub enum E {
    Or(Vec<E>),
    And(Vec<E>),
    Not(Vec<E>),
    Key(usize),
    KeyHist(usize, u8),
    /// recency 1..=8, lt?, milliseconds
    Timing(u8, bool, u16),
    Input(Inp),
    InputHist(Inp, u8),
    Layer(u16),
    BaseLayer(u16),
}

/// names the expressions may mention
#[derive(Clone, Debug)]
pub struct U {
    /// (name in the config, OS code)
    pub keys: Vec<(String, u16)>,
    pub vkeys: Vec<String>,
    pub layers: Vec<String>,
}

/// one truth assignment: everything `Switch::actions` is given
#[derive(Clone, Debug, Default)]
pub struct St {
    pub active: Vec<u16>,
    pub coords: Vec<(u8, u16)>,
    /// most recent first: (code, age in ticks)
    pub hk: Vec<(u16, u16)>,
    pub hi: Vec<((u8, u16), u16)>,
    /// first = active layer
    pub layers: Vec<u16>,
    pub base: u16,
}

/// documented lossy rounding of key-timing thresholds: exact up to 255, 8 ms steps (rounded down)
/// from 256, 128 ms steps (rounded down) from 2304
pub fn q(t: u16) -> u16 {
    if t <= 255 {
        t
    } else if t <= 2303 {
        255 + (t - 255) / 8 * 8
    } else {
        2303 + (t - 2303) / 128 * 128
    }
}

pub fn inp_coord(i: Inp, u: &U, vk_idx: &[u16]) -> (u8, u16) {
    match i {
        Inp::Real(k) => (0, u.keys[k].1),
        Inp::Virt(v) => (1, vk_idx[v]),
    }
}

pub fn eval(e: &E, u: &U, vk_idx: &[u16], st: &St) -> bool {
    match e {
        E::Or(v) => v.iter().any(|x| eval(x, u, vk_idx, st)),
        E::And(v) => v.iter().all(|x| eval(x, u, vk_idx, st)),
        E::Not(v) => !v.iter().any(|x| eval(x, u, vk_idx, st)),
        E::Key(k) => st.active.contains(&u.keys[*k].1),
        E::KeyHist(k, r) => st.hk.get(*r as usize - 1).map(|h| h.0 == u.keys[*k].1).unwrap_or(false),
        E::Timing(r, lt, t) => st
            .hk
            .get(*r as usize - 1)
            .map(|h| if *lt { h.1 <= q(*t) } else { h.1 > q(*t) })
            .unwrap_or(false),
        E::Input(i) => st.coords.contains(&inp_coord(*i, u, vk_idx)),
        E::InputHist(i, r) => st.hi.get(*r as usize - 1).map(|h| h.0 == inp_coord(*i, u, vk_idx)).unwrap_or(false),
        E::Layer(l) => st.layers.first().map(|x| x == l).unwrap_or(false),
        E::BaseLayer(l) => st.base == *l,
    }
}

/// the outer-most list: true if any item is true; the empty list always passes
pub fn eval_top(items: &[E], u: &U, vk_idx: &[u16], st: &St) -> bool {
    items.is_empty() || items.iter().any(|x| eval(x, u, vk_idx, st))
}

/// indices of the cases that fire, in order
pub fn firing(cases: &[(Vec<E>, bool)], u: &U, vk_idx: &[u16], st: &St) -> Vec<usize> {
    let mut out = vec![];
    for (i, (items, brk)) in cases.iter().enumerate() {
        if eval_top(items, u, vk_idx, st) {
            out.push(i);
            if *brk {
                break;
            }
        }
    }
    out
}

fn render_inp(i: Inp, u: &U, s: &mut String) {
    match i {
        Inp::Real(k) => {
            s.push_str("real ");
            s.push_str(&u.keys[k].0);
        }
        Inp::Virt(v) => {
            s.push_str("virtual ");
            s.push_str(&u.vkeys[v]);
        }
    }
}

pub fn render(e: &E, u: &U, s: &mut String) {
    let list = |name: &str, v: &Vec<E>, s: &mut String| {
        s.push('(');
        s.push_str(name);
        for x in v {
            s.push(' ');
            render(x, u, s);
        }
        s.push(')');
    };
    match e {
        E::Or(v) => list("or", v, s),
        E::And(v) => list("and", v, s),
        E::Not(v) => list("not", v, s),
        E::Key(k) => s.push_str(&u.keys[*k].0),
        E::KeyHist(k, r) => s.push_str(&format!("(key-history {} {})", u.keys[*k].0, r)),
        E::Timing(r, lt, t) => {
            let c = match (*lt, t % 2) {
                (true, 0) => "lt",
                (true, _) => "less-than",
                (false, 0) => "gt",
                (false, _) => "greater-than",
            };
            s.push_str(&format!("(key-timing {r} {c} {t})"))
        }
        E::Input(i) => {
            s.push_str("(input ");
            render_inp(*i, u, s);
            s.push(')');
        }
        E::InputHist(i, r) => {
            s.push_str("(input-history ");
            render_inp(*i, u, s);
            s.push_str(&format!(" {r})"));
        }
        E::Layer(l) => s.push_str(&format!("(layer {})", u.layers[*l as usize])),
        E::BaseLayer(l) => s.push_str(&format!("(base-layer {})", u.layers[*l as usize])),
    }
}

pub fn render_top(items: &[E], u: &U) -> String {
    let mut s = String::from("(");
    for (i, x) in items.iter().enumerate() {
        if i > 0 {
            s.push(' ');
        }
        render(x, u, &mut s);
    }
    s.push(')');
    s
}

/// structure with leaves abstracted to their kind (for signatures)
pub fn skeleton(e: &E, s: &mut String) {
    let list = |name: &str, v: &Vec<E>, s: &mut String| {
        s.push('(');
        s.push_str(name);
        for x in v {
            s.push(' ');
            skeleton(x, s);
        }
        s.push(')');
    };
    match e {
        E::Or(v) => list("or", v, s),
        E::And(v) => list("and", v, s),
        E::Not(v) => list("not", v, s),
        E::Key(_) => s.push('K'),
        E::KeyHist(..) => s.push_str("KH"),
        E::Timing(_, true, _) => s.push_str("LT"),
        E::Timing(_, false, _) => s.push_str("GT"),
        E::Input(_) => s.push_str("IN"),
        E::InputHist(..) => s.push_str("IH"),
        E::Layer(_) => s.push_str("LY"),
        E::BaseLayer(_) => s.push_str("BL"),
    }
}

pub fn skeleton_top(items: &[E]) -> String {
    let mut s = String::from("(");
    for (i, x) in items.iter().enumerate() {
        if i > 0 {
            s.push(' ');
        }
        skeleton(x, &mut s);
    }
    s.push(')');
    s
}

pub fn depth(e: &E) -> usize {
    match e {
        E::Or(v) | E::And(v) | E::Not(v) => 1 + v.iter().map(depth).max().unwrap_or(0),
        _ => 1,
    }
}
pub fn size(e: &E) -> usize {
    match e {
        E::Or(v) | E::And(v) | E::Not(v) => 1 + v.iter().map(size).sum::<usize>(),
        _ => 1,
    }
}
pub fn timings(e: &E, out: &mut Vec<(u8, u16)>) {
    match e {
        E::Or(v) | E::And(v) | E::Not(v) => v.iter().for_each(|x| timings(x, out)),
        E::Timing(r, _, t) => out.push((*r, *t)),
        _ => {}
    }
}
pub fn leaf_kinds(e: &E, out: &mut [u64; 10]) {
    match e {
        E::Or(v) => {
            out[0] += 1;
            v.iter().for_each(|x| leaf_kinds(x, out))
        }
        E::And(v) => {
            out[1] += 1;
            v.iter().for_each(|x| leaf_kinds(x, out))
        }
        E::Not(v) => {
            out[2] += 1;
            v.iter().for_each(|x| leaf_kinds(x, out))
        }
        E::Key(_) => out[3] += 1,
        E::KeyHist(..) => out[4] += 1,
        E::Timing(..) => out[5] += 1,
        E::Input(_) => out[6] += 1,
        E::InputHist(..) => out[7] += 1,
        E::Layer(_) => out[8] += 1,
        E::BaseLayer(_) => out[9] += 1,
    }
}
pub const KIND_NAMES: [&str; 10] = ["or", "and", "not", "key", "key-history", "key-timing", "input", "input-history", "layer", "base-layer"];

/// thresholds on and around every compression edge
pub const EDGE_T: &[u16] = &[
    0, 1, 2, 100, 254, 255, 256, 257, 262, 263, 264, 270, 271, 272, 1000, 2294, 2295, 2296, 2302, 2303, 2304, 2305, 2430, 2431, 2432,
    2559, 2560, 5000, 32767, 32768, 65406, 65407, 65408, 65534, 65535,
];

pub struct GenOpts {
    pub max_depth: usize,
    pub leaf_w: [u32; 7],
    pub timing_pool: Vec<u16>,
    pub max_arity: usize,
}

pub fn gen_leaf(rng: &mut Rng, u: &U, o: &GenOpts) -> E {
    let kinds: Vec<(u32, usize)> = o.leaf_w.iter().enumerate().map(|(i, w)| (*w, i)).filter(|x| x.0 > 0).collect();
    let k = *rng.pick_weighted(&kinds);
    let rec = |rng: &mut Rng| -> u8 {
        if rng.chance(1, 3) {
            *rng.pick(&[1u8, 8])
        } else {
            rng.range(1, 8) as u8
        }
    };
    let inp = |rng: &mut Rng| -> Inp {
        if !u.vkeys.is_empty() && rng.coin() {
            Inp::Virt(rng.usize(u.vkeys.len()))
        } else {
            Inp::Real(rng.usize(u.keys.len()))
        }
    };
    match k {
        0 => E::Key(rng.usize(u.keys.len())),
        1 => E::KeyHist(rng.usize(u.keys.len()), rec(rng)),
        2 => {
            let t = if o.timing_pool.is_empty() || rng.chance(1, 6) { rng.below(65536) as u16 } else { *rng.pick(&o.timing_pool) };
            E::Timing(rec(rng), rng.coin(), t)
        }
        3 => E::Input(inp(rng)),
        4 => E::InputHist(inp(rng), rec(rng)),
        5 => E::Layer(rng.usize(u.layers.len()) as u16),
        _ => E::BaseLayer(rng.usize(u.layers.len()) as u16),
    }
}

/// random expression; `d` is the depth this node sits at (top-level items are depth 1)
pub fn gen_expr(rng: &mut Rng, u: &U, o: &GenOpts, d: usize, budget: &mut i64) -> E {
    *budget -= 1;
    // operators may sit at depth <= max_depth-1 so that their operands are at <= max_depth
    if d >= o.max_depth || *budget <= 0 || rng.chance(2, 5) {
        return gen_leaf(rng, u, o);
    }
    let n = 1 + rng.usize(o.max_arity);
    let v: Vec<E> = (0..n).map(|_| gen_expr(rng, u, o, d + 1, budget)).collect();
    match rng.usize(3) {
        0 => E::Or(v),
        1 => E::And(v),
        _ => E::Not(v),
    }
}

/// a chain of operators reaching exactly `max_depth`, with random siblings on the way
pub fn gen_deep(rng: &mut Rng, u: &U, o: &GenOpts, d: usize, budget: &mut i64) -> E {
    if d >= o.max_depth {
        return gen_leaf(rng, u, o);
    }
    let mut v = vec![];
    let n_before = rng.usize(3);
    for _ in 0..n_before {
        v.push(gen_expr(rng, u, o, d + 1, budget));
    }
    v.push(gen_deep(rng, u, o, d + 1, budget));
    for _ in 0..rng.usize(3) {
        v.push(gen_expr(rng, u, o, d + 1, budget));
    }
    match rng.usize(3) {
        0 => E::Or(v),
        1 => E::And(v),
        _ => E::Not(v),
    }
}

// ------------------------------------------------------------------ shape enumeration

#[derive(Clone, Debug)]
pub enum Sh {
    Leaf(u8),
    Op(u8, Vec<Sh>),
}

/// counts of trees (t) and non-empty forests (f) by size over 3 leaf symbols and 3 operators with
/// arity >= 1
pub struct Counts {
    pub t: Vec<u64>,
    pub f: Vec<u64>,
}

pub fn counts(n: usize) -> Counts {
    let mut t = vec![0u64; n + 1];
    let mut f = vec![0u64; n + 1];
    f[0] = 1; // empty remainder
    for m in 1..=n {
        t[m] = if m == 1 { 3 } else { 3 * f[m - 1] };
        let mut s = 0u64;
        for k in 1..=m {
            s += t[k] * f[m - k];
        }
        f[m] = s;
    }
    Counts { t, f }
}

pub fn unrank_tree(n: usize, r: u64, c: &Counts) -> Sh {
    if n == 1 {
        return Sh::Leaf(r as u8);
    }
    let per = c.f[n - 1];
    Sh::Op((r / per) as u8, unrank_forest(n - 1, r % per, c))
}

pub fn unrank_forest(m: usize, mut r: u64, c: &Counts) -> Vec<Sh> {
    if m == 0 {
        return vec![];
    }
    for k in 1..=m {
        let rest = c.f[m - k];
        let cnt = c.t[k] * rest;
        if r < cnt {
            let mut v = vec![unrank_tree(k, r / rest, c)];
            v.extend(unrank_forest(m - k, r % rest, c));
            return v;
        }
        r -= cnt;
    }
    unreachable!("rank out of range")
}

pub fn sh_to_e(s: &Sh, leaves: &[E; 3]) -> E {
    match s {
        Sh::Leaf(i) => leaves[*i as usize].clone(),
        Sh::Op(o, v) => {
            let v: Vec<E> = v.iter().map(|x| sh_to_e(x, leaves)).collect();
            match o {
                0 => E::Or(v),
                1 => E::And(v),
                _ => E::Not(v),
            }
        }
    }
}
