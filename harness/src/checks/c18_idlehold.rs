//! C18 part G: on-idle while a hold-for-duration is pending.
//!
//! kanata is not idle while it is itself in the middle of a timed virtual-key operation: the idle
//! time of `on-idle D` starts when the key held by `hold-for-duration L` has been released again,
//! whatever that virtual key carries - a plain key (whose output being down keeps kanata busy
//! anyway), a layer-while-held action or a macro (nothing is down for the OS during most of the
//! hold). Keys: 0 `(multi (hold-for-duration L vh) (on-idle D tap-vkey k1))`, 1
//! `(hold-for-duration L vh)`, 2 a plain key (on the layer held by a layer virtual key it sends
//! another key, which shows the layer in the OS stream), 3 `(on-idle D tap-vkey k1)`. Every
//! millisecond is driven like an iteration of the processing loop (blocking predicate - it advances
//! the idle count -, event, tick) or with the predicate between event and tick; compared tick by tick
//! with a model that combines the hold-for-duration and on-idle models of part B/C.

use super::{Order, STRIDE};
use crate::core::sim::{code_name, osc, render_hist, Ev, OutKind, Sim};
use crate::core::{CaseOut, Ctx};
use serde_json::json;
use std::collections::{BTreeSet, VecDeque};

#[derive(Clone, Copy, PartialEq, Eq, Debug)]
pub enum HKind {
    Key,
    Layer,
    Macro,
}
impl HKind {
    fn name(self) -> &'static str {
        match self {
            HKind::Key => "key",
            HKind::Layer => "layer",
            HKind::Macro => "macro",
        }
    }
}

#[derive(Clone, Debug)]
pub struct ConfG {
    pub d: u64,
    pub l: u64,
    pub kind: HKind,
    pub order: Order,
}

const GKEYS: [&str; 4] = ["h", "j", "z", "i"];
const G_IDLE_OUT: &str = "1";
const G_HOLD_OUT: &str = "2";
const G_MACRO_OUT: &str = "y";
const G_NAV_OUT: &str = "9";
/// output indices: 0 on-idle virtual key, 1 plain key, 2 plain key on the held layer, 3 the
/// hold-for-duration virtual key's key output, 4 its macro's output, 5 the layer (pseudo output)
const LAYER_IX: u8 = 5;

impl ConfG {
    pub fn text(&self) -> String {
        let vh = match self.kind {
            HKind::Key => G_HOLD_OUT.to_string(),
            HKind::Layer => "(layer-while-held nav)".to_string(),
            HKind::Macro => format!("(macro {G_MACRO_OUT})"),
        };
        let (d, l) = (self.d, self.l);
        format!(
            "(defcfg process-unmapped-keys yes)\n(defsrc {})\n(defvirtualkeys k1 {G_IDLE_OUT} vh {vh})\n(deflayer base (multi (hold-for-duration {l} vh) (on-idle {d} tap-vkey k1)) (hold-for-duration {l} vh) {} (on-idle {d} tap-vkey k1))\n(deflayer nav _ _ {G_NAV_OUT} _)\n",
            GKEYS.join(" "),
            GKEYS[2]
        )
    }
    pub fn label(&self) -> String {
        format!("on-idle+hold-for-duration|D{}|L{}|{}|{:?}", self.d, self.l, self.kind.name(), self.order)
    }
    fn gaps(&self) -> Vec<u64> {
        let (d, l) = (self.d, self.l);
        let mut g = vec![2, d - 1, d + 1, l - 1, l + 1, l + d - 1, l + d + 2];
        if l > d {
            g.push(l - d);
        }
        g.retain(|x| *x >= 2);
        g.sort();
        g.dedup();
        g
    }
    fn per(&self) -> u64 {
        self.gaps().len() as u64 * 4
    }
    /// a first tap of one of the four keys followed by up to n further taps
    pub fn space(&self, n: u32) -> u64 {
        4 * (0..=n).map(|k| self.per().pow(k)).sum::<u64>()
    }
    fn depth3_space(&self) -> u64 {
        4 * self.per().pow(3)
    }
    pub fn total(&self, ctx: &Ctx) -> u64 {
        self.space(2) + ctx.tier.sel(0, self.depth3_space().min(CAP_G3))
    }
    fn scen(&self, mut idx: u64, nmax: u32) -> Option<Vec<(u64, GE)>> {
        let gaps = self.gaps();
        let per = self.per();
        let first = (idx % 4) as u8;
        idx /= 4;
        let mut n = 0;
        loop {
            let b = per.pow(n);
            if idx < b {
                break;
            }
            idx -= b;
            n += 1;
            if n > nmax {
                return None;
            }
        }
        let mut evs = vec![(0, GE::P(first)), (1, GE::R(first))];
        let mut last_release = 1u64;
        for _ in 0..n {
            let g = gaps[(idx % gaps.len() as u64) as usize];
            idx /= gaps.len() as u64;
            let k = (idx % 4) as u8;
            idx /= 4;
            let t = last_release + g;
            // an on-idle key is held one tick, the others one or three (by position, so that both occur)
            let hold = if k == 1 || k == 2 { 1 + 2 * (g % 2) } else { 1 };
            evs.push((t, GE::P(k)));
            evs.push((t + hold, GE::R(k)));
            last_release = t + hold;
        }
        Some(evs)
    }
    pub fn pick(&self, i: u64) -> Option<Vec<(u64, GE)>> {
        let s2 = self.space(2);
        if i < s2 {
            return self.scen(i, 2);
        }
        let s3 = self.depth3_space();
        let j = i - s2;
        let sidx = if s3 > CAP_G3 { j.wrapping_mul(STRIDE) % s3 } else { j };
        let per = self.per();
        let idx = (1 + per + per * per + sidx / 4) * 4 + sidx % 4;
        self.scen(idx, 3)
    }
}

/// thorough tier: scenarios with three further taps beyond this many per configuration are sampled
const CAP_G3: u64 = 60_000;

pub fn configs_g() -> Vec<ConfG> {
    let mut v = vec![];
    for kind in [HKind::Layer, HKind::Macro, HKind::Key] {
        // hold outlasting the idle time (the case that matters), hold just longer, hold shorter
        for (d, l) in [(10, 25), (8, 9), (20, 7)] {
            v.push(ConfG { d, l, kind, order: Order::PredFirst });
        }
        v.push(ConfG { d: 10, l: 25, kind, order: Order::EventFirst });
    }
    v
}

#[derive(Clone, Copy, PartialEq, Eq, Debug)]
pub enum GE {
    P(u8),
    R(u8),
    IdlePress,
    IdleRelease,
    HoldPress,
    HoldRelease,
}

#[derive(Clone, Debug, PartialEq, Eq)]
struct GOut {
    at: u64,
    down: bool,
    key: u8,
}

#[derive(Default, Debug, Clone)]
struct GStats {
    episodes: u64,
    rearms: u64,
    firings: u64,
    /// blocking-predicate evaluations at which on-idle was waiting and the pending hold-for-duration
    /// was the ONLY thing that kept kanata from being idle
    held_back_only_by_pending_hold: u64,
    /// firings before which the idle count was held back that way for at least D evaluations since
    /// the last input event (counting through the hold would have fired earlier)
    firings_delayed_by_pending_hold: u64,
    /// firings while a hold is pending (must be 0 in the model)
    firings_during_hold: u64,
    /// first tick at which counting through the pending hold would have fired (0 = never)
    would_fire_early_at: u64,
}

fn model(c: &ConfG, evs: &[(u64, GE)], horizon: u64) -> (Vec<GOut>, GStats) {
    let mut outs = vec![];
    let mut st = GStats::default();
    let mut q: VecDeque<GE> = VecDeque::new();
    let mut next = 0;
    let mut armed = false;
    let mut counter = 0u64;
    // what the count would be if the pending hold did not keep kanata busy
    let mut shadow = 0u64;
    let mut held_back_run = 0u64;
    let mut deadline: Option<u64> = None;
    // output keys down: plain (either name), on-idle virtual key, hold virtual key's key
    let mut down = [false; 3];
    let mut layer_on = false;
    let mut plain_name = 1u8;
    // macro of the hold virtual key: (tick of ↓, tick of ↑)
    let mut macro_at: Option<(u64, u64)> = None;
    for tick in 1..=horizon {
        let predicate = |q: &VecDeque<GE>, down: &[bool; 3], deadline: &Option<u64>, macro_busy: bool, counter: &mut u64, shadow: &mut u64, held_back_run: &mut u64, st: &mut GStats| {
            let idle_but_hold = q.is_empty() && !down.iter().any(|x| *x) && !macro_busy;
            let idle = idle_but_hold && deadline.is_none();
            if !idle {
                *counter = 0;
            } else if armed {
                *counter += 1;
            }
            if !idle_but_hold {
                *shadow = 0;
            } else if armed {
                *shadow += 1;
                if *shadow >= c.d && st.would_fire_early_at == 0 && deadline.is_some() {
                    st.would_fire_early_at = tick;
                }
            }
            if armed && idle_but_hold && !idle {
                st.held_back_only_by_pending_hold += 1;
                *held_back_run += 1;
            }
        };
        let macro_busy = macro_at.map(|(a, b)| tick <= b + 1 && tick + 1 >= a).unwrap_or(false);
        if c.order == Order::PredFirst {
            predicate(&q, &down, &deadline, macro_busy, &mut counter, &mut shadow, &mut held_back_run, &mut st);
        }
        while next < evs.len() && evs[next].0 < tick {
            q.push_back(evs[next].1);
            next += 1;
            counter = 0;
            shadow = 0;
            held_back_run = 0;
        }
        if c.order == Order::EventFirst {
            predicate(&q, &down, &deadline, macro_busy, &mut counter, &mut shadow, &mut held_back_run, &mut st);
        }
        if let Some((a, b)) = macro_at {
            if tick == a {
                outs.push(GOut { at: tick, down: true, key: 4 });
            }
            if tick == b {
                outs.push(GOut { at: tick, down: false, key: 4 });
            }
        }
        if let Some(e) = q.pop_front() {
            let mut activate = |q: &mut VecDeque<GE>, st: &mut GStats| match deadline {
                Some(_) => {
                    st.rearms += 1;
                    deadline = Some(c.l);
                }
                None => {
                    q.push_back(GE::HoldPress);
                    deadline = Some(c.l);
                    st.episodes += 1;
                }
            };
            match e {
                GE::P(2) => {
                    down[0] = true;
                    plain_name = if layer_on { 2 } else { 1 };
                    outs.push(GOut { at: tick, down: true, key: plain_name });
                }
                GE::R(2) => {
                    down[0] = false;
                    outs.push(GOut { at: tick, down: false, key: plain_name });
                }
                GE::P(0) => {
                    activate(&mut q, &mut st);
                    armed = true;
                    counter = 0;
                    shadow = 0;
                    held_back_run = 0;
                }
                GE::P(1) => activate(&mut q, &mut st),
                GE::P(_) => {
                    armed = true;
                    counter = 0;
                    shadow = 0;
                    held_back_run = 0;
                }
                GE::R(_) => {}
                GE::IdlePress => {
                    down[1] = true;
                    outs.push(GOut { at: tick, down: true, key: 0 });
                }
                GE::IdleRelease => {
                    down[1] = false;
                    outs.push(GOut { at: tick, down: false, key: 0 });
                }
                GE::HoldPress => match c.kind {
                    HKind::Key => {
                        down[2] = true;
                        outs.push(GOut { at: tick, down: true, key: 3 });
                    }
                    HKind::Layer => {
                        layer_on = true;
                        outs.push(GOut { at: tick, down: true, key: LAYER_IX });
                    }
                    HKind::Macro => macro_at = Some((tick + 1, tick + 2)),
                },
                GE::HoldRelease => match c.kind {
                    HKind::Key => {
                        down[2] = false;
                        outs.push(GOut { at: tick, down: false, key: 3 });
                    }
                    HKind::Layer => {
                        layer_on = false;
                        outs.push(GOut { at: tick, down: false, key: LAYER_IX });
                    }
                    HKind::Macro => {}
                },
            }
        }
        if armed && counter >= c.d {
            q.push_back(GE::IdlePress);
            q.push_back(GE::IdleRelease);
            armed = false;
            st.firings += 1;
            if deadline.is_some() {
                st.firings_during_hold += 1;
            }
            if held_back_run >= c.d {
                st.firings_delayed_by_pending_hold += 1;
            }
            held_back_run = 0;
        }
        if let Some(x) = deadline {
            let x = x - 1;
            if x == 0 {
                q.push_back(GE::HoldRelease);
                deadline = None;
            } else {
                deadline = Some(x);
            }
        }
    }
    // the macro's events were pushed before the queued event of their tick
    outs.sort_by_key(|o| o.at);
    (outs, st)
}

fn names() -> [String; 5] {
    [code_name(osc(G_IDLE_OUT)), code_name(osc(GKEYS[2])), code_name(osc(G_NAV_OUT)), code_name(osc(G_HOLD_OUT)), code_name(osc(G_MACRO_OUT))]
}

fn render(v: &[GOut], nm: &[String; 5]) -> Vec<String> {
    v.iter()
        .map(|o| {
            let n = if o.key == LAYER_IX { "<layer nav>" } else { nm.get(o.key as usize).map(|s| s.as_str()).unwrap_or("<unexpected>") };
            format!("{}{}@{}", if o.down { "↓" } else { "↑" }, n, o.at)
        })
        .collect()
}

fn run(c: &ConfG, evs: &[(u64, GE)], horizon: u64, nm: &[String; 5]) -> (Vec<GOut>, Vec<String>, Vec<Ev>, bool, Vec<u64>) {
    let Ok(mut sim) = Sim::new(&c.text()) else {
        return (vec![], vec!["config rejected".into()], vec![], false, vec![]);
    };
    let mut hist = vec![];
    let mut outs = vec![];
    let mut raw = vec![];
    // ticks in which on-idle's key came down while a hold-for-duration was still pending
    let mut fired_during_hold = vec![];
    let mut next = 0;
    let mut gap = 0u32;
    let mut layer_on = false;
    for tick in 1..=horizon {
        if c.order == Order::PredFirst {
            let _ = sim.k.can_block_update_idle_waiting(1);
        }
        while next < evs.len() && evs[next].0 < tick {
            if gap > 0 {
                hist.push(Ev::T(gap));
                gap = 0;
            }
            match evs[next].1 {
                GE::P(k) => {
                    let code = osc(GKEYS[k as usize]);
                    sim.press(code);
                    hist.push(Ev::P(code));
                }
                GE::R(k) => {
                    let code = osc(GKEYS[k as usize]);
                    sim.release(code);
                    hist.push(Ev::R(code));
                }
                _ => {}
            }
            next += 1;
        }
        if c.order == Order::EventFirst {
            let _ = sim.k.can_block_update_idle_waiting(1);
        }
        let pending_before = !sim.k.vkeys_pending_release.is_empty();
        sim.tick();
        gap += 1;
        for o in sim.last() {
            raw.push(o.short());
            if o.redundant {
                continue;
            }
            let down = o.kind == OutKind::Down;
            let key = if !matches!(o.kind, OutKind::Down | OutKind::Up) || o.repress { 9 } else { nm.iter().position(|n| *n == o.name).map(|p| p as u8).unwrap_or(9) };
            if key == 0 && down && pending_before {
                fired_during_hold.push(o.at);
            }
            outs.push(GOut { at: o.at, down, key });
        }
        let on = sim.k.layout.b().current_layer() != 0;
        if on != layer_on {
            layer_on = on;
            outs.push(GOut { at: sim.now, down: on, key: LAYER_IX });
            raw.push(format!("{}<layer nav>@{}", if on { "↓" } else { "↑" }, sim.now));
        }
    }
    hist.push(Ev::T(gap));
    let ok = sim.os.all_up() && sim.is_idle() && sim.k.layout.b().current_layer() == 0;
    (outs, raw, hist, ok, fired_during_hold)
}

pub fn run_chunk(out: &mut CaseOut, ci: usize, a: u64, b: u64) {
    let confs = configs_g();
    let c = &confs[ci];
    let nm = names();
    let kind = c.kind.name();
    let mut reported: BTreeSet<String> = Default::default();
    for i in a..b {
        let Some(evs) = c.pick(i) else { continue };
        let horizon = evs.last().map(|e| e.0).unwrap_or(0) + 2 * c.l + 2 * c.d + 30;
        let (exp, st) = model(c, &evs, horizon);
        let (obs, raw, hist, ok, fired_during_hold) = run(c, &evs, horizon, &nm);
        out.inc("idle_hold_scenarios");
        out.inc(&format!("idle_hold_scenarios_{kind}_virtual_key"));
        if c.order == Order::PredFirst {
            out.inc("idle_hold_scenarios_loop_order");
        }
        out.count("idle_hold_episodes", st.episodes);
        out.count("idle_hold_rearms", st.rearms);
        out.count("idle_hold_firings", st.firings);
        out.count(&format!("idle_hold_count_held_back_only_by_pending_hold_{kind}_virtual_key"), st.held_back_only_by_pending_hold);
        out.count(&format!("idle_hold_firings_delayed_by_pending_hold_{kind}_virtual_key"), st.firings_delayed_by_pending_hold);
        if st.would_fire_early_at > 0 {
            out.inc(&format!("idle_hold_scenarios_where_counting_through_the_hold_fires_early_{kind}_virtual_key"));
        }
        out.tag(format!("{}|{}|{}|{}|{}|{}", c.label(), evs.len(), st.episodes, st.rearms, st.firings, st.firings_delayed_by_pending_hold));
        let cnt = |v: &[GOut], down: bool| v.iter().filter(|o| o.key == 0 && o.down == down).count();
        let mut sig: Option<(String, String)> = None;
        if !fired_during_hold.is_empty() {
            // the property in its plain form: no firing while the timed operation is still running
            sig = Some(("fired-while-hold-for-duration-pending".into(), format!("on-idle fired in tick {} while the key held by hold-for-duration had not been released yet", fired_during_hold[0])));
        } else if !ok {
            sig = Some(("stuck".into(), "a key / the layer stayed active or kanata did not become idle".into()));
        } else if obs != exp {
            let same_order = obs.len() == exp.len() && obs.iter().zip(&exp).all(|(x, y)| x.down == y.down && x.key == y.key);
            let class = if obs.iter().any(|o| o.key == 9) {
                "unexpected-output"
            } else if cnt(&obs, true) > cnt(&exp, true) {
                "fired-too-often-or-early"
            } else if cnt(&obs, true) < cnt(&exp, true) {
                "not-fired"
            } else if same_order {
                match obs.iter().zip(&exp).find(|(x, y)| x.at != y.at) {
                    Some((x, y)) if x.key == 0 && x.down => {
                        if x.at < y.at {
                            "fired-early"
                        } else {
                            "fired-late"
                        }
                    }
                    Some((x, y)) if (x.key == 3 || x.key == LAYER_IX) && !x.down => {
                        if x.at < y.at {
                            "hold-released-early"
                        } else {
                            "hold-released-late"
                        }
                    }
                    _ => "timing",
                }
            } else {
                "order"
            };
            sig = Some((class.into(), "the OS key stream (and layer activations) differ from the model's".into()));
        }
        if let Some((class, what)) = sig {
            let sig = format!("C18:on-idle+hold-for-duration:{class}:{kind}-virtual-key");
            if reported.insert(sig.clone()) {
                out.violate(
                    sig,
                    format!("{}: {what}", c.label()),
                    json!({"config": c.text(), "history": render_hist(&hist), "observed": raw, "expected": render(&exp, &nm), "note": if c.order == Order::PredFirst { "every millisecond is driven like one iteration of the processing loop: blocking predicate (it advances the idle count), the event if one is due, the tick" } else { "the blocking predicate is consulted between the event of a millisecond and its tick" }}),
                );
            }
        }
        if out.sample.is_none() && a == 0 && st.firings_delayed_by_pending_hold > 0 && evs.len() >= 4 {
            out.sample = Some(json!({"config": c.text(), "history": render_hist(&hist), "observed": raw, "expected": render(&exp, &nm)}));
        }
    }
}
