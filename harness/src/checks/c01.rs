//! C01 — no stuck output: once all physical keys are up, kanata releases everything, stops all
//! continuous output, emits nothing further and reports itself idle, within a bounded time.
//!
//! Oracle: end-state invariant monitor over the OS model (derived from the output stream only)
//! plus kanata's own idle predicates, after a drain bounded by a generous multiple of every
//! number written in the configuration.
//!
//! Workload: (1) hand-shaped stress configurations that reach the capacities named in the
//! property; (2) the family "several waiting actions started by ONE key press"
//! (`c01_multiwait.rs`): one key carries two to four tap-holds with different timeouts through
//! `switch` fallthrough cases (alone, next to a tap-hold / lazy tap-dance / `chord` in a `multi`,
//! mixed with immediate actions) or a `defchordsv2` chord's tap-hold fires while a home-row
//! tap-hold is pending, and the key's release is swept over every offset around each individual
//! timeout, alone and in the company of other keys; the monitor records from the layout's
//! waiting slots that several actions of one key were pending at once and that the key went up
//! between their decisions; (3) the whole non-latching grammar at random.

use crate::core::rng::Rng;
use crate::core::sim::{osc, render_hist, Ev, OutKind, Sim};
use crate::core::{CaseOut, Check, Ctx};
use crate::gen::{self, hist, GenCfg, Profile, K};
use serde_json::{json, Value};

#[path = "c01_multiwait.rs"]
mod multiwait;

pub struct C01Check;
pub static C01: C01Check = C01Check;

const QUIET: u64 = 50;

fn profile(rng: &mut Rng) -> Profile {
    let mut p = Profile::non_latching();
    // dynamic macros are judged by C19 (a recording that contains its own play key replays
    // forever, see findings); they are not generated here
    let _ = &rng;
    p.kinds.remove(&K::DynMacro);
    // rpt-any re-runs the stored action; when it sits inside the action that becomes the stored
    // one (in a tap-dance, tap-hold, fork ... of a multi) the configuration re-triggers itself
    // forever by construction, which is outside "bounded by the configured timeouts"
    p.kinds.remove(&K::RptAny);
    p.timeouts = vec![1, 2, 5, 20, 50, 120];
    p.max_depth = 3;
    // chords v2 are exercised by their own family below (chord actions and layer cells limited to
    // keys, output chords, layers and mouse actions); mixing them with the whole grammar still
    // produces rare stuck keys on the unchanged tree that were not triaged (DESIGN.md section 6)
    p.chords_v2 = false;
    p
}

/// chords v2 over a plain layout: random chord table, plain / chorded / layer / mouse actions
fn v2_config(rng: &mut Rng) -> GenCfg {
    let mut g = GenCfg::default();
    let nk = 3 + rng.usize(6);
    let idx = rng.subset(gen::PHYS.len(), nk);
    let keys: Vec<String> = idx.iter().map(|&i| gen::PHYS[i].to_string()).collect();
    let simple = |rng: &mut Rng| -> String {
        match rng.usize(10) {
            0 => format!("S-{}", gen::OUTKEYS[rng.usize(12)]),
            1 => "(layer-while-held l1)".into(),
            2 => rng.pick(&["mlft", "mrgt", "mwu"]).to_string(),
            3 => format!("(mwheel-down {} 120)", rng.pick(&[5u32, 20])),
            4 => "XX".into(),
            5 => format!("(multi lsft {})", gen::OUTKEYS[rng.usize(12)]),
            _ => gen::OUTKEYS[rng.usize(26)].to_string(),
        }
    };
    let l0: Vec<String> = keys.iter().map(|k| if rng.chance(2, 3) { k.clone() } else { simple(rng) }).collect();
    let l1: Vec<String> = keys.iter().map(|_| if rng.coin() { "_".to_string() } else { simple(rng) }).collect();
    let mut ch = String::new();
    let mut seen = std::collections::BTreeSet::new();
    let t = *rng.pick(&[2u32, 20, 50, 120]);
    for _ in 0..(1 + rng.usize(5)) {
        let n = 2 + rng.usize((nk - 1).min(3));
        let mut sel = rng.subset(nk, n.min(nk));
        sel.sort();
        if !seen.insert(sel.clone()) {
            continue;
        }
        let ks: Vec<String> = sel.iter().map(|&i| keys[i].clone()).collect();
        ch.push_str(&format!("  ({}) {} {} {} ({})\n", ks.join(" "), simple(rng), t, rng.pick(&["first-release", "all-released"]), if rng.chance(1, 5) { "l1" } else { "" }));
    }
    let red = *rng.pick(&[5u32, 0, 1, 20]);
    let idle = *rng.pick(&[5u32, 20, 100]);
    g.text = format!(
        "(defcfg concurrent-tap-hold yes rapid-event-delay {red} chords-v2-min-idle {idle})\n(defsrc {})\n(deflayer l0 {})\n(deflayer l1 {})\n(defchordsv2\n{})\n",
        keys.join(" "),
        l0.join(" "),
        l1.join(" "),
        ch
    );
    g.keys = keys;
    g.numbers = vec![t as u64, idle as u64, 20, 20];
    g.rapid_event_delay = red as u64;
    g.has_chords_v2 = true;
    g.kinds_used.insert("family:chordsv2-simple");
    g
}

struct Case {
    g: GenCfg,
    hists: Vec<(String, Vec<Ev>)>,
    /// this configuration may be driven with bursts that overflow the 32-slot queue
    overflow_ok: bool,
}

fn stress_config(rng: &mut Rng, fam: u64) -> GenCfg {
    // hand-shaped configurations that reach the capacities named in the property
    let mut g = GenCfg::default();
    match fam {
        0 => {
            // > 64 simultaneously active states: 70 physical keys held
            let keys: Vec<String> = gen::PHYS.iter().chain(["6", "7", "8", "9", "0", "f1", "f2", "f3", "f4", "f5", "f6", "f7", "f8", "f9", "f10", "f11", "f12", "kp0", "kp1", "kp2", "kp3", "kp4", "kp5", "kp6"].iter()).map(|s| s.to_string()).collect();
            // every fifth key carries a custom action (its press has an effect outside the layout that
            // only its release handler ends), so that custom presses also arrive at a full state table
            let customs = ["mlft", "(mwheel-up 50 120)", "(movemouse-left 5 5)", "(arbitrary-code 700)", "(unmod a)", "mrgt", "(mwheel-right 50 120)", "(movemouse-accel-down 5 200 1 5)"];
            let acts: Vec<String> = keys
                .iter()
                .enumerate()
                .map(|(i, k)| if i % 7 == 3 { format!("(multi {k} lsft)") } else if i % 5 == 1 { customs[(i / 5) % customs.len()].to_string() } else { k.clone() })
                .collect();
            g.text = format!("(defcfg process-unmapped-keys yes)\n(defsrc {})\n(deflayer l0 {})\n", keys.join(" "), acts.join(" "));
            g.keys = keys;
        }
        1 => {
            // > 8 concurrent tap-holds
            let keys: Vec<String> = gen::PHYS[..14].iter().map(|s| s.to_string()).collect();
            let h = *rng.pick(&[20u32, 50, 200]);
            // further tap-holds can only start while one is pending through the action queue
            // (switch fallthrough), so most keys carry a switch with several tap-hold cases
            let acts: Vec<String> = keys
                .iter()
                .enumerate()
                .map(|(i, k)| {
                    let th = |j: usize| format!("(tap-hold{} 0 {h} {} {})", ["", "-press", "-release"][(i + j) % 3], gen::OUTKEYS[(i + j) % 12], gen::OUTKEYS[20 + (i + j) % 20]);
                    if i % 3 == 0 {
                        th(0)
                    } else {
                        let _ = k;
                        // one direct tap-hold plus eight through the (8-slot) action queue
                        format!(
                            "(multi {} (switch () {} fallthrough () {} fallthrough () {} fallthrough () {} fallthrough () {} fallthrough () {} fallthrough () {} fallthrough () {} break))",
                            th(0), th(1), th(2), th(3), th(4), th(5), th(6), th(7), th(8)
                        )
                    }
                })
                .collect();
            g.text = format!("(defcfg concurrent-tap-hold {})\n(defsrc {})\n(deflayer l0 {})\n", if rng.coin() { "yes" } else { "no" }, keys.join(" "), acts.join(" "));
            g.keys = keys;
            g.numbers = vec![h as u64; 14];
        }
        2 => {
            // > 16 stacked one-shots
            let keys: Vec<String> = gen::PHYS[..22].iter().map(|s| s.to_string()).collect();
            let t = *rng.pick(&[20u32, 100, 500]);
            let v = *rng.pick(&["one-shot", "one-shot-release", "one-shot-press-pcancel", "one-shot-release-pcancel"]);
            let acts: Vec<String> = keys.iter().enumerate().map(|(i, k)| if i < 20 { format!("({v} {t} {})", gen::OUTKEYS[i]) } else { k.clone() }).collect();
            g.text = format!("(defsrc {})\n(deflayer l0 {})\n", keys.join(" "), acts.join(" "));
            g.keys = keys;
            g.numbers = vec![t as u64; 20];
        }
        3 => {
            // > 4 concurrent macros
            let keys: Vec<String> = gen::PHYS[..8].iter().map(|s| s.to_string()).collect();
            let acts: Vec<String> = keys.iter().enumerate().map(|(i, _)| format!("(macro {} 10 S-({} 10 {}) 10 {})", gen::OUTKEYS[i], gen::OUTKEYS[i + 8], gen::OUTKEYS[i + 16], gen::OUTKEYS[i])).collect();
            g.text = format!("(defsrc {})\n(deflayer l0 {})\n", keys.join(" "), acts.join(" "));
            g.keys = keys;
            g.numbers = vec![10; 24];
        }
        _ => {
            // > 10 active v2 chords needs 20+ keys; bursts through chords v2 instead
            let keys: Vec<String> = gen::PHYS[..24].iter().map(|s| s.to_string()).collect();
            let mut ch = String::new();
            for i in 0..12 {
                ch.push_str(&format!("  ({} {}) {} 30 {} ()\n", keys[2 * i], keys[2 * i + 1], gen::OUTKEYS[30 + i], if i % 2 == 0 { "first-release" } else { "all-released" }));
            }
            g.text = format!("(defcfg concurrent-tap-hold yes)\n(defsrc {})\n(deflayer l0 {})\n(defchordsv2\n{})\n", keys.join(" "), keys.join(" "), ch);
            g.keys = keys;
            g.numbers = vec![30; 12];
            g.has_chords_v2 = true;
        }
    }
    g.rapid_event_delay = 5;
    g.kinds_used.insert(["stress:states", "stress:tapholds", "stress:oneshots", "stress:macros", "stress:chordsv2"][fam.min(4) as usize]);
    g
}

const N_STRESS: u64 = 60;

/// What was seen of the waiting slots (primary `waiting` + `extra_waiting`) during one history.
#[derive(Default)]
struct WaitObs {
    prev_count: usize,
    /// per coordinate: most waiting actions pending at once since the key's last press
    coord_max: std::collections::BTreeMap<(u8, u16), usize>,
    /// two or more waiting actions of ONE coordinate pending at once
    multi_one_coord: bool,
    /// a waiting action at a coordinate that is no physical key (a chords-v2 chord's tap-hold) in an extra slot
    virtual_extra: bool,
    /// a key went up while some of the waiting actions its press started were decided and others not
    release_between_decisions: bool,
    /// a release arrived while the primary slot was free and an extra slot was occupied
    release_extra_only: bool,
}

impl WaitObs {
    /// call after every event / tick; `released` = the key whose release was just applied
    fn observe(&mut self, sim: &Sim, phys: &[u16], ev: Option<&Ev>) {
        let l = sim.k.layout.b();
        let wc = l.extra_waiting.len() + l.waiting.is_some() as usize;
        if let Some(Ev::P(k)) = ev {
            self.coord_max.remove(&(0, *k));
        }
        let released = match ev {
            Some(Ev::R(k)) => Some(*k),
            _ => None,
        };
        if wc == self.prev_count && released.is_none() {
            return;
        }
        self.prev_count = wc;
        if l.extra_waiting.is_empty() && !(released.is_some() && wc > 0 && !self.coord_max.is_empty()) {
            return;
        }
        let (p, ex) = multiwait::waiting_coords(&format!("{:?}", l.waiting), &format!("{:?}", l.extra_waiting));
        let mut cnt: std::collections::BTreeMap<(u8, u16), usize> = Default::default();
        for c in p.iter().chain(ex.iter()) {
            *cnt.entry(*c).or_default() += 1;
        }
        for (c, n) in &cnt {
            let m = self.coord_max.entry(*c).or_default();
            *m = (*m).max(*n);
            if *n >= 2 {
                self.multi_one_coord = true;
            }
        }
        if ex.iter().any(|c| c.0 != 0 || !phys.contains(&c.1)) {
            self.virtual_extra = true;
        }
        if let Some(k) = released {
            let own = cnt.get(&(0, k)).copied().unwrap_or(0);
            if own >= 1 && self.coord_max.get(&(0, k)).copied().unwrap_or(0) > own {
                self.release_between_decisions = true;
            }
            if p.is_none() && !ex.is_empty() {
                self.release_extra_only = true;
            }
        }
    }
}

/// number of configurations of the family "several waiting actions started by one key press"
fn n_multiwait(ctx: &Ctx) -> u64 {
    ctx.tier.sel(240, 1200)
}

fn make_case(ctx: &Ctx, idx: u64) -> Case {
    let mut rng = Rng::for_case(ctx.seed, "C01", "case", idx);
    if idx < N_STRESS {
        let fam = idx % 5;
        let g = stress_config(&mut rng, fam);
        let keys: Vec<u16> = g.keys.iter().map(|k| osc(k)).collect();
        let mut hists = vec![];
        // everything pressed at once with zero gap (queue overflow), released in random order
        let mut h = vec![];
        let mut ks = keys.clone();
        rng.shuffle(&mut ks);
        let g0 = *rng.pick(&[0u32, 0, 1, 3]);
        for k in &ks {
            h.push(Ev::P(*k));
            if g0 > 0 {
                h.push(Ev::T(g0));
            }
        }
        h.push(Ev::T(*rng.pick(&[0u32, 1, 5, 60, 300])));
        rng.shuffle(&mut ks);
        let g1 = *rng.pick(&[0u32, 0, 1, 7]);
        for k in &ks {
            h.push(Ev::R(*k));
            if g1 > 0 {
                h.push(Ev::T(g1));
            }
        }
        hists.push(("all-down-all-up".to_string(), h));
        hists.push(("burst".to_string(), hist::burst(&mut rng, &keys, 2)));
        hists.push(("random".to_string(), hist::consistent(&mut rng, &keys, 120, &[0, 0, 1, 2, 10, 40], true)));
        return Case { g, hists, overflow_ok: true };
    }
    if idx < N_STRESS + n_multiwait(ctx) {
        let c = multiwait::make(&mut rng, idx - N_STRESS, ctx.tier.sel(false, true));
        return Case { g: c.g, hists: c.hists, overflow_ok: true };
    }
    let mut p = profile(&mut rng);
    // a quarter of the random configurations use the "plain" grammar (no action that goes through
    // the action queue, virtual keys, macros or chords); those and every second configuration of
    // the full grammar get the queue-overflowing bursts (more than 32 events between two ticks).
    // The rest is driven with at most 20 events between two ticks. (Until the overflow repairs in
    // /repo - DESIGN.md section 9.3 - the full grammar could not be driven past the queue bound.)
    let plain = idx % 4 == 1;
    if plain {
        p = p.only(&[
            K::Key, K::OutChord, K::Trans, K::NoOp, K::UseDefsrc, K::LayerSwitch, K::LayerWhileHeld, K::TapHold, K::Multi, K::OneShot,
            K::TapDance, K::ReleaseKey, K::ReleaseLayer, K::Fork, K::Unmod, K::Unshift, K::CapsWord, K::MouseBtn, K::MouseTap, K::MWheel,
            K::MoveMouse, K::MoveMouseAccel, K::MWheelNotch, K::OneShotPause, K::ArbitraryCode, K::Unicode,
        ]);
        p.vkeys = 0;
        p.sequences = false;
    }
    let g = if idx % 8 == 0 { v2_config(&mut rng) } else { gen::generate(&mut rng, &p) };
    // a tap-hold nested in the hold/timeout action of another tap-hold starts waiting only after
    // an overflow has forced the outer one into "hold" - possibly after its key's release was
    // already consumed; such configurations are driven without overflow as well
    let overflow_ok = (plain && !has_nested_tap_hold(&g.text)) || idx % 2 == 0;
    let keys: Vec<u16> = g.keys.iter().map(|k| osc(k)).collect();
    let mut gaps: Vec<u32> = vec![0, 0, 1, 2, 7];
    for n in g.numbers.iter().take(12) {
        let n = (*n).min(400) as u32;
        gaps.extend_from_slice(&[n.saturating_sub(1), n, n + 1]);
    }
    let nh = ctx.tier.sel(3, 6);
    let mut hists = vec![];
    for i in 0..nh {
        let n = 6 + rng.usize(ctx.tier.sel(50, 200));
        let (name, h) = match i % 3 {
            0 => ("consistent", hist::consistent(&mut rng, &keys, n, &gaps, true)),
            1 => ("consistent-fast", hist::consistent(&mut rng, &keys, n, &[0, 0, 0, 1, 2], false)),
            _ => {
                let mut h = hist::burst(&mut rng, &keys, 1 + 34 / keys.len().max(1));
                h.extend(hist::consistent(&mut rng, &keys, n / 2, &gaps, true));
                ("burst+consistent", h)
            }
        };
        let h = if overflow_ok { h } else { cap_pending(h, 20) };
        hists.push((name.to_string(), h));
    }
    if overflow_ok && !keys.is_empty() {
        // eviction histories: one key is pressed and processed by a few ticks (so whatever it
        // started - a waiting tap-hold, a chord, a one-shot - is live), then its release and at
        // least 32 further events arrive with no tick in between, so that the release is the
        // event the full queue evicts (or, in the second form, the one that evicts)
        for form in 0..ctx.tier.sel(2, 4) {
            let k = *rng.pick(&keys);
            let d = *rng.pick(&[1u32, 1, 2, 3, 10]);
            let mut h = vec![Ev::P(k), Ev::T(d)];
            if form % 2 == 0 {
                h.push(Ev::R(k));
            }
            let others: Vec<u16> = keys.iter().copied().filter(|x| *x != k).collect();
            let n_fill = 32 + rng.usize(6);
            let mut filled = 0;
            while filled < n_fill {
                let o = if others.is_empty() { 30u16 } else { *rng.pick(&others) };
                h.push(Ev::P(o));
                h.push(Ev::R(o));
                filled += 2;
            }
            if form % 2 == 1 {
                h.push(Ev::R(k));
            }
            h.push(Ev::T(*rng.pick(&[1u32, 50, 400])));
            hists.push((["evict-release", "evict-by-release"][form % 2].to_string(), h));
        }
    }
    Case { g, hists, overflow_ok }
}

fn has_nested_tap_hold(cfg: &str) -> bool {
    use crate::gen::sexp::{self, Node};
    fn is_th(n: &Node) -> bool {
        matches!(n, Node::List(l) if matches!(l.first(), Some(Node::Atom(a)) if a.starts_with("tap-hold")))
    }
    fn contains_th(n: &Node) -> bool {
        is_th(n) || matches!(n, Node::List(l) if l.iter().any(contains_th))
    }
    fn nested(n: &Node) -> bool {
        match n {
            Node::List(l) => (is_th(n) && l.iter().skip(1).any(contains_th)) || l.iter().any(nested),
            _ => false,
        }
    }
    // aliases can hide nesting; treat any alias use inside a tap-hold as nested too
    fn th_with_alias(n: &Node) -> bool {
        fn has_alias(n: &Node) -> bool {
            match n {
                // a transparent item can resolve to the very same tap-hold again when its layer is
                // held more than once (e.g. layer-while-held of the base layer)
                Node::Atom(a) => a.starts_with('@') || a == "_",
                Node::List(l) => l.iter().any(has_alias),
            }
        }
        match n {
            Node::List(l) => (is_th(n) && has_alias(n)) || l.iter().any(th_with_alias),
            _ => false,
        }
    }
    match sexp::parse(cfg) {
        Some(nodes) => nodes.iter().any(|n| nested(n) || th_with_alias(n)),
        None => true,
    }
}

/// insert a 40-tick pause whenever more than `max` events would be pending without a tick
fn cap_pending(h: Vec<Ev>, max: usize) -> Vec<Ev> {
    let mut out = Vec::with_capacity(h.len() + 8);
    let mut pending = 0usize;
    for e in h {
        match &e {
            Ev::T(n) => {
                pending = pending.saturating_sub(*n as usize);
            }
            _ => {
                if pending >= max {
                    out.push(Ev::T(40));
                    pending = 0;
                }
                pending += 1;
            }
        }
        out.push(e);
    }
    out
}

fn drain_bound(g: &GenCfg) -> u64 {
    let mut sum: u64 = g.numbers.iter().map(|n| (*n).min(70_000)).sum();
    // `sldr` without a sequence-timeout in defcfg uses the default of 1000 ms, which is not among
    // the written numbers; every on-idle / hold-for-duration action can start such a sequence once
    // more after the previous one has timed out
    if g.text.contains("sldr") && !g.text.contains("sequence-timeout") {
        let restarts = g.text.matches("on-idle").count() + g.text.matches("hold-for-duration").count();
        sum += 1000 * (1 + restarts as u64);
    }
    4 * sum + 40 * (g.rapid_event_delay + 2) + 2000
}

/// one iteration of the processing loop in virtual time: consult the blocking predicate (this is
/// what advances the idle counters), then tick. Returns the predicate's answer.
fn loop_tick(sim: &mut Sim) -> bool {
    let cb = sim.k.can_block_update_idle_waiting(1);
    sim.tick();
    cb
}


/// Judge one (config, history) pair: None if the config is rejected or the end-state invariant
/// holds, Some((signature, description)) otherwise. Used by the minimiser.
pub fn judge_pair(cfg: &str, bound: u64, h: &[Ev]) -> Option<(String, String)> {
    let mut sim = Sim::new(cfg).ok()?;
    let mut max_macros = 0usize;
    for e in h {
        match e {
            Ev::T(n) => {
                for _ in 0..*n {
                    loop_tick(&mut sim);
                    max_macros = max_macros.max(sim.k.layout.b().active_sequences.len());
                }
            }
            other => sim.apply(other),
        }
        max_macros = max_macros.max(sim.k.layout.b().active_sequences.len());
    }
    let t_end = sim.now;
    let mut quiet = 0u64;
    let mut last_output_tick = sim.trace.last().map(|o| o.at).unwrap_or(0);
    let mut settled = false;
    while sim.now - t_end < bound {
        let n_before = sim.trace.len();
        let cb = loop_tick(&mut sim);
        max_macros = max_macros.max(sim.k.layout.b().active_sequences.len());
        if sim.trace.len() > n_before {
            quiet = 0;
            last_output_tick = sim.now;
        } else {
            quiet += 1;
        }
        if cb && sim.is_idle() && sim.os.all_up() && quiet >= QUIET {
            settled = true;
            break;
        }
    }
    if !settled {
        let mut kinds = vec![];
        if !sim.os.keys_down.is_empty() {
            kinds.push("key-down");
        }
        if !sim.os.btns_down.is_empty() {
            kinds.push("button-down");
        }
        if !sim.os.codes_down.is_empty() {
            kinds.push("code-down");
        }
        if !sim.is_idle() {
            kinds.push("not-idle");
        }
        if sim.now - last_output_tick < QUIET {
            let cont = sim.trace.iter().rev().take(5).any(|o| matches!(o.kind, OutKind::Scroll | OutKind::Move));
            kinds.push(if cont { "continuous-mouse-output" } else { "still-emitting" });
        }
        if kinds.is_empty() {
            kinds.push("cannot-block");
        }
        return Some((format!("stuck:{}{}", kinds.join("+"), if max_macros >= 4 { "|macro-ring-full" } else { "" }), format!("{} | trace tail {:?}", sim.os.describe(), sim.trace.iter().rev().take(12).rev().map(|o| o.short()).collect::<Vec<_>>())));
    }
    let n0 = sim.trace.len();
    let mut became_non_idle = false;
    for _ in 0..bound.min(3000) {
        let cb = loop_tick(&mut sim);
        if !cb || !sim.is_idle() {
            became_non_idle = true;
        }
    }
    if sim.trace.len() > n0 {
        return Some(("output-after-idle".into(), sim.trace[n0].short()));
    }
    if became_non_idle {
        return Some(("idle-not-stable".into(), String::new()));
    }
    None
}

fn hist_is_consistent(h: &[Ev]) -> bool {
    let mut down: Vec<u16> = vec![];
    for e in h {
        match e {
            Ev::P(k) => {
                if down.contains(k) {
                    return false;
                }
                down.push(*k)
            }
            Ev::R(k) => {
                if !down.contains(k) {
                    return false;
                }
                down.retain(|x| x != k)
            }
            Ev::Rep(k) => {
                if !down.contains(k) {
                    return false;
                }
            }
            _ => {}
        }
    }
    down.is_empty()
}

/// Greedy delta-minimisation of a violating (config, history) pair, keeping the signature class.
pub fn minimise(cfg: &str, bound: u64, h: &[Ev]) -> (String, Vec<Ev>, Option<(String, String)>) {
    use crate::gen::sexp::{self, Node};
    let Some((sig0, _)) = judge_pair(cfg, bound, h) else { return (cfg.to_string(), h.to_vec(), None) };
    let class = |s: &str| s.split(':').next().unwrap_or("").to_string();
    // the minimiser must not turn a balanced virtual-key use into a latching one
    let non_latching = |cfg: &str| -> bool {
        let c = |pat: &str| cfg.matches(pat).count();
        // every press-vkey must be directly followed by its release-vkey (as generated)
        let mut balanced = true;
        let mut rest = cfg;
        while let Some(i) = rest.find("(on-press press-vkey ") {
            let after = &rest[i + "(on-press press-vkey ".len()..];
            let name: String = after.chars().take_while(|ch| *ch != ')').collect();
            let expect = format!(") (on-release release-vkey {name})");
            if !after[name.len()..].starts_with(&expect) {
                balanced = false;
                break;
            }
            rest = &after[name.len()..];
        }
        balanced && c("toggle") == 0 && c("on-release press-vkey") == 0
    };
    let same = |cfg: &str, h: &[Ev]| -> bool { non_latching(cfg) && hist_is_consistent(h) && judge_pair(cfg, bound, h).map(|(s, _)| class(&s) == class(&sig0)).unwrap_or(false) };
    let mut h: Vec<Ev> = h.to_vec();
    let mut cfg = cfg.to_string();
    let mut progress = true;
    let mut rounds = 0;
    while progress && rounds < 6 {
        progress = false;
        rounds += 1;
        // history: drop single events / pairs, shrink gaps
        let mut i = 0;
        while i < h.len() {
            let mut cand = h.clone();
            let removed = cand.remove(i);
            let mut ok = false;
            match removed {
                Ev::P(k) => {
                    // remove the matching release too
                    if let Some(j) = cand.iter().skip(i).position(|e| *e == Ev::R(k)) {
                        cand.remove(i + j);
                        // and repeats in between
                        ok = same(&cfg, &cand);
                    }
                }
                Ev::R(_) => {}
                _ => ok = same(&cfg, &cand),
            }
            if ok {
                h = cand;
                progress = true;
            } else {
                if let Ev::T(n) = h[i] {
                    if n > 1 {
                        let mut cand = h.clone();
                        cand[i] = Ev::T(n / 2);
                        if same(&cfg, &cand) {
                            h = cand;
                            progress = true;
                            continue;
                        }
                    }
                }
                i += 1;
            }
        }
        // config: replace sub-expressions by simpler ones, drop top-level forms
        if let Some(mut nodes) = sexp::parse(&cfg) {
            let mut paths = sexp::all_paths(&nodes);
            paths.sort_by_key(|p| p.len());
            let mut pi = 0;
            while pi < paths.len() {
                let path = paths[pi].clone();
                pi += 1;
                let Some(node) = sexp::get(&nodes, &path) else { continue };
                let is_top = path.len() == 1;
                let head_is_def = matches!(node, Node::List(l) if matches!(l.first(), Some(Node::Atom(a)) if a == "defsrc" || a.starts_with("deflayer")));
                let mut tries: Vec<Option<Node>> = vec![];
                if is_top && !head_is_def {
                    tries.push(None);
                } else if !is_top && path.len() >= 2 {
                    if let Node::List(l) = node {
                        // replace a list action by one of its sub-actions or by XX
                        tries.push(Some(Node::Atom("XX".into())));
                        for x in l.iter().skip(1) {
                            tries.push(Some(x.clone()));
                        }
                    }
                }
                for t in tries {
                    let mut cand = nodes.clone();
                    let okm = match t {
                        None => {
                            cand.remove(path[0]);
                            true
                        }
                        Some(rep) => replace_at(&mut cand, &path, rep),
                    };
                    if !okm {
                        continue;
                    }
                    let text = sexp::print(&cand);
                    if same(&text, &h) {
                        nodes = cand;
                        cfg = text;
                        progress = true;
                        paths = sexp::all_paths(&nodes);
                        paths.sort_by_key(|p| p.len());
                        pi = 0;
                        break;
                    }
                }
            }
        }
    }
    let j = judge_pair(&cfg, bound, &h);
    (cfg, h, j)
}

fn replace_at(nodes: &mut Vec<crate::gen::sexp::Node>, path: &[usize], rep: crate::gen::sexp::Node) -> bool {
    use crate::gen::sexp::Node;
    let mut cur: &mut Node = match nodes.get_mut(path[0]) {
        Some(n) => n,
        None => return false,
    };
    for &i in &path[1..] {
        match cur {
            Node::List(l) => match l.get_mut(i) {
                Some(n) => cur = n,
                None => return false,
            },
            _ => return false,
        }
    }
    *cur = rep;
    true
}

/// `kvmon triage <replay.json>`: minimise the recorded violation and print it.
pub fn triage(doc: &Value) {
    let w = &doc["witness"];
    let cfg = w["config"].as_str().unwrap_or("");
    let bound = w["drain_bound"].as_u64().unwrap_or(3000);
    let hist = parse_hist(w["history"].as_str().unwrap_or(""));
    let (c, h, j) = minimise(cfg, bound, &hist);
    println!("minimised config:\n{c}\nminimised history: {}\nverdict: {:?}", render_hist(&h), j);
}

pub fn parse_hist(s: &str) -> Vec<Ev> {
    let mut v = vec![];
    for tok in s.split_whitespace() {
        let Some((k, val)) = tok.split_once(':') else { continue };
        if k == "t" {
            v.push(Ev::T(val.parse().unwrap_or(0)));
            continue;
        }
        // names are KeyCode debug names; map back through all codes
        let code = (0u16..767).find(|c| crate::core::sim::code_name(*c) == val);
        let Some(code) = code else { continue };
        match k {
            "d" => v.push(Ev::P(code)),
            "u" => v.push(Ev::R(code)),
            "r" => v.push(Ev::Rep(code)),
            "tap" => v.push(Ev::Tap(code)),
            _ => {}
        }
    }
    v
}

impl Check for C01Check {
    fn id(&self) -> &'static str {
        "C01"
    }
    fn n_cases(&self, ctx: &Ctx) -> u64 {
        N_STRESS + n_multiwait(ctx) + ctx.tier.sel(15_000, 250_000)
    }
    fn describe(&self, ctx: &Ctx, idx: u64) -> Value {
        let c = make_case(ctx, idx);
        json!({"config": c.g.text, "histories": c.hists.iter().map(|(n, h)| json!({"kind": n, "events": render_hist(h)})).collect::<Vec<_>>()})
    }
    fn run_case(&self, ctx: &Ctx, idx: u64) -> CaseOut {
        let mut out = CaseOut::new();
        let c = make_case(ctx, idx);
        if ctx.verbose {
            eprintln!("config:\n{}", c.g.text);
        }
        let bound = drain_bound(&c.g);
        let phys: Vec<u16> = c.g.keys.iter().map(|k| osc(k)).collect();
        let is_mw = c.g.kinds_used.contains("family:multiwait");
        let mut accepted = false;
        for (hname, h) in c.hists.iter() {
            let mut sim = match Sim::new(&c.g.text) {
                Ok(s) => s,
                Err(e) => {
                    if ctx.verbose {
                        eprintln!("rejected: {e}");
                    }
                    break;
                }
            };
            accepted = true;
            if ctx.verbose {
                eprintln!("history {hname}: {}", render_hist(h));
            }
            let mut max_q = 0usize;
            let mut max_states = 0usize;
            let mut max_wait = 0usize;
            let mut max_oneshot = 0usize;
            let mut max_macros = 0usize;
            let mut wobs = WaitObs::default();
            // the history as executed (with the pauses inserted by the throttle below)
            let mut executed: Vec<Ev> = Vec::with_capacity(h.len() + 8);
            for e in h {
                if !c.overflow_ok && !matches!(e, Ev::T(_)) {
                    // Keep the event queue from overflowing on the full grammar: a pending
                    // tap-hold / chord stops the queue from draining, so a static cap on the
                    // history is not enough. Tick until there is room (bounded).
                    let mut waited = 0u32;
                    while sim.k.layout.b().queue.len() >= 24 && waited < 3000 {
                        loop_tick(&mut sim);
                        waited += 1;
                    }
                    if waited > 0 {
                        executed.push(Ev::T(waited));
                        out.inc("throttle_pauses");
                    }
                }
                executed.push(e.clone());
                match e {
                    Ev::T(n) => {
                        for _ in 0..*n {
                            loop_tick(&mut sim);
                            let l = sim.k.layout.b();
                            max_macros = max_macros.max(l.active_sequences.len());
                            max_wait = max_wait.max(l.extra_waiting.len() + l.waiting.is_some() as usize);
                            max_states = max_states.max(l.states.len());
                            max_oneshot = max_oneshot.max(l.oneshot.keys.len());
                            wobs.observe(&sim, &phys, None);
                        }
                    }
                    other => {
                        sim.apply(other);
                        wobs.observe(&sim, &phys, Some(other));
                    }
                }
                let l = sim.k.layout.b();
                max_q = max_q.max(l.queue.len());
                max_states = max_states.max(l.states.len());
                max_wait = max_wait.max(l.extra_waiting.len() + l.waiting.is_some() as usize);
                max_oneshot = max_oneshot.max(l.oneshot.keys.len());
                max_macros = max_macros.max(l.active_sequences.len());
            }
            // ---- drain: until kanata says it may block, everything is up and it has been quiet
            let t_end = sim.now;
            let mut quiet = 0u64;
            let mut settled_at: Option<u64> = None;
            let mut last_output_tick = sim.trace.last().map(|o| o.at).unwrap_or(0);
            while sim.now - t_end < bound {
                let n_before = sim.trace.len();
                let cb = loop_tick(&mut sim);
                {
                    let l = sim.k.layout.b();
                    max_macros = max_macros.max(l.active_sequences.len());
                    max_wait = max_wait.max(l.extra_waiting.len() + l.waiting.is_some() as usize);
                    max_states = max_states.max(l.states.len());
                    max_oneshot = max_oneshot.max(l.oneshot.keys.len());
                }
                wobs.observe(&sim, &phys, None);
                if sim.trace.len() > n_before {
                    quiet = 0;
                    last_output_tick = sim.now;
                } else {
                    quiet += 1;
                }
                if cb && sim.is_idle() && sim.os.all_up() && quiet >= QUIET {
                    settled_at = Some(sim.now - t_end);
                    break;
                }
            }
            out.inc("histories");
            if hname.starts_with("evict") {
                out.inc("hist_evict");
            }
            if is_mw {
                out.inc("hist_multiwait");
                if hname == "mw-solo" {
                    out.inc("hist_multiwait_solo_sweep");
                }
            }
            if wobs.multi_one_coord {
                out.inc("hist_several_waiting_one_key");
            }
            if is_mw && wobs.virtual_extra {
                out.inc("hist_chordv2_taphold_extra_slot");
            }
            if wobs.release_between_decisions {
                out.inc("hist_release_between_decisions");
            }
            if wobs.release_extra_only {
                out.inc("hist_release_primary_free_extra_pending");
            }
            out.count("events", h.len() as u64);
            out.max("queue", max_q as u64);
            out.max("states", max_states as u64);
            out.max("waiting", max_wait as u64);
            out.max("oneshot_keys", max_oneshot as u64);
            out.max("macros", max_macros as u64);
            if max_q >= 32 {
                out.inc("hist_queue_full");
            }
            if max_states >= 64 {
                out.inc("hist_states_full");
            }
            if max_wait > 8 {
                out.inc("hist_waiting_over_8");
            }
            if max_oneshot >= 16 {
                out.inc("hist_oneshot_full");
            }
            if max_macros >= 4 {
                out.inc("hist_macros_full");
            }
            let witness = |sim: &Sim, extra: Value| {
                let tail: Vec<String> = sim.trace.iter().rev().take(30).rev().map(|o| o.short()).collect();
                json!({"config": c.g.text, "kinds": c.g.kinds_used.iter().copied().collect::<Vec<_>>(), "history_kind": hname, "history": render_hist(&executed), "drain_bound": bound, "os_model": sim.os.describe(), "is_idle": sim.is_idle(), "last_outputs": tail, "extra": extra,
                    "layout": {"queue": sim.k.layout.b().queue.len(), "states": format!("{:?}", sim.k.layout.b().states).chars().take(600).collect::<String>(), "waiting": sim.k.layout.b().waiting.is_some(), "oneshot_keys": sim.k.layout.b().oneshot.keys.len(), "active_sequences": sim.k.layout.b().active_sequences.len()}})
            };
            match settled_at {
                None => {
                    // classify what is wrong at the bound
                    let mut kinds = vec![];
                    if !sim.os.keys_down.is_empty() {
                        kinds.push("key-down");
                    }
                    if !sim.os.btns_down.is_empty() {
                        kinds.push("button-down");
                    }
                    if !sim.os.codes_down.is_empty() {
                        kinds.push("code-down");
                    }
                    if !sim.is_idle() {
                        kinds.push("not-idle");
                    }
                    if sim.now - last_output_tick < QUIET {
                        let cont = sim.trace.iter().rev().take(5).any(|o| matches!(o.kind, OutKind::Scroll | OutKind::Move));
                        kinds.push(if cont { "continuous-mouse-output" } else { "still-emitting" });
                    }
                    if kinds.is_empty() {
                        kinds.push("cannot-block");
                    }
                    // kanata runs at most 4 macros at a time (documented); a history that filled
                    // that ring is classified separately (known finding: the 5th evicts the oldest)
                    let sig = format!("stuck:{}{}", kinds.join("+"), if max_macros >= 4 { "|macro-ring-full" } else { "" });
                    out.violate(sig, format!("after every key was released and {bound} further ticks: {}", kinds.join(", ")), witness(&sim, json!(null)));
                }
                Some(d) => {
                    out.max("drain_ticks", d);
                    out.tag(format!("{}|{hname}|q{}s{}w{}o{}m{}", c.g.kinds_used.iter().copied().collect::<Vec<_>>().join(","), max_q.min(33), max_states / 16, max_wait.min(9), max_oneshot / 4, max_macros));
                    // ---- afterwards: advancing time must produce nothing and idle must persist
                    let n0 = sim.trace.len();
                    let extra = bound.min(3000);
                    let mut became_non_idle = false;
                    for _ in 0..extra {
                        let cb = loop_tick(&mut sim);
                        if !cb || !sim.is_idle() {
                            became_non_idle = true;
                        }
                    }
                    if sim.trace.len() > n0 {
                        let first = sim.trace[n0].short();
                        out.violate("output-after-idle", format!("output {first} after kanata had reported idle with everything released"), witness(&sim, json!({"settled_after": d})));
                    } else if became_non_idle {
                        out.violate("idle-not-stable", "kanata reported idle, then non-idle again without any input", witness(&sim, json!({"settled_after": d})));
                    }
                }
            }
        }
        if accepted {
            out.inc("configs_accepted");
        } else {
            out.inc("configs_rejected");
        }
        if idx % 800 == 5 || idx == 1 {
            out.sample = Some(json!({"idx": idx, "config": c.g.text, "history": render_hist(&c.hists[0].1), "drain_bound": bound}));
        }
        out
    }
    fn rule(&self) -> String {
        "case = one configuration (60 hand-shaped stress configurations reaching >64 states, >8 tap-holds, >16 one-shots, >4 macros, chords-v2 bursts; then 240 (quick) / 1200 (thorough) configurations of the family 'several waiting actions started by one key press' - six shapes: switch with 2-4 fallthrough tap-hold cases of different timeouts in random order and random tap-hold variants, the same next to a tap-hold / a lazy tap-dance / a defchords chord in a multi, mixed with immediate key / layer / mouse cases, and a defchordsv2 chord whose action is a tap-hold next to a home-row tap-hold key with concurrent-tap-hold yes - each with a systematic sweep: for every offset x in {0..3} + {t-2..t+4, t+6 for every timeout t of the key} + the points between two timeouts + past the last one, one history 'key down, x ticks, key up' and one (thorough: two) where other keys - plain, layer, tap-hold, chord participants - are pressed and released at random times around it, plus 4 (8) double presses; then the whole non-latching action grammar at random) x 3 (quick) / 6 (thorough) physically consistent histories (random gaps around every configured number, zero-gap bursts that overflow the 32-slot queue - for the plain grammar and for every second configuration of the full grammar -, OS repeats) + for those configurations 2 (quick) / 4 (thorough) eviction histories: one key pressed and processed by 1-10 ticks, then its release and >= 32 further events with no tick in between, so that the release is the event the full queue evicts or the one that evicts. After the history the loop's control flow is emulated (blocking predicate consulted every iteration) until kanata may block, the OS model is all-up and nothing was emitted for 50 ticks, bounded by 4 x (sum of all numbers in the config) + 40 x (rapid-event-delay+2) + 2000 ticks; then up to 3000 more ticks must be silent and idle. Non-trivial = history ran on an accepted config and settled; distinct = (action kinds used, history family, capacity classes reached).".into()
    }
    fn assumptions(&self) -> Vec<String> {
        vec![
            "latching constructs are excluded by construction: on-press/on-release press-vkey or toggle-vkey without a matching release, on-idle press".into(),
            "cmd, clipboard, live-reload actions and delays > 2 ms are not generated".into(),
            "'bounded time' is the stated logical bound, a generous multiple of every configured number".into(),
            "multi-wait family: only the end state is judged (everything released, idle, silent), not which of tap / hold each of the concurrent tap-holds should have chosen; the counters hist_several_waiting_one_key / hist_release_between_decisions / hist_release_primary_free_extra_pending / hist_chordv2_taphold_extra_slot are read from the Debug rendering of the layout's waiting slots (their fields are private)".into(),
            "a held layer that is never released is not an output and is only noticed here if it leaves a key, button, scroll or non-idle state behind".into(),
        ]
    }
    fn floors(&self, _ctx: &Ctx) -> Vec<(&'static str, u64)> {
        vec![("histories", 3000), ("hist_queue_full", 20), ("hist_states_full", 3), ("hist_waiting_over_8", 3), ("hist_oneshot_full", 3), ("hist_macros_full", 3), ("hist_evict", 10_000),
            // family "several waiting actions started by one key press": it ran, several waiting
            // actions of one key were really pending at once, the key really went up between two of
            // their decisions, a release really arrived while only an extra slot was occupied, and
            // a chords-v2 chord's tap-hold really sat in an extra slot
            ("hist_multiwait", 8000), ("hist_multiwait_solo_sweep", 3000), ("hist_several_waiting_one_key", 6000), ("hist_release_between_decisions", 3000), ("hist_release_primary_free_extra_pending", 2000), ("hist_chordv2_taphold_extra_slot", 150)]
    }
}
