//! C02, part "deep switch": `switch` key-match expressions at and beyond the limits that the
//! run-time evaluator depends on.
//!
//! keyberon evaluates a key-match with a fixed stack of 8 entries (`MAX_BOOL_EXPR_DEPTH`; one entry
//! per boolean list it descends into, `and` / `or` / `not` alike) and with 12-bit end indices
//! (`MAX_OPCODE_LEN` = 4095). Both are asserted at run time; the parser is what keeps the asserts
//! unreachable. The grammar generator nests boolean lists at most four deep, so it never comes near
//! either limit. This family generates the out-of-range forms on purpose:
//!
//!  * a spine of 6..=12 nested boolean lists (the nesting the parser has to count), the operator of
//!    every level drawn from and / or / not in nine arrangements (random mix, the and-not-or cycle,
//!    all-not, all-and, all-or, exactly one `not`, `not` on every second level, `not` outermost /
//!    innermost only), the nested list first / last / in the middle / anywhere among 1..=4 operands,
//!    the innermost list empty or with 1..=3 operands, operands being key names, `(input real k)`,
//!    `(layer ..)`, `(base-layer ..)`, `(input virtual ..)`, key-history / key-timing /
//!    input-history items and small boolean sub-lists (which may nest deeper than the spine),
//!    optionally one level of the spine supplied through a `defvar` list variable, the expression
//!    first or second at the top level of the key-match and in the first or second case of the
//!    switch, the switch in seven placements (layer, alias, multi, virtual key, fork, tap-hold hold
//!    action, chords-v2 action);
//!  * "wide" key-matches whose opcode count is padded to 4086..=4104 (either side of 4095), the
//!    padding before or after the nested expression, flat at the top level or inside an `or`.
//!
//! The evaluator short-circuits, so a press only descends to the innermost list if no operand on the
//! way down decides its list early. Every operand that precedes the nested list on the spine is
//! therefore a key of its own (or a constant that does not decide), and the histories hold exactly
//! the keys that keep every level undecided: the operands of `and` levels down, the operands of
//! `or` / `not` levels up ("descent set"), with the innermost key down and up. Further histories:
//! nothing held, everything held, the descent set with each key that is a direct operand of a spine
//! list flipped in turn (the evaluation is then decided at every intermediate level, on the way down
//! or on the way back up), two random subsets, one hostile and one consistent random history over
//! all keys of the expression.
//!
//! Oracle: the crash oracle (an accepted configuration must not panic / hang); a rejected
//! configuration is fine and only counted. As evidence that the descent histories really reach the
//! innermost operand on the code under test, the monitor compares which case fired (x or y) with the
//! innermost key down and up; `deep_innermost_decides` counts the configurations where it flips.

use crate::core::rng::Rng;
use crate::core::sim::{osc, render_hist, Ev, OutKind, Sim};
use crate::core::{CaseOut, Ctx};
use crate::gen::hist;
use serde_json::{json, Value};

/// number of nested boolean lists on the spine
pub const DEPTHS: std::ops::RangeInclusive<usize> = 6..=12;
const N_DEPTHS: usize = 7;
const OP_MODES: &[&str] = &["mix", "and-not-or", "all-not", "all-and", "all-or", "one-not", "alt-not", "not-outer", "not-inner"];
const POS_MODES: &[&str] = &["first", "last", "middle", "any"];
const CONTEXTS: &[&str] = &["layer", "alias", "multi", "vkey", "fork", "taphold-hold", "chordv2"];

pub fn n_cases(ctx: &Ctx) -> u64 {
    // every depth x operator arrangement x position mode at least `reps` times
    let reps = ctx.tier.sel(6, 60) as u64;
    (N_DEPTHS * OP_MODES.len() * POS_MODES.len()) as u64 * reps
}

/// keys an expression may mention (the switch key is `k`; x, y, w, q are outputs)
fn key_pool() -> Vec<&'static str> {
    vec![
        "a", "b", "c", "d", "e", "f", "g", "h", "i", "j", "l", "m", "n", "o", "p", "r", "s", "t", "u", "v", "z", "1", "2", "3", "4", "5",
        "6", "7", "8", "9", "0", "f1", "f2", "f3", "f4", "f5", "f6", "f7", "f8", "f9", "f10", "f11", "f12",
    ]
}

pub struct DeepCase {
    pub cfg: String,
    pub hists: Vec<(&'static str, Vec<Ev>)>,
    pub tag: String,
    /// nested boolean lists on the spine
    pub spine: usize,
    /// deepest nesting anywhere in the expression
    pub max_nest: usize,
    /// number of `not` lists on the spine
    pub nots: usize,
    /// opcode count of the whole key-match, if it was padded to the 4095 limit
    pub wide: Option<usize>,
    /// the model says toggling the innermost key toggles the case (no uncontrolled operand involved)
    pub pure: bool,
    pub has_innermost_key: bool,
    pub via_var: bool,
    pub context: &'static str,
}

struct B<'a> {
    rng: &'a mut Rng,
    pool: Vec<&'static str>,
    /// every key used in the expression
    used: Vec<&'static str>,
    /// keys that must be down for the evaluation to descend / stay undecided
    hold: Vec<&'static str>,
    /// false once an operand whose value the histories do not control could decide a spine list
    pure: bool,
    ops: usize,
}

impl B<'_> {
    fn fresh_key(&mut self) -> Option<&'static str> {
        if self.pool.is_empty() {
            return None;
        }
        let i = self.rng.usize(self.pool.len());
        let k = self.pool.swap_remove(i);
        self.used.push(k);
        Some(k)
    }
    fn render_key(&mut self, k: &str) -> String {
        if self.rng.chance(1, 3) {
            self.ops += 2;
            format!("(input real {k})")
        } else {
            self.ops += 1;
            k.to_string()
        }
    }
    /// a constant operand with the given value (no layer is ever held, vz is never pressed)
    fn constant(&mut self, v: bool) -> String {
        self.ops += 2;
        if v {
            self.rng.pick(&["(layer l0)", "(base-layer l0)"]).to_string()
        } else {
            self.rng.pick(&["(layer l1)", "(base-layer l1)", "(input virtual vz)"]).to_string()
        }
    }
    /// an operand that leaves a list of operator `op` undecided: a key of its own, held iff the
    /// operator is `and`, or a constant
    fn neutral(&mut self, op: &str) -> String {
        let want = op == "and";
        if self.rng.chance(4, 5) {
            if let Some(k) = self.fresh_key() {
                if want {
                    self.hold.push(k);
                }
                return self.render_key(k);
            }
        }
        self.constant(want)
    }
    /// an operand whose value the descent histories do not control
    fn free(&mut self) -> String {
        let k = if self.used.is_empty() || self.rng.coin() { "k" } else { *self.rng.pick(&self.used.clone()) };
        let r = 1 + self.rng.usize(8);
        match self.rng.usize(5) {
            0 => {
                self.ops += 1;
                format!("(key-history {k} {r})")
            }
            1 => {
                self.ops += 1;
                let t = *self.rng.pick(&[0u32, 1, 50, 255, 256, 2304, 65535]);
                format!("(key-timing {r} {} {t})", self.rng.pick(&["lt", "gt"]))
            }
            2 => {
                self.ops += 2;
                format!("(input-history real {k} {r})")
            }
            3 => {
                self.ops += 2;
                "(input real k)".to_string()
            }
            _ => {
                let v = self.rng.coin();
                self.constant(v)
            }
        }
    }
    /// small boolean sub-list of the given nesting; returns its text
    fn subtree(&mut self, nest: usize) -> String {
        let op = *self.rng.pick(&["or", "and", "not"]);
        self.ops += 1;
        let n = self.rng.usize(4);
        let mut v = vec![];
        let deep_at = if n > 0 { self.rng.usize(n) } else { 0 };
        for i in 0..n {
            if nest > 1 && i == deep_at {
                v.push(self.subtree(nest - 1));
            } else if self.rng.coin() {
                match self.fresh_key() {
                    Some(k) => v.push(self.render_key(k)),
                    None => v.push(self.free()),
                }
            } else {
                v.push(self.free());
            }
        }
        if v.is_empty() && nest > 1 {
            v.push(self.subtree(nest - 1));
        }
        format!("({op}{}{})", if v.is_empty() { "" } else { " " }, v.join(" "))
    }
    /// an operand that follows the nested list: returns (text, nesting it adds below this level)
    fn post(&mut self, op: &str, plain: bool) -> (String, usize) {
        if plain {
            return (self.neutral(op), 0);
        }
        match self.rng.usize(6) {
            0 | 1 => (self.neutral(op), 0),
            2 => {
                // a key that is up: decides an `and`, neutral otherwise
                self.pure &= op != "and";
                match self.fresh_key() {
                    Some(k) => (self.render_key(k), 0),
                    None => (self.constant(false), 0),
                }
            }
            3 => {
                self.pure = false;
                (self.free(), 0)
            }
            _ => {
                self.pure = false;
                let n = 1 + self.rng.usize(3);
                (self.subtree(n), n)
            }
        }
    }
}

fn spine_ops(rng: &mut Rng, mode: &str, d: usize) -> Vec<&'static str> {
    // index 0 = outermost
    let ao = |rng: &mut Rng| *rng.pick(&["and", "or"]);
    match mode {
        "and-not-or" => {
            let start = rng.usize(3);
            (0..d).map(|i| ["and", "not", "or"][(i + start) % 3]).collect()
        }
        "all-not" => vec!["not"; d],
        "all-and" => vec!["and"; d],
        "all-or" => vec!["or"; d],
        "one-not" => {
            let at = rng.usize(d);
            (0..d).map(|i| if i == at { "not" } else { ao(rng) }).collect()
        }
        "alt-not" => {
            let ph = rng.usize(2);
            (0..d).map(|i| if i % 2 == ph { "not" } else { ao(rng) }).collect()
        }
        "not-outer" => (0..d).map(|i| if i == 0 { "not" } else { ao(rng) }).collect(),
        "not-inner" => (0..d).map(|i| if i + 1 == d { "not" } else { ao(rng) }).collect(),
        _ => (0..d).map(|_| *rng.pick(&["and", "or", "not"])).collect(),
    }
}

pub fn make(ctx: &Ctx, j: u64) -> DeepCase {
    let mut rng0 = Rng::for_case(ctx.seed, "C02", "deep", j);
    let ju = j as usize;
    let d = *DEPTHS.start() + ju % N_DEPTHS;
    let op_mode = OP_MODES[(ju / N_DEPTHS) % OP_MODES.len()];
    let pos_mode = POS_MODES[(ju / (N_DEPTHS * OP_MODES.len())) % POS_MODES.len()];
    let rep = ju / (N_DEPTHS * OP_MODES.len() * POS_MODES.len());
    let context = CONTEXTS[(ju / N_DEPTHS) % CONTEXTS.len()];
    // a third of the configurations use only operands the histories control (the innermost key
    // then provably decides the case)
    let plain = rep % 3 == 0;
    let ops = spine_ops(&mut rng0, op_mode, d);
    let nots = ops.iter().filter(|o| **o == "not").count();
    let via_var = rng0.chance(1, 4);
    let var_level = 1 + rng0.usize(d - 1); // spine level (0 = outermost) whose list becomes $dv
    // padded mostly where the nesting alone is acceptable, so that the width is what decides
    let wide = if d <= 7 { rng0.chance(1, 4) } else { rng0.chance(1, 20) };
    let mut rng_b = rng0.fork();
    let mut b = B { rng: &mut rng_b, pool: key_pool(), used: vec![], hold: vec![], pure: true, ops: 0 };

    // innermost list
    let inner_op = ops[d - 1];
    let n_in = *b.rng.pick(&[0usize, 1, 1, 1, 2, 3]);
    let mut zkey: Option<&'static str> = None;
    let mut spine_keys: Vec<Vec<&'static str>> = vec![vec![]; d];
    let mut text;
    let mut nest = 1usize;
    {
        b.ops += 1;
        let mut v = vec![];
        if n_in > 0 {
            let zpos = match pos_mode {
                "first" => 0,
                "last" => n_in - 1,
                _ => b.rng.usize(n_in),
            };
            for i in 0..n_in {
                if i < zpos {
                    let before = b.used.len();
                    v.push(b.neutral(inner_op));
                    spine_keys[d - 1].extend(b.used[before..].iter().copied());
                } else if i == zpos {
                    match b.fresh_key() {
                        Some(z) => {
                            zkey = Some(z);
                            v.push(b.render_key(z));
                        }
                        None => v.push(b.constant(true)),
                    }
                } else {
                    let before = b.used.len();
                    let (t, n) = b.post(inner_op, plain);
                    if n == 0 {
                        spine_keys[d - 1].extend(b.used[before..].iter().copied());
                    }
                    nest = nest.max(1 + n);
                    v.push(t);
                }
            }
        }
        text = format!("({inner_op}{}{})", if v.is_empty() { "" } else { " " }, v.join(" "));
    }
    let mut defvar: Option<String> = None;
    // wrap outwards
    for lvl in (0..d - 1).rev() {
        if via_var && lvl + 1 == var_level {
            defvar = Some(text.clone());
            text = "$dv".to_string();
        }
        let op = ops[lvl];
        b.ops += 1;
        let (npre, npost) = match pos_mode {
            "first" => (0, b.rng.usize(4)),
            "last" => (b.rng.usize(4), 0),
            "middle" => (1 + b.rng.usize(2), 1 + b.rng.usize(2)),
            _ => (b.rng.usize(3), b.rng.usize(3)),
        };
        let mut v = vec![];
        for _ in 0..npre {
            let before = b.used.len();
            v.push(b.neutral(op));
            spine_keys[lvl].extend(b.used[before..].iter().copied());
        }
        v.push(std::mem::take(&mut text));
        nest += 1;
        for _ in 0..npost {
            let before = b.used.len();
            let (t, n) = b.post(op, plain);
            if n == 0 {
                spine_keys[lvl].extend(b.used[before..].iter().copied());
            }
            nest = nest.max(1 + n);
            v.push(t);
        }
        text = format!("({op} {})", v.join(" "));
    }
    // top level of the key-match: an implicit `or`
    let mut top = vec![];
    let top_pre = b.rng.usize(2);
    for _ in 0..top_pre {
        top.push(b.neutral("or"));
    }
    let mut wide_ops = None;
    let mut pad_after: Option<String> = None;
    if wide {
        // pad the key-match to an opcode count on either side of the 4095 limit
        let padkey = b.fresh_key().unwrap_or("f13");
        let target = 4086 + b.rng.usize(19);
        let flat = b.rng.coin();
        let before = b.rng.coin();
        let overhead = if flat { 0 } else { 1 };
        let n = target.saturating_sub(b.ops + overhead);
        let mut s = String::with_capacity(n * 2 + 8);
        if !flat {
            s.push_str("(or");
        }
        for _ in 0..n {
            s.push(' ');
            s.push_str(padkey);
        }
        if !flat {
            s.push(')');
        }
        b.ops += n + overhead;
        wide_ops = Some(b.ops);
        if before {
            top.push(s);
        } else {
            pad_after = Some(s);
        }
    }
    top.push(text);
    if let Some(s) = pad_after {
        top.push(s);
    }
    if !plain && !wide && b.rng.chance(1, 3) {
        let (t, n) = b.post("or", false);
        nest = nest.max(n);
        top.push(t);
    }
    let key_match = format!("({})", top.join(" "));
    let second_case = b.rng.chance(1, 3);
    let sw = if second_case {
        format!("(switch ((input virtual vz)) w break {key_match} x break () y break)")
    } else {
        format!("(switch {key_match} x break () y break)")
    };
    let used = b.used.clone();
    let hold = b.hold.clone();
    let pure = b.pure;
    let mut rng = rng0;

    // ---- configuration
    let all_in_defsrc = rng.coin();
    let mut cfg = String::new();
    cfg.push_str(&format!(
        "(defcfg process-unmapped-keys yes{})\n",
        if context == "chordv2" || rng.chance(1, 4) { " concurrent-tap-hold yes" } else { "" }
    ));
    let others: Vec<&str> = if all_in_defsrc { used.clone() } else { vec![] };
    let second_src = if context == "chordv2" { " q" } else { "" };
    cfg.push_str(&format!("(defsrc k{second_src} {})\n", others.join(" ")));
    cfg.push_str("(defvirtualkeys vz w)\n");
    if let Some(dv) = &defvar {
        cfg.push_str(&format!("(defvar dv {dv})\n"));
    }
    let cell = match context {
        "alias" => {
            cfg.push_str(&format!("(defalias sw {sw})\n"));
            "@sw".to_string()
        }
        "multi" => format!("(multi lsft {sw})"),
        "vkey" => {
            cfg.push_str(&format!("(defvirtualkeys vs {sw})\n"));
            "(multi (on-press press-vkey vs) (on-release release-vkey vs))".to_string()
        }
        "fork" => format!("(fork {sw} q (rctl))"),
        "taphold-hold" => format!("(tap-hold-press 20 20 q {sw})"),
        "chordv2" => {
            cfg.push_str(&format!("(defchordsv2 (k q) {sw} 30 all-released ())\n"));
            "k".to_string()
        }
        _ => sw.clone(),
    };
    let blanks = vec!["_"; others.len()].join(" ");
    let second_cell = if context == "chordv2" { " q" } else { "" };
    cfg.push_str(&format!("(deflayer l0 {cell}{second_cell} {blanks})\n"));
    cfg.push_str(&format!("(deflayer l1 _{} {blanks})\n", if context == "chordv2" { " _" } else { "" }));

    // ---- histories
    let kc = osc("k");
    let qc = osc("q");
    let code = |n: &str| osc(n);
    let chord = context == "chordv2";
    let tap_k = |rng: &mut Rng, h: &mut Vec<Ev>| {
        h.push(Ev::P(kc));
        if chord {
            h.push(Ev::T(*rng.pick(&[0u32, 1, 5])));
            h.push(Ev::P(qc));
        }
        h.push(Ev::T(*rng.pick(&[1u32, 5, 25, 60])));
        h.push(Ev::R(kc));
        if chord {
            h.push(Ev::R(qc));
        }
        h.push(Ev::T(*rng.pick(&[1u32, 5, 40])));
    };
    let hold_then_tap = |rng: &mut Rng, held: &[&str]| -> Vec<Ev> {
        let mut ks: Vec<u16> = held.iter().map(|n| code(n)).collect();
        rng.shuffle(&mut ks);
        let mut h = vec![];
        for k in &ks {
            h.push(Ev::P(*k));
            let g = *rng.pick(&[0u32, 1, 1, 5]);
            if g > 0 {
                h.push(Ev::T(g));
            }
        }
        h.push(Ev::T(*rng.pick(&[1u32, 3, 30])));
        tap_k(rng, &mut h);
        rng.shuffle(&mut ks);
        for k in &ks {
            h.push(Ev::R(*k));
        }
        h.push(Ev::T(200));
        h
    };
    let mut hists: Vec<(&'static str, Vec<Ev>)> = vec![];
    hists.push(("none", hold_then_tap(&mut rng, &[])));
    let mut with_z = hold.clone();
    if let Some(z) = zkey {
        with_z.push(z);
    }
    hists.push(("descent+inner", hold_then_tap(&mut rng, &with_z)));
    hists.push(("descent-inner", hold_then_tap(&mut rng, &hold)));
    hists.push(("all", hold_then_tap(&mut rng, &used)));
    {
        // walk: the descent set, then every key that is a direct operand of a spine list flipped in
        // turn (outermost list first), the switch key tapped after every flip: the evaluation is
        // decided at every intermediate level once
        let mut h = vec![];
        let mut down: Vec<&str> = with_z.clone();
        for k in &down {
            h.push(Ev::P(code(k)));
            h.push(Ev::T(1));
        }
        tap_k(&mut rng, &mut h);
        for lvl in 0..d {
            for k in &spine_keys[lvl] {
                let was = down.contains(k);
                h.push(if was { Ev::R(code(k)) } else { Ev::P(code(k)) });
                h.push(Ev::T(1));
                tap_k(&mut rng, &mut h);
                h.push(if was { Ev::P(code(k)) } else { Ev::R(code(k)) });
                h.push(Ev::T(1));
            }
        }
        for k in down.drain(..) {
            h.push(Ev::R(code(k)));
        }
        h.push(Ev::T(200));
        hists.push(("walk", h));
    }
    for _ in 0..2 {
        let sub: Vec<&str> = used.iter().copied().filter(|_| rng.coin()).collect();
        hists.push(("subset", hold_then_tap(&mut rng, &sub)));
    }
    let mut mapped: Vec<u16> = used.iter().map(|n| code(n)).collect();
    mapped.push(kc);
    if chord {
        mapped.push(qc);
    }
    let mut h = hist::hostile(&mut rng, &mapped, 60, &[0, 1, 2, 25, 61]);
    h.push(Ev::T(300));
    hists.push(("hostile", h));
    let mut h = hist::consistent(&mut rng, &mapped, 60, &[0, 1, 5, 21, 61], true);
    h.push(Ev::T(300));
    hists.push(("consistent", h));

    DeepCase {
        cfg,
        hists,
        tag: format!("deep:{d}:{op_mode}:{pos_mode}:{context}{}{}", if via_var { ":var" } else { "" }, if wide { ":wide" } else { "" }),
        spine: d,
        max_nest: nest.max(d),
        nots,
        wide: wide_ops,
        pure: pure && !chord && context != "taphold-hold",
        has_innermost_key: zkey.is_some(),
        via_var,
        context,
    }
}

pub fn describe(ctx: &Ctx, j: u64) -> Value {
    let c = make(ctx, j);
    json!({
        "family": "deep-switch",
        "config": c.cfg,
        "spine_lists": c.spine,
        "histories": c.hists.iter().map(|(n, h)| format!("{n}: {}", render_hist(h))).collect::<Vec<_>>(),
    })
}

/// which of the two case outputs (x / y) were pressed
fn fired(sim: &Sim) -> (bool, bool) {
    let mut x = false;
    let mut y = false;
    for o in &sim.trace {
        if o.kind == OutKind::Down {
            x |= o.name == "X";
            y |= o.name == "Y";
        }
    }
    (x, y)
}

pub fn run(ctx: &Ctx, j: u64, out: &mut CaseOut) {
    let c = make(ctx, j);
    if ctx.verbose {
        eprintln!("config:\n{}", c.cfg);
    }
    let mut accepted = false;
    let mut with_inner = None;
    let mut without_inner = None;
    for (name, h) in &c.hists {
        let mut sim = match Sim::new(&c.cfg) {
            Ok(s) => s,
            Err(e) => {
                if ctx.verbose {
                    eprintln!("rejected: {e}");
                }
                break;
            }
        };
        accepted = true;
        let observe = *name == "descent+inner" || *name == "descent-inner";
        sim.keep_trace = observe;
        if ctx.verbose {
            eprintln!("history {name}: {}", render_hist(h));
        }
        sim.run(h);
        out.count("events", h.len() as u64);
        out.count("ticks", sim.now);
        out.count("outputs", sim.os.outputs);
        out.inc("deep_histories_run");
        match *name {
            "descent+inner" => {
                out.inc("deep_descent_histories");
                with_inner = Some(fired(&sim));
            }
            "descent-inner" => {
                out.inc("deep_descent_histories");
                without_inner = Some(fired(&sim));
            }
            _ => {}
        }
    }
    if accepted {
        out.inc("configs_accepted");
        out.inc("deep_configs_accepted");
        out.tag(c.tag.clone());
        out.inc(&format!("deep_accepted_in_{}", c.context));
        out.max("deep_spine_accepted", c.spine as u64);
        out.max("deep_nesting_accepted", c.max_nest as u64);
        if c.nots > 0 {
            out.inc("deep_accepted_with_not");
            out.max("deep_spine_accepted_with_not", c.spine as u64);
        }
        if c.spine >= 7 {
            out.inc("deep_accepted_at_limit");
        }
        if c.via_var {
            out.inc("deep_accepted_via_defvar");
        }
        if let Some(n) = c.wide {
            out.inc("deep_wide_accepted");
            out.max("deep_wide_opcodes_accepted", n as u64);
        }
        if c.has_innermost_key {
            if let (Some(a), Some(b)) = (with_inner, without_inner) {
                if a != b {
                    out.inc("deep_innermost_decides");
                    if c.spine >= 7 {
                        out.inc("deep_innermost_decides_at_limit");
                    }
                } else if c.pure {
                    // evidence only: the descent model of this file and the evaluator disagree
                    out.inc("deep_descent_model_mismatch");
                }
            }
        }
    } else {
        out.inc("configs_rejected");
        out.inc("deep_configs_rejected");
        if c.spine >= 9 {
            out.inc("deep_rejected_beyond_limit");
        }
        if c.wide.is_some() {
            out.inc("deep_wide_rejected");
        }
    }
    if j % 97 == 3 {
        out.sample = Some(json!({"family": "deep-switch", "j": j, "config": c.cfg, "accepted": accepted,
            "descent_history": render_hist(&c.hists[1].1)}));
    }
}
