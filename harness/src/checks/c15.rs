//! C15 — not implemented yet (stub so that the registry compiles).

use crate::core::{CaseOut, Check, Ctx};

pub struct C15Check;
pub static C15: C15Check = C15Check;

impl Check for C15Check {
    fn id(&self) -> &'static str {
        "C15"
    }
    fn n_cases(&self, _ctx: &Ctx) -> u64 {
        0
    }
    fn run_case(&self, _ctx: &Ctx, _idx: u64) -> CaseOut {
        CaseOut::new()
    }
    fn rule(&self) -> String {
        "not implemented".into()
    }
    fn assumptions(&self) -> Vec<String> {
        vec![]
    }
}
