//! C15 — live reload is all-or-nothing: a reload that fails keeps the old configuration and behaves
//! exactly as if no reload had been requested; a reload that succeeds is applied once no output key
//! is down (or after one idle second), activates the first layer, leaves nothing pressed, notifies
//! clients (ConfigFileReload + LayerChange) and from the next idle point on behaves exactly like a
//! freshly started instance of the new file.
//!
//! Everything runs on the real code. The reload path (`handle_time_ticks` → `do_live_reload`) is
//! private and wall-clock driven; the `--cfg kanata_verif` hooks let the ReloadDriver below run it
//! in virtual time: one virtual millisecond = one iteration of the processing loop =
//! `can_block_update_idle_waiting(1)` + (the input event the iteration receives, if any:
//! `handle_input_event`) + `verif_rewind_last_tick(1.3 ms)` + `verif_handle_time_ticks(&tx)`, and
//! the returned `ms_elapsed` is checked to be exactly 1. Key events are delivered in one of two ways
//! (a dimension of the case): in the loop's own order, so that every key event is an iteration of
//! its own (what both branches of `start_processing_loop` do: the blocking one rewinds `last_tick` by
//! 1 ms after `recv`, the polling one has slept 1 ms), or only queued between two iterations (several
//! events can then reach the layout in the same millisecond). Configurations are real files in a
//! per-case scratch directory, notifications are read from a real `sync_channel::<ServerMessage>(100)`.
//!
//! Oracles (relational):
//!  * failed reload  : run A (reload key = lrld…) vs twin B (same files, same history, but every
//!                     reload key is `(lrld-file "<path that is not an argument>")`, a custom action
//!                     without effect): identical complete traces and notifications, no
//!                     ConfigFileReload.
//!  * successful one : not applied while an OS key is down unless > 1000 ms passed since the last
//!                     input/output; right notifications; first layer active; after application no
//!                     output other than releases until new input; everything up, nothing scrolling
//!                     or moving at the idle point; from the idle point on identical (tick-relative)
//!                     to a fresh `Kanata::new` of the new file on the same continuation.
//!
//!  * progress       : a pending request is applied at the latest once `bound` consecutive loop
//!                     iterations passed without input event, without output, without an OS key
//!                     down and with nothing physically held but keys that hold a silent custom
//!                     action (the reload key itself, a mouse-button key, an arbitrary-code key);
//!                     bound = 1000 (the idle second) + the longest duration the active
//!                     configuration names (every timer of its own has run out by then) + 100.
//!                     Class `no-reload-after-one-idle-second:<what the OS has down>`. Without this
//!                     clause a reload that only comes when the held key is finally released
//!                     satisfies every other clause, so a one-idle-second fallback that never fires
//!                     for held custom actions went unnoticed.
//!
//! A case is one reload episode (state before the request, request(s), what happens while the request
//! is pending, idle point, continuation) or a session of 2-3 episodes on the same running instance:
//! the continuation of one episode is the typing before the next request, the files stay as they
//! are, each request selects its file relative to the one that is active by then. Every episode is
//! judged by all the oracles for a successful reload (the deferral oracle for every request, the
//! comparison with a fresh instance of the file that episode installed for every continuation), so
//! anything that one reload leaves behind in the running instance (counters, flags, tables) and that
//! changes how a later request is handled shows up. Earlier episodes are steered through every way a
//! reload can be applied: at once, on the release of the last key, by the one-idle-second fallback
//! (reload key itself / mouse button / wheel / movement / unmod key held for more than a second),
//! with a key typed while the request is pending.
//!
//! What a reload must replace outside the layout (the process-global zippychord state, the sequence
//! table, the virtual-key name table, the option fields copied in `do_live_reload`) is varied
//! independently between the old configuration and every new file, and the continuation contains
//! directed pieces (chords pressed together, leader + sequence, virtual keys by name, dynamic-macro
//! record / replay, staggered accelerated mouse keys) so that a table or option that survives the
//! reload shows up in the comparison with the fresh instance.
//!
//! Held custom actions and the fallback: the scenario "mouse-button-held" holds one of mlft / mrgt /
//! mmid / mfwd / mbck / (arbitrary-code n); in half of the successful cases of that scenario the key
//! stays held, with no further input (or after one key tapped early in the wait), for bound + 30 /
//! 200 / 700 iterations after the request; the reload key itself is held that long in a tenth of the
//! other successful single-episode cases, in half of the sessions' first episodes and later episodes
//! that hold it for more than a second. Every loop iteration of the wait goes through the real
//! `can_block_update_idle_waiting` + `handle_time_ticks`, which is the only place where kanata's
//! idle counter is kept. (Stream "progress"; the rest of a case is what it was.)
//!
//! OS key repeats: the per-layer table that decides which OS key a `KeyValue::Repeat` input event is
//! forwarded as (`key_outputs`, one entry per layer) is state outside the layout as well, and
//! press / release histories never read it. Continuations therefore contain Repeat events for keys
//! that are physically held (directed pieces: a key held and repeated, with or without the layer
//! key `j` = `(layer-while-held <non-first layer>)` held before / after it, a second key, a repeat
//! after the release; and repeats inserted into the waits of every other piece), identically on the
//! reloaded and on the fresh instance; the files of a case have 2-4 layers each, independently, so a
//! reload also goes to a file with more (or fewer) layers than the configuration before it and
//! repeats arrive while a layer is held whose index the previous configuration did not have. A
//! forwarded repeat that only one side writes (or writes for another key) is the class
//! `differs-from-fresh-instance:forwarded-os-repeat`; a panic of the real code is reported by the
//! runner's crash oracle (`panic:<file>:<message>`).

//!
//! Failed-first sessions: the first request of a session selects a file that holds a broken text
//! (parsed up to its error: whatever the parser changes outside its result before it fails has been
//! changed), the file is repaired, a second request (absolute: lrld-num / lrld-file) reloads a valid
//! file and must equal a fresh instance of it, like every later episode.
//!
//! Key names: what a key name means is decided by a process-global table of the parser that a
//! `deflocalkeys-<platform>` block rewrites; a reload parses the new file in a process that has
//! already parsed the previous one(s). Half of the cases (stream "localkeys", helper c15_lk.rs) give
//! the old configuration and every file, independently, a `deflocalkeys-linux` block or none
//! (old block -> new file without one, none -> block, another block, the same block, none -> none),
//! blocks for other platforms that must not matter, extra defsrc entries and first-layer actions
//! written with three names of the case (default names such as `-` `;` `[`, built-in names `0` `9`)
//! and with names of the block's own; blocks redefine the names of the case to other physical keys.
//! Continuations get a probe piece that taps (some with an OS repeat, some overlapping) every
//! physical key that any configuration of the case can mean by one of the names. Every instance
//! that stands for a newly started process (the run itself, the no-request twin, every fresh
//! instance) is created after the table has been put back to its defaults through the parser's
//! public `replace_custom_str_oscode_mapping(&{})`; the fresh instances are created after the run
//! with the reload has ended, so they do not disturb it. A difference from the fresh instance in an
//! episode whose reloaded file uses a name that an earlier configuration of the process gave
//! another meaning is the class
//! `differs-from-fresh-instance:key-name-meant-something-else-before-the-reload`.

use super::c07::dcommon::{drain_into, kind_class};
use crate::core::rng::Rng;
use crate::core::sim::{first_diff, osc, render_hist, Ev, Out, OutKind, Sim};
use crate::core::{CaseOut, Check, Ctx};
use kanata_tcp_protocol::ServerMessage;
use serde_json::{json, Value};
use std::path::{Path, PathBuf};
use std::sync::mpsc::{Receiver, SyncSender};

#[path = "c15_lk.rs"]
mod c15_lk;
use c15_lk::LkSpec;

pub struct C15Check;
pub static C15: C15Check = C15Check;

// ------------------------------------------------------------------------------------------
// ReloadDriver
// ------------------------------------------------------------------------------------------

#[derive(Clone, Debug, PartialEq)]
enum Note {
    Reload(String),
    Layer(String),
    Other(String),
}

impl Note {
    fn short(&self) -> String {
        match self {
            Note::Reload(p) => format!("ConfigFileReload({})", Path::new(p).file_name().map(|s| s.to_string_lossy().to_string()).unwrap_or_default()),
            Note::Layer(l) => format!("LayerChange({l})"),
            Note::Other(s) => format!("Other({s})"),
        }
    }
}

struct Rd {
    sim: Sim,
    tx: Option<SyncSender<ServerMessage>>,
    rx: Receiver<ServerMessage>,
    notes: Vec<(u64, Note)>,
    /// ms_elapsed != 1 was observed (scheduling jitter): the run must be repeated
    jitter: bool,
    err: Option<String>,
    /// virtual time of the last input event (start of the iteration that received it, or the
    /// point between two iterations at which it was queued) or output (start of the iteration that
    /// produced it)
    last_activity: u64,
    /// true: a key event is one iteration of the processing loop, in the loop's order
    /// (`can_block_update_idle_waiting`, `handle_input_event`, `handle_time_ticks` = 1 ms);
    /// false: a key event is only queued (`handle_input_event`) and the following tick processes it
    loop_order: bool,
}

impl Rd {
    fn new(paths: Vec<PathBuf>, loop_order: bool) -> Result<Rd, String> {
        let sim = Sim::from_paths(paths)?;
        let (tx, rx) = std::sync::mpsc::sync_channel::<ServerMessage>(100);
        Ok(Rd { sim, tx: Some(tx), rx, notes: vec![], jitter: false, err: None, last_activity: 0, loop_order })
    }
    /// One iteration of the processing loop = one virtual millisecond through the real
    /// `handle_time_ticks`; `ev` is the input event that the iteration receives, if any.
    fn iteration(&mut self, ev: Option<&Ev>) {
        let start = self.sim.now;
        let _ = self.sim.k.can_block_update_idle_waiting(1);
        if let Some(e) = ev {
            self.sim.apply(e);
        }
        self.sim.k.verif_rewind_last_tick(std::time::Duration::from_micros(1300));
        match self.sim.k.verif_handle_time_ticks(&self.tx) {
            Ok(1) => {}
            Ok(_) => self.jitter = true,
            Err(e) => self.err = Some(format!("{e}")),
        }
        self.sim.now += 1;
        drain_into(&mut self.sim, true);
        if ev.is_some() || !self.sim.last().is_empty() {
            // (an output is stamped with the start of the iteration that produced it: "one idle
            // second" is then 1000 whole iterations without input or output, which is what the
            // unchanged tree needs after an output as well as after an input)
            self.last_activity = start;
        }
        while let Ok(m) = self.rx.try_recv() {
            let n = match m {
                ServerMessage::ConfigFileReload { new } => Note::Reload(new),
                ServerMessage::LayerChange { new } => Note::Layer(new),
                other => Note::Other(format!("{other:?}")),
            };
            self.notes.push((self.sim.now, n));
        }
    }
    fn tick(&mut self) {
        self.iteration(None);
    }
    /// does this event take a loop iteration of its own?
    fn is_iteration_event(&self, e: &Ev) -> bool {
        self.loop_order && matches!(e, Ev::P(_) | Ev::R(_) | Ev::Rep(_) | Ev::Tap(_))
    }
    fn apply(&mut self, e: &Ev) {
        match e {
            Ev::T(n) => {
                for _ in 0..*n {
                    self.tick();
                }
            }
            other if self.is_iteration_event(other) => self.iteration(Some(other)),
            other => {
                // queued only (virtual keys operated by the TCP server thread are always of this
                // kind: they arrive between two iterations)
                self.sim.apply(other);
                self.last_activity = self.sim.now;
            }
        }
    }
    fn run(&mut self, h: &[Ev]) {
        for e in h {
            self.apply(e);
        }
    }
}

// ------------------------------------------------------------------------------------------
// configurations
// ------------------------------------------------------------------------------------------

const ACT_KEYS: &[&str] = &["a", "s", "d", "f", "g", "h"];
const RELOAD_KEYS: &[&str] = &["1", "2", "3", "4", "5"];
/// physical key that every file maps (on its first layer) to `(layer-while-held <a non-first layer>)`;
/// it is only pressed by the directed OS-repeat pieces of a continuation
const LAYER_KEY: &str = "j";
const LAYER_NAMES: &[&str] = &["base", "main", "alpha", "first", "qwerty", "nav", "sym", "fn", "other", "two"];
const OLD_LETTERS: &[&str] = &["q", "w", "e", "r", "t", "y", "u", "i", "o", "p", "k", "l"];
const NEW_LETTERS: &[&str] = &["z", "x", "c", "v", "b", "n", "m", "6", "7", "8", "k", "l"];

/// zippychord part of a configuration: `(defzippy <file> <opts>)` plus the dictionary file content
#[derive(Clone, Debug, PartialEq)]
struct ZippySpec {
    file: String,
    /// (input column, output column)
    entries: Vec<(String, String)>,
    opts: String,
}

fn dict_text(z: &ZippySpec) -> String {
    let mut t = String::from("// generated\n");
    for (i, o) in &z.entries {
        t.push_str(&format!("{i}\t{o}\n"));
    }
    t
}

#[derive(Clone, Debug)]
struct CfgSpec {
    l0: String,
    l1: String,
    acts0: Vec<String>,
    acts1: Vec<String>,
    /// defcfg options (name, value) besides process-unmapped-keys
    opts: Vec<(String, String)>,
    overrides: Option<(String, String)>,
    /// defvirtualkeys in definition order (the order is the index the TCP name table maps to)
    vkeys: Vec<(String, String)>,
    /// defseq entries: (virtual key name, key list)
    seqs: Vec<(String, String)>,
    zippy: Option<ZippySpec>,
    /// layers after the second one: (name, actions of ACT_KEYS); 0-2 of them, so the number of
    /// layers (= the length of the per-layer key-repeat table) differs between the files of a case
    extra: Vec<(String, Vec<String>)>,
    /// action of LAYER_KEY on the first layer (transparent on the others)
    lkey: String,
    /// key-name dimension: deflocalkeys blocks, defsrc entries and first-layer actions written with
    /// the names of the case (empty: the file has nothing of it)
    lk: LkSpec,
}

impl CfgSpec {
    fn n_layers(&self) -> usize {
        2 + self.extra.len()
    }
    fn opt(&self, name: &str) -> String {
        self.opts.iter().find(|o| o.0 == name).map(|o| o.1.clone()).unwrap_or_else(|| "default".into())
    }
}

/// defcfg options that `do_live_reload` copies into the running instance (or that live in the
/// replaced layout) and that the generator varies independently for the old and the new file
const VARIED_OPTS: &[&str] = &[
    "concurrent-tap-hold",
    "rapid-event-delay",
    "override-release-on-activation",
    "sequence-timeout",
    "sequence-input-mode",
    "sequence-backtrack-modcancel",
    "sequence-always-on",
    "movemouse-smooth-diagonals",
    "movemouse-inherit-accel-state",
    "dynamic-macro-max-presses",
    "dynamic-macro-replay-delay-behaviour",
];

fn reload_row(num: usize, file: &str, noop: bool) -> String {
    if noop {
        let n = "(lrld-file \"/verif/.work/not-an-argument.kbd\")";
        return format!("{n} {n} {n} {n} {n}");
    }
    format!("lrld lrld-next lrld-prev (lrld-num {num}) (lrld-file \"{file}\")")
}

fn cfg_text(s: &CfgSpec, row: &str) -> String {
    let mut t = String::new();
    if !s.lk.block_last {
        t.push_str(&c15_lk::blocks_text(&s.lk));
    }
    t.push_str("(defcfg process-unmapped-keys yes");
    for (n, v) in &s.opts {
        t.push_str(&format!(" {n} {v}"));
    }
    t.push_str(")\n");
    let lk_src: String = s.lk.src.iter().map(|n| format!(" {n}")).collect();
    let lk_l0: String = s.lk.acts.iter().map(|a| format!(" {a}")).collect();
    let lk_ln: String = s.lk.src.iter().map(|_| " _").collect();
    t.push_str(&format!("(defsrc {} {LAYER_KEY} {}{lk_src})\n", ACT_KEYS.join(" "), RELOAD_KEYS.join(" ")));
    t.push_str("(defvirtualkeys");
    for (n, a) in &s.vkeys {
        t.push_str(&format!(" {n} {a}"));
    }
    t.push_str(")\n");
    t.push_str(&format!("(deflayer {}\n  {}\n  {}\n  {row}{lk_l0})\n", s.l0, s.acts0.join("\n  "), s.lkey));
    t.push_str(&format!("(deflayer {}\n  {}\n  _\n  {row}{lk_ln})\n", s.l1, s.acts1.join("\n  ")));
    for (name, acts) in &s.extra {
        t.push_str(&format!("(deflayer {name}\n  {}\n  _\n  {row}{lk_ln})\n", acts.join("\n  ")));
    }
    if let Some((a, b)) = &s.overrides {
        t.push_str(&format!("(defoverrides ({a}) ({b}))\n"));
    }
    if !s.seqs.is_empty() {
        t.push_str("(defseq");
        for (n, keys) in &s.seqs {
            t.push_str(&format!(" {n} ({keys})"));
        }
        t.push_str(")\n");
    }
    if let Some(z) = &s.zippy {
        t.push_str(&format!("(defzippy {}{})\n", z.file, z.opts));
    }
    if s.lk.block_last {
        t.push_str(&c15_lk::blocks_text(&s.lk));
    }
    t
}

fn rand_action(rng: &mut Rng, letters: &[&str], other_layer: &str) -> String {
    let k = |rng: &mut Rng| rng.pick(letters).to_string();
    match rng.usize(44) {
        0..=15 => k(rng),
        16 | 17 => format!("(tap-hold 200 200 {} lctl)", k(rng)),
        18 | 19 => format!("(one-shot 500 {})", rng.pick(&["lsft", "rctl"])),
        20 | 21 => format!("(macro {} 50 {} 50 {})", k(rng), k(rng), k(rng)),
        22 => "mlft".into(),
        23 => format!("(mwheel-{} 20 120)", rng.pick(&["up", "down", "left"])),
        24 => format!("(movemouse-{} 20 5)", rng.pick(&["left", "up"])),
        25 => "(caps-word 300)".into(),
        26 => "(hold-for-duration 300 v0)".into(),
        27 | 28 => format!("(layer-while-held {other_layer})"),
        29 => format!("(layer-switch {other_layer})"),
        30 | 31 => format!("S-{}", k(rng)),
        32 => format!("(multi lsft {})", k(rng)),
        33 => "(on-press tap-vkey v1)".into(),
        34 => format!("(tap-dance 150 ({} {}))", k(rng), k(rng)),
        35 => format!("(unmod {})", k(rng)),
        37 => format!("(fork {} {} (lsft rctl))", k(rng), k(rng)),
        40 => format!("(movemouse-accel-{} 10 300 1 6)", rng.pick(&["up", "left", "down"])),
        41 => format!("(movemouse-{} 15 3)", rng.pick(&["down", "right", "up"])),
        42 => format!("(switch ((key-timing 1 lt {})) {} break () {} break)", rng.pick(&[80u32, 300, 900]), k(rng), k(rng)),
        _ => k(rng),
    }
}

fn rand_spec(rng: &mut Rng, letters: &[&str], avoid_l0: Option<&str>) -> CfgSpec {
    let mut names: Vec<&str> = LAYER_NAMES.to_vec();
    rng.shuffle(&mut names);
    if let Some(av) = avoid_l0 {
        // most of the time the new first layer has another name than the old one
        if names[0] == av && rng.chance(4, 5) {
            names.swap(0, 2);
        }
    }
    let (l0, l1) = (names[0].to_string(), names[1].to_string());
    let acts0 = (0..ACT_KEYS.len()).map(|_| rand_action(rng, letters, &l1)).collect();
    let acts1 = (0..ACT_KEYS.len()).map(|_| if rng.chance(1, 4) { "_".to_string() } else { rand_action(rng, letters, &l0) }).collect();
    let mut opts: Vec<(String, String)> = vec![];
    let mut opt = |c: bool, n: &str, v: String| {
        if c {
            opts.push((n.to_string(), v));
        }
    };
    opt(rng.chance(1, 3), "concurrent-tap-hold", "yes".into());
    opt(rng.chance(1, 4), "rapid-event-delay", rng.pick(&[0u32, 1, 20]).to_string());
    opt(rng.chance(1, 4), "override-release-on-activation", "yes".into());
    // options that do_live_reload copies into fields of the running instance
    opt(rng.chance(1, 3), "sequence-timeout", rng.pick(&[150u32, 400, 2000]).to_string());
    opt(rng.chance(1, 3), "sequence-input-mode", rng.pick(&["visible-backspaced", "hidden-suppressed", "hidden-delay-type"]).to_string());
    opt(rng.chance(1, 8), "sequence-backtrack-modcancel", "no".into());
    opt(rng.chance(1, 12), "sequence-always-on", "yes".into());
    opt(rng.chance(1, 5), "movemouse-smooth-diagonals", "yes".into());
    opt(rng.chance(1, 5), "movemouse-inherit-accel-state", "yes".into());
    opt(rng.chance(1, 4), "dynamic-macro-max-presses", rng.pick(&[1u32, 3, 6]).to_string());
    opt(rng.chance(1, 4), "dynamic-macro-replay-delay-behaviour", rng.pick(&["constant", "recorded"]).to_string());
    // virtual keys: v0 and v1 always exist (actions refer to them), v2 / v3 sometimes; the
    // definition order (= index behind the name) and what each one does are random
    let mut vnames: Vec<&str> = vec!["v0", "v1"];
    if rng.chance(2, 3) {
        vnames.push("v2");
    }
    if rng.chance(1, 3) {
        vnames.push("v3");
    }
    rng.shuffle(&mut vnames);
    let vkeys: Vec<(String, String)> = vnames
        .iter()
        .map(|n| {
            let a = match rng.usize(8) {
                0 | 1 => rng.pick(letters).to_string(),
                2 => "lalt".to_string(),
                3 => "lsft".to_string(),
                4 | 5 => format!("(macro {} 5 {})", rng.pick(letters), rng.pick(letters)),
                6 => format!("S-{}", rng.pick(letters)),
                _ => format!("(layer-while-held {l1})"),
            };
            (n.to_string(), a)
        })
        .collect();
    // the overridden key is one that the first layer really types (so the table matters)
    let acts0: Vec<String> = acts0;
    let typed: Vec<&String> = acts0.iter().filter(|a| letters.contains(&a.as_str())).collect();
    let overrides = if rng.chance(1, 2) {
        let from = if typed.is_empty() { letters[rng.usize(letters.len())].to_string() } else { (*rng.pick(&typed)).clone() };
        let mut to = letters[rng.usize(letters.len())].to_string();
        if to == from {
            to = "f1".into();
        }
        Some((from, to))
    } else {
        None
    };
    let lkey = format!("(layer-while-held {l1})");
    CfgSpec { l0, l1, acts0, acts1, opts, overrides, vkeys, seqs: vec![], zippy: None, extra: vec![], lkey, lk: LkSpec::default() }
}

/// Give a configuration 0-2 layers after the second one and decide which non-first layer LAYER_KEY
/// holds (the last one half of the time: that is the layer index a file with fewer layers does not
/// have). Draws from the stream of the OS-repeat dimension only.
fn add_layers(xr: &mut Rng, s: &mut CfgSpec, letters: &[&str], weights: [u64; 3]) {
    let total: u64 = weights.iter().sum();
    let r = xr.below(total.max(1));
    let n = if r < weights[0] {
        0
    } else if r < weights[0] + weights[1] {
        1
    } else {
        2
    };
    let names: Vec<&str> = LAYER_NAMES.iter().copied().filter(|x| *x != s.l0 && *x != s.l1).collect();
    let picked = xr.subset(names.len(), n);
    for i in picked {
        let l0 = s.l0.clone();
        let acts: Vec<String> = (0..ACT_KEYS.len()).map(|_| if xr.chance(1, 5) { "_".to_string() } else { rand_action(xr, letters, &l0) }).collect();
        s.extra.push((names[i].to_string(), acts));
    }
    let mut reach: Vec<String> = vec![s.l1.clone()];
    reach.extend(s.extra.iter().map(|e| e.0.clone()));
    let tgt = if xr.coin() { reach[reach.len() - 1].clone() } else { xr.pick(&reach).clone() };
    s.lkey = format!("(layer-while-held {tgt})");
}

// --- features whose state lives outside the replaced layout: zippychord (process-global),
// --- sequences, the virtual-key name table, dynamic-macro options

/// What the continuation generator needs to know about the file the requests end on.
#[derive(Clone, Debug, Default)]
struct Meta {
    /// slots (index into ACT_KEYS) that type distinct plain letters on the first layer
    plain: Vec<usize>,
    /// chords of the case, as slot sets (every dictionary of the case draws from them)
    chords: Vec<Vec<usize>>,
    /// key sequences of the case, as slot lists
    seqs: Vec<Vec<usize>>,
    /// per sequence: defined as (lsft k1 k2 ..) and typed with the lsft key held
    /// (what sequence-backtrack-modcancel is about)
    seq_mod: Vec<bool>,
    sldr: Option<usize>,
    /// slot of a plain lsft key
    lsft: Option<usize>,
    /// (dynamic-macro-record slot, dynamic-macro-play slot)
    dm: Option<(usize, usize)>,
    mouse: Vec<usize>,
    /// two accelerated mouse-movement keys on different axes
    accel: Option<(usize, usize)>,
}

fn set_opt(s: &mut CfgSpec, name: &str, val: &str) {
    s.opts.retain(|o| o.0 != name);
    s.opts.push((name.to_string(), val.to_string()));
}

fn seq_text(keys: Vec<String>, with_lsft: bool) -> String {
    if with_lsft {
        format!("lsft {}", keys.join(" "))
    } else {
        keys.join(" ")
    }
}

#[derive(Clone, Copy, Debug, Default)]
struct Feat {
    /// the case needs chord / sequence letters on this file's first layer
    pool: bool,
    zippy: bool,
    seq: bool,
    dm: bool,
    mouse: bool,
}

fn rand_word(rng: &mut Rng) -> String {
    const OUT: &[&str] = &["a", "b", "c", "d", "e", "f", "g", "h", "i", "j", "m", "n", "o", "p", "r", "s", "t", "u", "w", "y", "1", "2", " "];
    let n = 1 + rng.usize(4);
    let mut w = String::new();
    for i in 0..n {
        let c = rng.pick(OUT).to_string();
        if i == 0 && rng.chance(1, 6) {
            w.push_str(&c.to_uppercase());
        } else {
            w.push_str(&c);
        }
    }
    if w.trim().is_empty() {
        w = "ok".into();
    }
    w
}

fn rand_zippy_opts(rng: &mut Rng) -> String {
    let mut o = String::new();
    if rng.chance(1, 2) {
        o.push_str(&format!(" on-first-press-chord-deadline {}", rng.pick(&[30u32, 120, 700])));
    }
    if rng.chance(1, 2) {
        o.push_str(&format!(" idle-reactivate-time {}", rng.pick(&[60u32, 250, 900])));
    }
    if rng.chance(1, 2) {
        o.push_str(&format!(" smart-space {}", rng.pick(&["none", "add-space-only", "full"])));
    }
    o
}

/// Dictionary over the chords of the case (`pool`, as letters of the file the requests end on) and
/// over `own` letters (what the configuration itself types); inputs are unique as key sets.
fn rand_dict(rng: &mut Rng, file: String, pool: &[Vec<String>], own: &[String], follow: &[String]) -> ZippySpec {
    let mut entries: Vec<(String, String)> = vec![];
    let mut seen: Vec<Vec<String>> = vec![];
    let add = |rng: &mut Rng, entries: &mut Vec<(String, String)>, seen: &mut Vec<Vec<String>>, chord: &[String]| -> bool {
        let mut key = chord.to_vec();
        key.sort();
        key.dedup();
        if key.len() != chord.len() || seen.contains(&key) {
            return false;
        }
        seen.push(key);
        entries.push((chord.concat(), rand_word(rng)));
        true
    };
    for (i, c) in pool.iter().enumerate() {
        if i == 0 || rng.chance(3, 4) {
            let mut c = c.clone();
            rng.shuffle(&mut c);
            if add(rng, &mut entries, &mut seen, &c) && !follow.is_empty() && rng.chance(1, 2) {
                // follow-up chord of an existing chord
                let base = entries.last().map(|e| e.0.clone()).unwrap_or_default();
                entries.push((format!("{base} {}", rng.pick(follow)), rand_word(rng)));
            }
        }
    }
    if own.len() >= 2 {
        for _ in 0..rng.usize(3) {
            let k = 2 + rng.usize(2.min(own.len() - 1));
            let c: Vec<String> = rng.subset(own.len(), k.min(own.len())).into_iter().map(|i| own[i].clone()).collect();
            add(rng, &mut entries, &mut seen, &c);
        }
    }
    ZippySpec { file, entries, opts: rand_zippy_opts(rng) }
}

fn sldr_action(rng: &mut Rng) -> String {
    match rng.usize(6) {
        0 => "(sequence 300)".into(),
        1 => format!("(sequence 500 {})", rng.pick(&["visible-backspaced", "hidden-suppressed", "hidden-delay-type"])),
        _ => "sldr".into(),
    }
}

fn plain_letters(s: &CfgSpec, letters: &[&str]) -> Vec<String> {
    let mut v: Vec<String> = vec![];
    for a in &s.acts0 {
        if letters.contains(&a.as_str()) && !v.contains(a) {
            v.push(a.clone());
        }
    }
    v
}

/// Give a new configuration the features of the case and return where they sit.
fn decorate_new(rng: &mut Rng, s: &mut CfgSpec, letters: &[&str], f: Feat, dict_file: String) -> Meta {
    let mut m = Meta::default();
    let mut seen: Vec<String> = vec![];
    for (i, a) in s.acts0.iter().enumerate() {
        if letters.contains(&a.as_str()) && !seen.contains(a) {
            seen.push(a.clone());
            m.plain.push(i);
        }
    }
    if f.pool {
        rng.shuffle(&mut m.plain);
        m.plain.truncate(3);
        let mut free: Vec<usize> = (0..ACT_KEYS.len()).filter(|i| !m.plain.contains(i)).collect();
        rng.shuffle(&mut free);
        while m.plain.len() < 3 {
            let Some(slot) = free.pop() else { break };
            let used: Vec<String> = s.acts0.iter().cloned().collect();
            let unused: Vec<&str> = letters.iter().copied().filter(|l| !used.iter().any(|x| x == l)).collect();
            if unused.is_empty() {
                break;
            }
            s.acts0[slot] = rng.pick(&unused).to_string();
            m.plain.push(slot);
        }
        // slots outside `plain` must not type one of the chord letters a second time
        let chord_letters: Vec<String> = m.plain.iter().map(|i| s.acts0[*i].clone()).collect();
        for i in 0..ACT_KEYS.len() {
            if !m.plain.contains(&i) && chord_letters.contains(&s.acts0[i]) {
                let used: Vec<String> = s.acts0.iter().cloned().collect();
                let unused: Vec<&str> = letters.iter().copied().filter(|l| !used.iter().any(|x| x == l)).collect();
                if !unused.is_empty() {
                    s.acts0[i] = rng.pick(&unused).to_string();
                }
            }
        }
    }
    let mut free: Vec<usize> = (0..ACT_KEYS.len()).filter(|i| !m.plain.contains(i)).collect();
    rng.shuffle(&mut free);
    if f.seq {
        if let Some(slot) = free.pop() {
            s.acts0[slot] = sldr_action(rng);
            m.sldr = Some(slot);
        }
        if rng.chance(1, 2) {
            if let Some(slot) = free.pop() {
                s.acts0[slot] = "lsft".into();
                m.lsft = Some(slot);
            }
        }
        if rng.chance(1, 3) {
            // the option whose defaults for time-out and input mode are the Kanata-level fields
            set_opt(s, "sequence-always-on", "yes");
        }
    }
    if f.mouse && free.len() >= 2 {
        let (a, b) = (free.pop().unwrap_or(0), free.pop().unwrap_or(1));
        s.acts0[a] = format!("(movemouse-accel-{} 10 400 1 9)", rng.pick(&["up", "down"]));
        s.acts0[b] = format!("(movemouse-accel-{} 10 400 1 9)", rng.pick(&["left", "right"]));
        m.accel = Some((a, b));
    }
    if f.dm && free.len() >= 2 {
        let (r, p) = (free.pop().unwrap_or(0), free.pop().unwrap_or(1));
        s.acts0[r] = "(dynamic-macro-record 1)".into();
        s.acts0[p] = "(dynamic-macro-play 1)".into();
        m.dm = Some((r, p));
        if let Some(x) = free.pop() {
            if rng.chance(1, 3) {
                s.acts0[x] = rng.pick(&["dynamic-macro-record-stop", "(dynamic-macro-record-stop-truncate 1)"]).to_string();
            }
        }
    }
    if f.pool && m.plain.len() >= 2 {
        let np = m.plain.len();
        for _ in 0..1 + rng.usize(3) {
            let k = (2 + rng.usize(2)).min(np);
            let mut c: Vec<usize> = rng.subset(np, k).into_iter().map(|i| m.plain[i]).collect();
            c.sort();
            if !m.chords.contains(&c) {
                m.chords.push(c);
            }
        }
        // key sequences with pairwise different first keys (no sequence is a prefix of another)
        let mut firsts = m.plain.clone();
        rng.shuffle(&mut firsts);
        for first in firsts.into_iter().take(1 + rng.usize(2)) {
            let mut q = vec![first];
            let mut rest: Vec<usize> = m.plain.iter().copied().filter(|x| *x != first).collect();
            rng.shuffle(&mut rest);
            q.extend(rest.into_iter().take(1 + rng.usize(2)));
            m.seqs.push(q);
            m.seq_mod.push(m.lsft.is_some() && rng.coin());
        }
    }
    let letter = |s: &CfgSpec, slot: usize| s.acts0[slot].clone();
    if f.seq {
        for (q, md) in m.seqs.iter().zip(&m.seq_mod) {
            let v = rng.pick(&s.vkeys).0.clone();
            s.seqs.push((v, seq_text(q.iter().map(|x| letter(s, *x)).collect(), *md)));
        }
    }
    if f.zippy {
        let pool: Vec<Vec<String>> = m.chords.iter().map(|c| c.iter().map(|x| letter(s, *x)).collect()).collect();
        let own = plain_letters(s, letters);
        s.zippy = Some(rand_dict(rng, dict_file, &pool, &own, &own));
    }
    m.mouse = (0..ACT_KEYS.len()).filter(|i| s.acts0[*i].starts_with("(movemouse")).collect();
    m
}

/// Give the old configuration features that refer to what the file the requests end on types:
/// its dictionary / sequence table stays observable after the reload if it survives.
fn decorate_old(rng: &mut Rng, old: &mut CfgSpec, tgt: &CfgSpec, tm: &Meta, f: Feat) {
    if f.seq {
        // slots 0 and 1 belong to the pre-state scenario
        let slot = 2 + rng.usize(ACT_KEYS.len() - 2);
        old.acts0[slot] = sldr_action(rng);
        for (q, md) in tm.seqs.iter().zip(&tm.seq_mod) {
            if rng.chance(3, 4) {
                let v = rng.pick(&old.vkeys).0.clone();
                old.seqs.push((v, seq_text(q.iter().map(|x| tgt.acts0[*x].clone()).collect(), *md)));
            }
        }
        if rng.chance(1, 3) {
            set_opt(old, "sequence-always-on", "yes");
        }
        if old.seqs.is_empty() {
            let own = plain_letters(old, OLD_LETTERS);
            if own.len() >= 2 {
                let v = rng.pick(&old.vkeys).0.clone();
                old.seqs.push((v, format!("{} {}", own[0], own[1])));
            }
        }
    }
    if f.zippy {
        let pool: Vec<Vec<String>> = tm.chords.iter().map(|c| c.iter().map(|x| tgt.acts0[*x].clone()).collect()).collect();
        let own = plain_letters(old, OLD_LETTERS);
        let follow: Vec<String> = tm.plain.iter().map(|x| tgt.acts0[*x].clone()).collect();
        old.zippy = Some(rand_dict(rng, "zip-old.txt".into(), &pool, &own, &follow));
    }
}

#[derive(Clone, Debug, PartialEq)]
enum Content {
    Valid,
    Syntax,
    Semantic,
    Missing,
    Directory,
    NonUtf8,
    /// the configuration text is fine but the zippychord dictionary it names is malformed
    BadDict,
}
const FAULTS: &[Content] = &[Content::Syntax, Content::Semantic, Content::Missing, Content::Directory, Content::NonUtf8, Content::BadDict];

fn fault_name(c: &Content) -> &'static str {
    match c {
        Content::Valid => "valid",
        Content::Syntax => "syntax-error",
        Content::Semantic => "semantic-error",
        Content::Missing => "missing-file",
        Content::Directory => "directory",
        Content::NonUtf8 => "non-utf8",
        Content::BadDict => "broken-zippy-dictionary",
    }
}

fn write_content(path: &Path, c: &Content, valid_text: &str, variant: u64) -> std::io::Result<()> {
    let _ = std::fs::remove_file(path);
    let _ = std::fs::remove_dir_all(path);
    match c {
        Content::Valid => std::fs::write(path, valid_text),
        Content::Syntax => {
            let t = match variant % 3 {
                0 => valid_text.trim_end().trim_end_matches(')').to_string(),
                1 => format!("{valid_text}\n(deflayer broken a s d"),
                _ => valid_text.replacen("(defsrc", "(defsrc \"unterminated", 1),
            };
            std::fs::write(path, t)
        }
        Content::Semantic => {
            let t = match variant % 4 {
                0 => valid_text.replacen("lrld-next", "@no-such-alias", 1),
                1 => valid_text.replacen("lrld-prev", "(tap-hold 200 0 a b)", 1),
                2 => format!("{valid_text}\n(deflayer extra a)\n"),
                _ => valid_text.replacen("lrld-prev", "(layer-switch no-such-layer)", 1),
            };
            std::fs::write(path, t)
        }
        Content::Missing => Ok(()),
        Content::BadDict => std::fs::write(path, valid_text),
        Content::Directory => std::fs::create_dir_all(path),
        Content::NonUtf8 => {
            let mut b = valid_text.as_bytes().to_vec();
            let pos = b.len() / 2;
            b.splice(pos..pos, [0xff, 0xfe, 0x80, 0xc3, 0x28]);
            std::fs::write(path, b)
        }
    }
}

/// Put file `path` into state `c`, together with the dictionary its valid text names.
fn write_state(dir: &Path, path: &Path, c: &Content, spec: &CfgSpec, valid_text: &str, variant: u64) -> std::io::Result<()> {
    if let Some(z) = &spec.zippy {
        std::fs::write(dir.join(&z.file), dict_text(z))?;
    }
    if *c != Content::BadDict {
        return write_content(path, c, valid_text, variant);
    }
    // (a dictionary file that does not exist is read as an empty one, like a missing include, so
    // only malformed dictionaries are faults)
    let (d, good, text) = match &spec.zippy {
        Some(z) => (dir.join(&z.file), dict_text(z), valid_text.to_string()),
        None => (dir.join("zip-bad.txt"), String::new(), format!("{valid_text}(defzippy zip-bad.txt)\n")),
    };
    match variant % 3 {
        0 => std::fs::write(&d, format!("{good}no tab in this line\n"))?,
        1 => std::fs::write(&d, format!("{good}zx\t\u{a7}\u{a7}\n"))?,
        _ => std::fs::write(&d, format!("\tword\n{good}"))?,
    }
    write_content(path, c, &text, variant)
}

// ------------------------------------------------------------------------------------------
// cases
// ------------------------------------------------------------------------------------------

const SCENARIOS: &[&str] = &[
    "idle", "key-held", "pending-tap-hold", "active-one-shot", "running-macro", "mouse-button-held", "mwheel-held", "movemouse-held",
    "caps-word", "pending-hold-for-duration", "layer-held", "layer-switched", "unmod-held-1s", "key-held-long", "two-keys-held", "random-typing",
];
const REQ_KINDS: &[&str] = &["lrld", "lrld-next", "lrld-prev", "lrld-num", "lrld-file"];

/// One tap of a reload key.
#[derive(Clone, Debug)]
struct Req {
    /// index into REQ_KINDS
    kind: usize,
    /// ticks the reload key is held
    hold: u32,
    /// ticks after its release
    after: u32,
    /// another key (slot of ACT_KEYS) tapped for 3 ticks after `.0` ticks of the hold
    mid: Option<(u32, usize)>,
}

fn req_events(r: &Req) -> Vec<Ev> {
    let key = osc(RELOAD_KEYS[r.kind]);
    let mut v = vec![Ev::P(key)];
    match r.mid {
        Some((at, slot)) if at + 3 < r.hold => {
            let x = osc(ACT_KEYS[slot]);
            v.extend([Ev::T(at), Ev::P(x), Ev::T(3), Ev::R(x), Ev::T(r.hold - at - 3)]);
        }
        _ => v.push(Ev::T(r.hold)),
    }
    v.push(Ev::R(key));
    v.push(Ev::T(r.after));
    v
}

fn render_req(r: &Req) -> String {
    let mid = match r.mid {
        Some((at, slot)) if at + 3 < r.hold => format!(" (key {} tapped for 3 ticks after {at} ticks of the hold)", ACT_KEYS[slot]),
        _ => String::new(),
    };
    format!("tap {} (key {}) held {} ticks{mid}, then {} ticks", REQ_KINDS[r.kind], RELOAD_KEYS[r.kind], r.hold, r.after)
}

/// One reload episode of a session: state before the request, the request(s), what happens while
/// the request is pending, and (from the idle point after the reload on) the typing that follows.
struct Episode {
    scenario: &'static str,
    pre: Vec<Ev>,
    reqs: Vec<Req>,
    /// file index after each request, by the harness' own model of the selection rules
    idx_after: Vec<usize>,
    post: Vec<Ev>,
    cont: Vec<Ev>,
    cinfo: ContInfo,
    /// what kind of typing `cont` is ("mixed" = build_cont)
    typing: &'static str,
    /// bound of the progress clause for this episode: 1000 + the longest duration the configuration
    /// that is active when the request is made names + 100 (see `progress_bound`)
    bound: u32,
    /// a custom action that the plan keeps physically held, with no further input, for longer than
    /// `bound` iterations while the request is pending ("mouse-button", "arbitrary-code",
    /// "reload-key"); None: no such wait in this episode
    long_hold: Option<&'static str>,
    /// physical key of `pre` that holds nothing but a silent custom action (mouse button,
    /// arbitrary key code)
    silent_key: Option<u16>,
}

struct Plan {
    nfiles: usize,
    /// valid text of every file (what a "valid" content of file i is); file 0's startup text is `old`
    specs: Vec<CfgSpec>,
    old: CfgSpec,
    /// what is on disk in each file when the first request is made
    contents: Vec<Content>,
    fault_variant: u64,
    /// lrld-num argument (1-based) and lrld-file index, fixed per case (part of every config text)
    num_arg: usize,
    file_arg: usize,
    /// the reload episodes of the case, in order; one, or 2-3 in a session
    eps: Vec<Episode>,
    success: bool,
    /// which of the old / new files have a zippychord dictionary, a sequence table
    zmode: &'static str,
    smode: &'static str,
    /// key events are delivered in the order of the processing loop (see `Rd::loop_order`)
    loop_order: bool,
    session: bool,
    /// key-name dimension: how the old configuration and the file of the first request differ in
    /// their deflocalkeys block ("off": the case has no key-name dimension)
    lkmode: &'static str,
    /// FAILED-FIRST sessions: the file the first request selects is broken (the fault), with the text
    /// of this specification (file index, spec, fault); the request fails, the file is repaired
    /// (its valid text is written) before the second request, which selects its file absolutely
    broken: Option<(usize, CfgSpec, Content)>,
    /// the names of the case
    lk_names: Vec<&'static str>,
    /// every physical key that some configuration of the case can mean by one of the names (the
    /// probe piece of a continuation taps them all)
    lk_codes: Vec<u16>,
}

fn step_idx(kind: usize, cur: usize, n: usize, num_arg: usize, file_arg: usize) -> usize {
    match REQ_KINDS[kind] {
        "lrld" => cur,
        "lrld-next" => (cur + 1) % n,
        "lrld-prev" => (cur + n - 1) % n,
        "lrld-num" => num_arg - 1,
        _ => file_arg,
    }
}

/// The longest duration (in ms = loop iterations) that a configuration names anywhere: every timer
/// that can be running silently when a request is made (pending tap-hold / tap-dance, one-shot,
/// caps-word, hold-for-duration, a started key sequence, zippychord deadlines, macro delays, ...)
/// has run out that long after the last input. Taken from the specification, not from kanata: every
/// number in an action, a virtual key, a defcfg option or a defzippy option, plus the documented
/// defaults of the time-outs that need not be written down (sequence-timeout 1000, zippychord 500).
fn longest_duration(s: &CfgSpec) -> u32 {
    let mut m: u32 = 0;
    let mut leader = false;
    let mut scan = |t: &str| {
        if t.contains("sldr") || t.contains("(sequence") {
            leader = true;
        }
        let mut cur: u64 = 0;
        let mut any = false;
        for ch in t.chars().chain(std::iter::once(' ')) {
            if let Some(d) = ch.to_digit(10) {
                cur = (cur * 10 + d as u64).min(1_000_000);
                any = true;
            } else {
                if any && cur <= 20_000 {
                    m = m.max(cur as u32);
                }
                cur = 0;
                any = false;
            }
        }
    };
    for a in s.acts0.iter().chain(s.acts1.iter()) {
        scan(a);
    }
    for (_, acts) in &s.extra {
        for a in acts {
            scan(a);
        }
    }
    for (_, a) in &s.vkeys {
        scan(a);
    }
    for (_, v) in &s.opts {
        scan(v);
    }
    if let Some(z) = &s.zippy {
        scan(&z.opts);
        m = m.max(500);
    }
    // (a leader key or sequence-always-on without a written time-out uses the default)
    if (leader || s.opt("sequence-always-on") == "yes") && s.opt("sequence-timeout") == "default" {
        m = m.max(1000);
    }
    m
}

/// Bound of the progress clause: a request that is pending must have been applied once this many
/// consecutive loop iterations passed without input event, without output and without an OS key
/// down (one idle second = 1000 iterations, counted by kanata only once its own timers have run
/// out, + 100 iterations of slack).
fn progress_bound(s: &CfgSpec) -> u32 {
    1000 + longest_duration(s) + 100
}

/// number of single-episode cases; the indices above them are sessions
fn n_classic(ctx: &Ctx) -> u64 {
    ctx.tier.sel(2_400, 40_000)
}
fn n_sessions(ctx: &Ctx) -> u64 {
    ctx.tier.sel(640, 9_600)
}

/// sessions whose first request fails (the indices above the sessions)
fn n_failed_first(ctx: &Ctx) -> u64 {
    ctx.tier.sel(240, 3_600)
}

fn make_plan(ctx: &Ctx, idx: u64) -> Plan {
    let nc = n_classic(ctx);
    if idx < nc {
        return make_plan_inner(ctx, idx, idx as usize, false, false);
    }
    if idx >= nc + n_sessions(ctx) {
        let j = (idx - nc - n_sessions(ctx)) as usize;
        let cyc = SCENARIOS.len() * REQ_KINDS.len();
        return make_plan_inner(ctx, idx, (j / cyc) * 2 * cyc + (j % cyc), true, true);
    }
    // sessions: scenario x request kind of the first episode cycle with the index, always valid files
    let j = (idx - nc) as usize;
    let cyc = SCENARIOS.len() * REQ_KINDS.len();
    make_plan_inner(ctx, idx, (j / cyc) * 2 * cyc + (j % cyc), true, false)
}

fn make_plan_inner(ctx: &Ctx, idx: u64, sys: usize, session: bool, failed_first: bool) -> Plan {
    let mut rng = Rng::for_case(ctx.seed, "C15", "case", idx);
    // what was added to the single-episode cases later draws from a stream of its own
    let mut srng = Rng::for_case(ctx.seed, "C15", "session", idx);
    // ... and so does the OS-repeat dimension (number of layers per file, the layer LAYER_KEY holds,
    // the Repeat events of the continuations)
    let mut xr = Rng::for_case(ctx.seed, "C15", "repeat", idx);
    // ... and the progress dimension (which custom action is held, input-free waits beyond the bound
    // of the progress clause)
    let mut pr = Rng::for_case(ctx.seed, "C15", "progress", idx);
    let loop_order = if session { srng.chance(3, 4) } else { srng.chance(1, 3) };
    // systematic part: scenario x request kind x outcome cycle with the index, details are random
    let scenario = SCENARIOS[sys % SCENARIOS.len()];
    let kind0 = (sys / SCENARIOS.len()) % REQ_KINDS.len();
    let success = (sys / (SCENARIOS.len() * REQ_KINDS.len())) % 2 == 0;
    let fault = FAULTS[(sys / (SCENARIOS.len() * REQ_KINDS.len() * 2)) % FAULTS.len()].clone();
    let nfiles = if REQ_KINDS[kind0] == "lrld" { 1 + rng.usize(3) } else { 1 + rng.usize(3) };
    let num_arg = 1 + rng.usize(nfiles);
    let file_arg = rng.usize(nfiles);
    let back_to_back = rng.chance(1, 5);
    let mut reqs = vec![Req { kind: kind0, hold: 1 + rng.usize(20) as u32, after: *rng.pick(&[0u32, 1, 3, 10, 40]), mid: None }];
    if back_to_back {
        let k2 = if success { rng.usize(REQ_KINDS.len()) } else { kind0 };
        reqs.push(Req { kind: k2, hold: 1 + rng.usize(10) as u32, after: *rng.pick(&[0u32, 2, 15]), mid: None });
    }
    if session {
        // one request per episode (which of two back-to-back requests wins is not decided by the
        // statement, and the later episodes have to know which file is active)
        reqs.truncate(1);
        if srng.chance(2, 5) {
            // the reload key itself is held for more than a second: nothing is down in the output,
            // the held custom action defers the reload until the one-idle-second fallback applies it
            reqs[0].hold = 1050 + srng.usize(400) as u32;
            if srng.chance(1, 3) {
                reqs[0].mid = Some((100 + srng.usize(800) as u32, srng.usize(ACT_KEYS.len())));
            }
        }
    }
    let mut idx_after = vec![];
    let mut cur = 0usize;
    for r in &reqs {
        cur = step_idx(r.kind, cur, nfiles, num_arg, file_arg);
        idx_after.push(cur);
    }
    // configurations
    let mut old = rand_spec(&mut rng, OLD_LETTERS, None);
    let other = old.l1.clone();
    let k = |rng: &mut Rng| rng.pick(OLD_LETTERS).to_string();
    let mut pre: Vec<Ev> = vec![];
    let mut held: Vec<&str> = vec![];
    let mut wait_before_release = *rng.pick(&[0u32, 1, 5, 30, 120]);
    // kind of the silent custom action that the scenario holds, if any
    let mut held_custom: Option<&'static str> = None;
    let tapk = |pre: &mut Vec<Ev>, key: &str, hold: u32, after: u32| {
        pre.push(Ev::P(osc(key)));
        pre.push(Ev::T(hold));
        pre.push(Ev::R(osc(key)));
        if after > 0 {
            pre.push(Ev::T(after));
        }
    };
    match scenario {
        "idle" => {}
        "key-held" => {
            old.acts0[0] = k(&mut rng);
            pre.extend([Ev::P(osc("a")), Ev::T(20)]);
            held.push("a");
        }
        "pending-tap-hold" => {
            old.acts0[0] = format!("(tap-hold 200 200 {} lctl)", k(&mut rng));
            pre.extend([Ev::P(osc("a")), Ev::T(*rng.pick(&[5u32, 50, 150]))]);
            held.push("a");
        }
        "active-one-shot" => {
            old.acts0[0] = "(one-shot 500 lsft)".into();
            tapk(&mut pre, "a", 10, *rng.pick(&[5u32, 100, 400]));
        }
        "running-macro" => {
            old.acts0[0] = format!("(macro {} 50 S-({} 50 {}) 50 {})", k(&mut rng), k(&mut rng), k(&mut rng), k(&mut rng));
            tapk(&mut pre, "a", 5, *rng.pick(&[2u32, 30, 70, 110]));
        }
        "mouse-button-held" => {
            // a custom action that is silent while it is held: a mouse button (5 of 8, mostly the
            // left one) or an arbitrary key code (3 of 8)
            let (act, kind): (String, &'static str) = match pr.usize(8) {
                0..=2 => ("mlft".into(), "mouse-button"),
                3 | 4 => (pr.pick(&["mrgt", "mmid", "mfwd", "mbck"]).to_string(), "mouse-button"),
                _ => (format!("(arbitrary-code {})", pr.pick(&[700u32, 249, 511])), "arbitrary-code"),
            };
            old.acts0[0] = act;
            held_custom = Some(kind);
            pre.extend([Ev::P(osc("a")), Ev::T(20)]);
            held.push("a");
        }
        "mwheel-held" => {
            old.acts0[0] = "(mwheel-up 20 120)".into();
            pre.extend([Ev::P(osc("a")), Ev::T(30)]);
            held.push("a");
        }
        "movemouse-held" => {
            old.acts0[0] = "(movemouse-left 20 5)".into();
            pre.extend([Ev::P(osc("a")), Ev::T(30)]);
            held.push("a");
        }
        "caps-word" => {
            old.acts0[0] = "(caps-word 300)".into();
            old.acts0[1] = "e".into();
            tapk(&mut pre, "a", 5, 10);
            if rng.coin() {
                pre.extend([Ev::P(osc("s")), Ev::T(10)]);
                held.push("s");
            } else {
                tapk(&mut pre, "s", 5, 10);
            }
        }
        "pending-hold-for-duration" => {
            old.acts0[0] = "(hold-for-duration 300 v0)".into();
            tapk(&mut pre, "a", 5, *rng.pick(&[5u32, 100, 280]));
        }
        "layer-held" => {
            old.acts0[0] = format!("(layer-while-held {other})");
            pre.extend([Ev::P(osc("a")), Ev::T(20)]);
            held.push("a");
            if rng.coin() {
                old.acts1[1] = k(&mut rng);
                pre.extend([Ev::P(osc("s")), Ev::T(10)]);
                held.push("s");
            }
        }
        "layer-switched" => {
            old.acts0[0] = format!("(layer-switch {other})");
            tapk(&mut pre, "a", 5, 20);
        }
        "unmod-held-1s" => {
            old.acts0[0] = format!("(unmod {})", k(&mut rng));
            pre.extend([Ev::P(osc("a")), Ev::T(20)]);
            held.push("a");
            wait_before_release = *rng.pick(&[900u32, 1100, 1500]);
        }
        "key-held-long" => {
            old.acts0[0] = k(&mut rng);
            pre.extend([Ev::P(osc("a")), Ev::T(20)]);
            held.push("a");
            wait_before_release = *rng.pick(&[990u32, 1100, 2500]);
        }
        "two-keys-held" => {
            old.acts0[0] = k(&mut rng);
            old.acts0[1] = format!("S-{}", k(&mut rng));
            pre.extend([Ev::P(osc("a")), Ev::T(7), Ev::P(osc("s")), Ev::T(12)]);
            held.push("a");
            held.push("s");
        }
        _ => {
            // random typing on the old configuration, whatever is down stays down
            let keys: Vec<u16> = ACT_KEYS.iter().map(|k| osc(k)).collect();
            let n = 3 + rng.usize(12);
            let h = crate::gen::hist::consistent(&mut rng, &keys, n, &[0, 1, 5, 20, 60, 199, 201], false);
            // cut the automatic releases at the end: keep a random prefix
            let cut = 1 + rng.usize(h.len());
            pre = h[..cut].to_vec();
            for kname in ACT_KEYS {
                if crate::gen::hist::still_down(&pre).contains(&osc(kname)) {
                    held.push(kname);
                }
            }
        }
    }
    if session {
        if let Some((_, slot)) = reqs[0].mid {
            if held.contains(&ACT_KEYS[slot]) {
                reqs[0].mid = None;
            }
        }
        if srng.chance(1, 4) {
            wait_before_release = *srng.pick(&[1100u32, 1400]);
        }
    }
    let mut specs = vec![];
    for i in 0..nfiles {
        // what a valid reload of file i installs; for file 0 that differs from the startup text
        let avoid = old.l0.clone();
        let _ = i;
        specs.push(rand_spec(&mut rng, NEW_LETTERS, Some(&avoid)));
    }
    let target = *idx_after.last().unwrap();
    // state that lives outside the replaced layout: which of old / new files have a zippychord
    // dictionary, sequences, dynamic-macro keys (the options and virtual keys vary in rand_spec)
    let zmode: &'static str = match rng.usize(20) {
        0..=4 => "none",
        5..=10 => "old-only",
        11..=13 => "new-only",
        14..=17 => "both",
        _ => "both-same-dict-file",
    };
    let smode: &'static str = match rng.usize(20) {
        0..=8 => "none",
        9..=11 => "old-only",
        12..=14 => "new-only",
        _ => "both",
    };
    // (in a session every file types at least three distinct plain letters: the later episodes hold
    // and type them)
    let pool = zmode != "none" || smode != "none" || session;
    let mut metas = vec![];
    for (i, sp) in specs.iter_mut().enumerate() {
        // (no dynamic-macro keys in sessions: a macro recorded under one file would be replayed
        // under the next one, and recorded macros are kept across reloads on purpose)
        let f = Feat { pool, zippy: matches!(zmode, "new-only" | "both" | "both-same-dict-file"), seq: matches!(smode, "new-only" | "both"), dm: rng.chance(1, 4) && !session, mouse: rng.chance(1, 5) };
        let dict_file = if zmode == "both-same-dict-file" && i == 0 { "zip-old.txt".to_string() } else { format!("zip-{i}.txt") };
        metas.push(decorate_new(&mut rng, sp, NEW_LETTERS, f, dict_file));
    }
    let fo = Feat { pool: zmode != "none" || smode != "none", zippy: matches!(zmode, "old-only" | "both" | "both-same-dict-file"), seq: matches!(smode, "old-only" | "both"), dm: false, mouse: false };
    decorate_old(&mut rng, &mut old, &specs[target], &metas[target], fo);
    // number of layers: the old configuration mostly has two, the files mostly more
    add_layers(&mut xr, &mut old, OLD_LETTERS, [2, 1, 1]);
    for sp in specs.iter_mut() {
        add_layers(&mut xr, sp, NEW_LETTERS, [2, 3, 3]);
    }
    // key-name dimension (stream of its own; the rest of a case is what it was): half of the cases
    let mut lr = Rng::for_case(ctx.seed, "C15", "localkeys", idx);
    let mut lkmode: &'static str = "off";
    let mut lk_names: Vec<&'static str> = vec![];
    let mut lk_codes: Vec<u16> = vec![];
    let mut broken: Option<(usize, CfgSpec, Content)> = None;
    if failed_first {
        // what is in the file when the first request is made: another specification (so the repair
        // changes more than the faulty spot), broken by a semantic error (3 of 4: the parser gets
        // past the top-level blocks before it fails) or a syntax error
        let mut fr = Rng::for_case(ctx.seed, "C15", "failed-first", idx);
        let mut b = specs[target].clone();
        if fr.coin() {
            let l1 = b.l1.clone();
            b.acts0 = (0..ACT_KEYS.len()).map(|_| rand_action(&mut fr, NEW_LETTERS, &l1)).collect();
        }
        let fault = if fr.chance(3, 4) { Content::Semantic } else { Content::Syntax };
        broken = Some((target, b, fault));
    }
    if lr.chance(1, 2) || (failed_first && lr.chance(1, 2)) {
        lk_names = lr.subset(c15_lk::LK_NAMES.len(), 3).into_iter().map(|i| c15_lk::LK_NAMES[i].0).collect();
        lkmode = match lr.usize(20) {
            0..=7 => "block->none",
            8..=10 => "none->block",
            11..=15 => "block->other-block",
            16 | 17 => "block->same-block",
            _ => "none->none",
        };
        old.lk = c15_lk::rand_lk(&mut lr, &lk_names, OLD_LETTERS, lkmode.starts_with("block"));
        for (i, sp) in specs.iter_mut().enumerate() {
            if i != target {
                let wb = lr.coin();
                sp.lk = c15_lk::rand_lk(&mut lr, &lk_names, NEW_LETTERS, wb);
                continue;
            }
            sp.lk = c15_lk::rand_lk(&mut lr, &lk_names, NEW_LETTERS, matches!(lkmode, "none->block" | "block->other-block"));
            if lkmode == "block->same-block" {
                sp.lk.block = old.lk.block.clone();
                c15_lk::use_names(&mut lr, &mut sp.lk, &lk_names, NEW_LETTERS);
            }
        }
        if let Some(b) = broken.as_mut() {
            // the broken text mostly has a block of its own
            let wb = lr.chance(4, 5);
            b.1.lk = c15_lk::rand_lk(&mut lr, &lk_names, NEW_LETTERS, wb);
        }
        let mut all: Vec<&LkSpec> = vec![&old.lk];
        all.extend(specs.iter().map(|s| &s.lk));
        if let Some(b) = &broken {
            all.push(&b.1.lk);
        }
        lk_codes = c15_lk::relevant_codes(&all, &lk_names);
    }
    // progress dimension: the bound of the progress clause for the first episode comes from the
    // old configuration as it is now; in successful cases a silent custom action (what the scenario
    // holds, or the reload key itself) is kept held for longer than that with no further input
    let bound0 = progress_bound(&old);
    let mut long_hold: Option<&'static str> = None;
    let mut long_wait = false;
    if success {
        let extra = *pr.pick(&[30u32, 200, 700]);
        if let (Some(kind), true) = (held_custom, pr.chance(1, 2)) {
            wait_before_release = bound0 + extra;
            long_wait = true;
            long_hold = Some(kind);
        } else if reqs.len() == 1 && (if reqs[0].hold > 1000 { pr.chance(1, 2) } else { !session && pr.chance(1, 10) }) {
            // the reload key itself (nothing is down in the output, the held reload action defers
            // the reload until the one-idle-second fallback applies it)
            if reqs[0].hold <= 1000 {
                reqs[0].mid = None;
            }
            let lead = match reqs[0].mid {
                Some((at, _)) => at + 3,
                None => 0,
            };
            reqs[0].hold = lead + bound0 + extra;
            long_hold = Some("reload-key");
        }
    }
    let mut contents = vec![Content::Valid; nfiles];
    if let Some((i, _, f)) = &broken {
        contents[*i] = f.clone();
    }
    if !success {
        // every file a request of this case can land on is broken in the same way
        for &i in &idx_after {
            contents[i] = fault.clone();
        }
    }
    // after the request(s): wait, then release what is held
    let mut post = vec![];
    if wait_before_release > 0 {
        let free: Vec<&str> = ACT_KEYS.iter().copied().filter(|k| !held.contains(k)).collect();
        let surely_pending = matches!(scenario, "key-held" | "mouse-button-held" | "mwheel-held" | "movemouse-held" | "unmod-held-1s" | "key-held-long" | "two-keys-held");
        if session && surely_pending && wait_before_release >= 1000 && !free.is_empty() && srng.chance(1, 2) {
            // an input event in the middle of the wait (less than a second after the request,
            // with something held that defers the reload: it is typed on the old configuration)
            let at = 100 + srng.usize(800) as u32;
            let x = osc(*srng.pick(&free[..]));
            let tail = if long_wait { wait_before_release } else { wait_before_release - at - 3 };
            post.extend([Ev::T(at), Ev::P(x), Ev::T(3), Ev::R(x), Ev::T(tail)]);
        } else {
            post.push(Ev::T(wait_before_release));
        }
    }
    let mut hv = held.clone();
    rng.shuffle(&mut hv);
    for kname in hv {
        post.push(Ev::R(osc(kname)));
        let g = *rng.pick(&[0u32, 1, 5, 30, 300]);
        if g > 0 {
            post.push(Ev::T(g));
        }
    }
    let (mut cont, mut cinfo) = build_cont(&mut rng, &metas[target], true);
    add_repeats(&mut xr, &mut cont, &mut cinfo, &metas[target], true);
    add_lk_piece(&mut lr, &mut cont, &mut cinfo, &lk_codes);
    let mut eps = vec![Episode { scenario, pre, reqs, idx_after, post, cont, cinfo, typing: "mixed", bound: bound0, long_hold, silent_key: held_custom.map(|_| osc("a")) }];
    if session {
        let more = 1 + srng.usize(2);
        let mut cur = target;
        for e in 0..more {
            // what is typed between the previous reload and this request
            let first_failed = broken.is_some() && e == 0;
            // (after a failed first request the old configuration is still the active one: nothing
            // is known about what its keys type, and nothing is compared until the next reload)
            let no_meta = Meta::default();
            let (typing, mut cont, mut cinfo) = if first_failed { ("none", vec![Ev::T(40)], ContInfo::default()) } else { between_typing(&mut srng, &metas[cur]) };
            if typing != "none" {
                add_repeats(&mut xr, &mut cont, &mut cinfo, &metas[cur], typing == "mixed");
            }
            if typing == "mixed" {
                add_lk_piece(&mut lr, &mut cont, &mut cinfo, &lk_codes);
            }
            if let Some(prev) = eps.last_mut() {
                prev.typing = typing;
                prev.cont = cont;
                prev.cinfo = cinfo;
            }
            let mut ep = later_episode(&mut srng, if first_failed { &no_meta } else { &metas[cur] });
            ep.bound = progress_bound(if first_failed { &old } else { &specs[cur] });
            if first_failed {
                // the statement does not say which file a relative request selects after a failed
                // one: the request after the failure names its file absolutely
                ep.reqs[0].kind = 3 + srng.usize(2);
            }
            if ep.reqs[0].hold > 1000 && pr.chance(1, 2) {
                // the reload key is held for longer than the bound of the progress clause
                let lead = match ep.reqs[0].mid {
                    Some((at, _)) => at + 3,
                    None => 0,
                };
                ep.reqs[0].hold = lead + ep.bound + *pr.pick(&[30u32, 200, 700]);
                ep.long_hold = Some("reload-key");
            }
            cur = step_idx(ep.reqs[0].kind, cur, nfiles, num_arg, file_arg);
            ep.idx_after = vec![cur];
            if e + 1 == more {
                let (mut c, mut ci) = build_cont(&mut srng, &metas[cur], true);
                add_repeats(&mut xr, &mut c, &mut ci, &metas[cur], true);
                add_lk_piece(&mut lr, &mut c, &mut ci, &lk_codes);
                ep.cont = c;
                ep.cinfo = ci;
                ep.typing = "mixed";
            }
            eps.push(ep);
        }
    }
    Plan { nfiles, specs, old, contents, fault_variant: rng.below(12), num_arg, file_arg, eps, success, zmode, smode, loop_order, session, lkmode, broken, lk_names, lk_codes }
}

const LATER_SCENARIOS: &[&str] = &["idle", "plain-key-held", "plain-key-held", "plain-key-held", "two-plain-keys-held", "two-plain-keys-held", "lsft-held", "random-typing", "random-typing"];

/// Typing between two reload episodes, on the file that the earlier one installed.
fn between_typing(rng: &mut Rng, m: &Meta) -> (&'static str, Vec<Ev>, ContInfo) {
    match rng.usize(5) {
        0 => ("none", vec![Ev::T(*rng.pick(&[40u32, 300]))], ContInfo::default()),
        1 | 2 if !m.plain.is_empty() => {
            // plain letters only: nothing that kanata has to wait for
            let mut c = vec![];
            for _ in 0..2 + rng.usize(6) {
                let a = osc(ACT_KEYS[*rng.pick(&m.plain)]);
                c.push(Ev::P(a));
                c.push(Ev::T(*rng.pick(&[1u32, 5, 30, 80])));
                let others: Vec<usize> = m.plain.iter().copied().filter(|x| osc(ACT_KEYS[*x]) != a).collect();
                if !others.is_empty() && rng.chance(1, 3) {
                    let b = osc(ACT_KEYS[*rng.pick(&others)]);
                    c.extend([Ev::P(b), Ev::T(*rng.pick(&[2u32, 20])), Ev::R(b), Ev::T(*rng.pick(&[1u32, 10]))]);
                }
                c.push(Ev::R(a));
                c.push(Ev::T(*rng.pick(&[1u32, 10, 100, 400])));
            }
            c.push(Ev::T(300));
            ("plain-keys-only", c, ContInfo::default())
        }
        _ => {
            let (c, ci) = build_cont(rng, m, false);
            ("mixed", c, ci)
        }
    }
}

/// A later reload episode of a session: the pre-state is made on the file `m` describes (the one
/// the previous episode installed), with keys whose action is known (its plain letters, its lsft
/// key) or with random typing that is cut off somewhere.
fn later_episode(rng: &mut Rng, m: &Meta) -> Episode {
    let mut scenario = *rng.pick(LATER_SCENARIOS);
    let code = |slot: usize| osc(ACT_KEYS[slot]);
    let mut plain = m.plain.clone();
    rng.shuffle(&mut plain);
    let mut pre: Vec<Ev> = vec![];
    let mut held: Vec<u16> = vec![];
    match scenario {
        "plain-key-held" if !plain.is_empty() => {
            pre.extend([Ev::P(code(plain[0])), Ev::T(*rng.pick(&[3u32, 20, 60]))]);
            held.push(code(plain[0]));
        }
        "two-plain-keys-held" if plain.len() >= 2 => {
            pre.extend([Ev::P(code(plain[0])), Ev::T(*rng.pick(&[0u32, 7, 40])), Ev::P(code(plain[1])), Ev::T(*rng.pick(&[2u32, 12]))]);
            held.push(code(plain[0]));
            held.push(code(plain[1]));
        }
        "lsft-held" if m.lsft.is_some() => {
            let l = code(m.lsft.unwrap_or(0));
            pre.extend([Ev::P(l), Ev::T(*rng.pick(&[3u32, 30]))]);
            held.push(l);
            if !plain.is_empty() && rng.coin() {
                pre.extend([Ev::P(code(plain[0])), Ev::T(8), Ev::R(code(plain[0])), Ev::T(5)]);
            }
        }
        "random-typing" => {
            let keys: Vec<u16> = ACT_KEYS.iter().map(|k| osc(k)).collect();
            let n = 3 + rng.usize(10);
            let h = crate::gen::hist::consistent(rng, &keys, n, &[0, 1, 5, 20, 60, 199, 201], false);
            let cut = 1 + rng.usize(h.len());
            pre = h[..cut].to_vec();
            held = crate::gen::hist::still_down(&pre).into_iter().collect();
            held.sort();
        }
        _ => scenario = "idle",
    }
    let mut req = Req { kind: rng.usize(REQ_KINDS.len()), hold: 1 + rng.usize(20) as u32, after: *rng.pick(&[0u32, 1, 3, 10, 40]), mid: None };
    let free: Vec<usize> = (0..ACT_KEYS.len()).filter(|s| !held.contains(&code(*s))).collect();
    if rng.chance(1, 3) {
        req.hold = 1050 + rng.usize(400) as u32;
        if !free.is_empty() && rng.chance(1, 3) {
            req.mid = Some((100 + rng.usize(800) as u32, *rng.pick(&free)));
        }
    }
    let wait = if rng.chance(1, 5) { *rng.pick(&[1100u32, 1400]) } else { *rng.pick(&[0u32, 1, 5, 30, 120]) };
    let mut post = vec![];
    if wait > 0 {
        let surely_pending = matches!(scenario, "plain-key-held" | "two-plain-keys-held" | "lsft-held");
        if surely_pending && wait >= 1000 && !free.is_empty() && rng.chance(1, 2) {
            // (typed on the configuration that is being replaced: see make_plan_inner)
            let at = 100 + rng.usize(800) as u32;
            let x = code(*rng.pick(&free));
            post.extend([Ev::T(at), Ev::P(x), Ev::T(3), Ev::R(x), Ev::T(wait - at - 3)]);
        } else {
            post.push(Ev::T(wait));
        }
    }
    rng.shuffle(&mut held);
    for k in held {
        post.push(Ev::R(k));
        let g = *rng.pick(&[0u32, 1, 5, 30, 300]);
        if g > 0 {
            post.push(Ev::T(g));
        }
    }
    Episode { scenario, pre, reqs: vec![req], idx_after: vec![], post, cont: vec![Ev::T(40)], cinfo: ContInfo::default(), typing: "none", bound: 0, long_hold: None, silent_key: None }
}

/// What the continuation contains besides random typing (for the evidence counters).
#[derive(Clone, Debug, Default)]
struct ContInfo {
    /// chords of the case that are typed (slot sets), with zippychord surely enabled (first thing
    /// of the continuation or after a long pause) or not
    chord_bursts: Vec<(Vec<usize>, bool)>,
    other_bursts: u64,
    seq_probes: u64,
    /// ... of which typed with lsft held
    seq_mod_probes: u64,
    accel_holds: u64,
    dm_probes: u64,
    fk_ops: u64,
    mouse_holds: u64,
    /// directed OS-repeat pieces (key held, Repeat events for it, with or without LAYER_KEY held)
    repeat_pieces: u64,
    /// Repeat events inserted into the waits of the other pieces for a key that is held then
    sprinkled_repeats: u64,
    /// taps of the key-name probe piece (see c15_lk.rs)
    lk_taps: u64,
}

/// A directed OS-repeat piece: one or two keys are held and `KeyValue::Repeat` events arrive for
/// them, as the OS sends them for a held key; half of the time LAYER_KEY (layer-while-held of a
/// non-first layer of the file) is held as well, pressed before or after the key, sometimes
/// released before it. Everything is released at the end.
fn repeat_piece(xr: &mut Rng, m: &Meta) -> Vec<Ev> {
    let keys: Vec<u16> = ACT_KEYS.iter().map(|k| osc(k)).collect();
    let lk = osc(LAYER_KEY);
    let mut c: Vec<Ev> = vec![];
    let slot = |xr: &mut Rng| if !m.plain.is_empty() && xr.chance(2, 3) { *xr.pick(&m.plain) } else { xr.usize(ACT_KEYS.len()) };
    let k1 = keys[slot(xr)];
    // 0: no layer key, 1: layer key first, 2: layer key after the key
    let layer_mode = *xr.pick(&[0usize, 1, 1, 2]);
    let mut layer_down = false;
    if layer_mode == 1 {
        c.extend([Ev::P(lk), Ev::T(*xr.pick(&[1u32, 5, 30]))]);
        layer_down = true;
    }
    c.extend([Ev::P(k1), Ev::T(*xr.pick(&[1u32, 5, 30, 250]))]);
    if layer_mode == 2 {
        c.extend([Ev::P(lk), Ev::T(*xr.pick(&[1u32, 5, 30]))]);
        layer_down = true;
    }
    for _ in 0..1 + xr.usize(4) {
        c.extend([Ev::Rep(k1), Ev::T(*xr.pick(&[1u32, 2, 30, 33]))]);
    }
    if xr.chance(1, 3) {
        // a second key: the OS repeats the key pressed last; a repeat of the first one is a stray
        let k2 = keys[slot(xr)];
        if k2 != k1 {
            c.extend([Ev::P(k2), Ev::T(*xr.pick(&[2u32, 30, 250]))]);
            for _ in 0..1 + xr.usize(3) {
                c.extend([Ev::Rep(k2), Ev::T(*xr.pick(&[1u32, 30]))]);
            }
            if xr.chance(1, 3) {
                c.extend([Ev::Rep(k1), Ev::T(2)]);
            }
            c.extend([Ev::R(k2), Ev::T(*xr.pick(&[1u32, 10]))]);
            if xr.coin() {
                c.extend([Ev::Rep(k1), Ev::T(*xr.pick(&[1u32, 30]))]);
            }
        }
    }
    if layer_down && xr.chance(1, 4) {
        // the layer key goes up first, the key keeps repeating
        c.extend([Ev::R(lk), Ev::T(*xr.pick(&[1u32, 20])), Ev::Rep(k1), Ev::T(*xr.pick(&[1u32, 30]))]);
        layer_down = false;
    }
    c.extend([Ev::R(k1), Ev::T(*xr.pick(&[1u32, 5, 40]))]);
    if xr.chance(1, 5) {
        // a Repeat that arrives after the release
        c.extend([Ev::Rep(k1), Ev::T(3)]);
    }
    if layer_down {
        c.extend([Ev::R(lk), Ev::T(*xr.pick(&[1u32, 10]))]);
    }
    c.push(Ev::T(*xr.pick(&[5u32, 40, 300])));
    c
}

/// Add OS key-repeat events to a continuation: a directed piece (see `repeat_piece`) at its start
/// or end in 3 of 5 continuations that may have one, and, in 2 of 3, Repeat events inside the waits
/// of the other pieces for a key that is physically held at that moment (mostly the one pressed
/// last, which is the one an OS repeats).
fn add_repeats(xr: &mut Rng, cont: &mut Vec<Ev>, info: &mut ContInfo, m: &Meta, directed: bool) {
    if xr.chance(2, 3) {
        let mut out: Vec<Ev> = Vec::with_capacity(cont.len() + 8);
        let mut down: Vec<u16> = vec![];
        for e in cont.iter() {
            match e {
                Ev::P(k) => {
                    down.retain(|x| x != k);
                    down.push(*k);
                    out.push(e.clone());
                }
                Ev::R(k) => {
                    down.retain(|x| x != k);
                    out.push(e.clone());
                }
                Ev::T(n) if *n >= 2 && !down.is_empty() && xr.chance(1, 4) => {
                    // 1-3 repeats inside this wait
                    let reps = (1 + xr.usize(3)).min(*n as usize - 1);
                    let mut left = *n;
                    for i in 0..reps {
                        let room = left - (reps - i) as u32;
                        let a = 1 + xr.usize(room.min(40) as usize) as u32;
                        let k = if xr.chance(4, 5) { down[down.len() - 1] } else { *xr.pick(&down) };
                        out.extend([Ev::T(a), Ev::Rep(k)]);
                        left -= a;
                        info.sprinkled_repeats += 1;
                    }
                    if left > 0 {
                        out.push(Ev::T(left));
                    }
                }
                _ => out.push(e.clone()),
            }
        }
        *cont = out;
    }
    if directed && xr.chance(3, 5) {
        let piece = repeat_piece(xr, m);
        info.repeat_pieces += 1;
        if xr.coin() {
            // first thing after the idle point; a chord that follows is typed after a pause that
            // surely re-enables zippychord (ContInfo::chord_bursts)
            let mut v = piece;
            if !info.chord_bursts.is_empty() {
                v.push(Ev::T(1300));
            }
            v.extend(cont.iter().cloned());
            *cont = v;
        } else {
            // before the final wait
            let tail = cont.pop();
            cont.extend(piece);
            if let Some(t) = tail {
                cont.push(t);
            }
        }
    }
}

/// Key-name dimension: 4 of 5 continuations of a case that has it get the probe piece (every
/// physical key that some configuration of the case can mean by one of the names of the case is
/// tapped once), as their first piece or before the final wait.
fn add_lk_piece(lr: &mut Rng, cont: &mut Vec<Ev>, info: &mut ContInfo, codes: &[u16]) {
    if codes.is_empty() || !lr.chance(4, 5) {
        return;
    }
    let (piece, n) = c15_lk::probe_piece(lr, codes);
    info.lk_taps += n;
    if lr.coin() {
        let mut v = piece;
        if !info.chord_bursts.is_empty() {
            // (a chord that follows is typed after a pause that surely re-enables zippychord)
            v.push(Ev::T(1300));
        }
        v.extend(cont.iter().cloned());
        *cont = v;
    } else {
        let tail = cont.pop();
        cont.extend(piece);
        if let Some(t) = tail {
            cont.push(t);
        }
    }
}

/// Continuation typed from the idle point on: random typing interleaved with directed pieces that
/// reach the features of the file the requests end on (chords pressed together, leader + key
/// sequence, record / replay of a dynamic macro, virtual keys operated by name as the TCP server
/// does, mouse-movement keys held together). Everything is released at the end of every piece.
fn build_cont(rng: &mut Rng, m: &Meta, allow_fk: bool) -> (Vec<Ev>, ContInfo) {
    let keys: Vec<u16> = ACT_KEYS.iter().map(|k| osc(k)).collect();
    let mut info = ContInfo::default();
    let mut c: Vec<Ev> = vec![];
    let wait = |c: &mut Vec<Ev>, n: u32| {
        if n > 0 {
            c.push(Ev::T(n));
        }
    };
    let tap = |c: &mut Vec<Ev>, slot: usize, hold: u32| {
        c.push(Ev::P(keys[slot]));
        if hold > 0 {
            c.push(Ev::T(hold));
        }
        c.push(Ev::R(keys[slot]));
    };
    let nseg = 2 + rng.usize(4);
    for si in 0..nseg {
        let mut kinds: Vec<&str> = vec!["typing", "typing", "typing", "burst", "fk"];
        if !allow_fk {
            // (a virtual key that a toggle leaves pressed stays pressed whatever is typed later:
            // not wanted before a further reload request)
            kinds.pop();
        }
        if !m.chords.is_empty() {
            kinds.extend(["chord", "chord", "chord"]);
        }
        if m.sldr.is_some() && !m.seqs.is_empty() {
            kinds.extend(["seq", "seq"]);
        }
        if m.dm.is_some() {
            kinds.extend(["dm", "dm"]);
        }
        if !m.mouse.is_empty() {
            kinds.push("mouse");
        }
        if m.accel.is_some() {
            kinds.extend(["accel", "accel"]);
        }
        let kind = if si == 0 && !m.chords.is_empty() && rng.chance(1, 2) { "chord" } else { *rng.pick(&kinds) };
        match kind {
            "chord" | "burst" | "mouse" => {
                let quiet_before = c.is_empty();
                let pause = *rng.pick(&[0u32, 0, 40, 1200]);
                wait(&mut c, pause);
                let mut slots: Vec<usize> = match kind {
                    "chord" => rng.pick(&m.chords).clone(),
                    "mouse" => {
                        let mut v = vec![*rng.pick(&m.mouse)];
                        let o = rng.usize(ACT_KEYS.len());
                        if !v.contains(&o) {
                            v.push(o);
                        }
                        v
                    }
                    _ => {
                        let k = 2 + rng.usize(2);
                        rng.subset(ACT_KEYS.len(), k)
                    }
                };
                rng.shuffle(&mut slots);
                for s in &slots {
                    c.push(Ev::P(keys[*s]));
                    wait(&mut c, *rng.pick(&[0u32, 0, 1, 2, 8]));
                }
                wait(&mut c, if kind == "mouse" { *rng.pick(&[30u32, 90, 150]) } else { *rng.pick(&[3u32, 20, 60]) });
                rng.shuffle(&mut slots);
                for s in &slots {
                    c.push(Ev::R(keys[*s]));
                    wait(&mut c, *rng.pick(&[0u32, 1, 5]));
                }
                if kind == "chord" && !m.plain.is_empty() && rng.chance(1, 3) {
                    // a possible follow-up chord
                    wait(&mut c, *rng.pick(&[5u32, 30]));
                    tap(&mut c, *rng.pick(&m.plain), 10);
                }
                match kind {
                    "chord" => {
                        let mut set = slots.clone();
                        set.sort();
                        info.chord_bursts.push((set, quiet_before || pause >= 1200));
                    }
                    "mouse" => info.mouse_holds += 1,
                    _ => info.other_bursts += 1,
                }
                wait(&mut c, *rng.pick(&[0u32, 10, 100, 600]));
            }
            "seq" => {
                if let Some(l) = m.sldr {
                    tap(&mut c, l, 1 + rng.usize(25) as u32);
                    wait(&mut c, *rng.pick(&[1u32, 20]));
                    let qi = rng.usize(m.seqs.len());
                    let q = m.seqs[qi].clone();
                    let held_mod = if m.seq_mod.get(qi) == Some(&true) || rng.chance(1, 8) { m.lsft } else { None };
                    if let Some(ms) = held_mod {
                        c.push(Ev::P(keys[ms]));
                        wait(&mut c, *rng.pick(&[1u32, 10]));
                    }
                    let cut = if rng.chance(1, 4) { 1 } else { q.len() };
                    for s in &q[..cut] {
                        tap(&mut c, *s, *rng.pick(&[3u32, 15]));
                        wait(&mut c, *rng.pick(&[1u32, 20, 200]));
                    }
                    if let Some(ms) = held_mod {
                        c.push(Ev::R(keys[ms]));
                        info.seq_mod_probes += 1;
                    }
                    if rng.chance(1, 4) {
                        tap(&mut c, rng.usize(ACT_KEYS.len()), 5);
                    }
                    wait(&mut c, *rng.pick(&[0u32, 300, 1200, 2200]));
                    info.seq_probes += 1;
                }
            }
            "accel" => {
                if let Some((a, b)) = m.accel {
                    let (a, b) = if rng.coin() { (a, b) } else { (b, a) };
                    c.push(Ev::P(keys[a]));
                    wait(&mut c, *rng.pick(&[60u32, 150, 260]));
                    c.push(Ev::P(keys[b]));
                    wait(&mut c, *rng.pick(&[40u32, 120]));
                    c.push(Ev::R(keys[a]));
                    wait(&mut c, *rng.pick(&[0u32, 30]));
                    c.push(Ev::R(keys[b]));
                    wait(&mut c, *rng.pick(&[10u32, 200]));
                    info.accel_holds += 1;
                }
            }
            "dm" => {
                if let Some((r, p)) = m.dm {
                    tap(&mut c, r, 5);
                    wait(&mut c, 10);
                    for _ in 0..1 + rng.usize(5) {
                        let others: Vec<usize> = (0..ACT_KEYS.len()).filter(|x| *x != r && *x != p).collect();
                        tap(&mut c, *rng.pick(&others), *rng.pick(&[2u32, 10, 40]));
                        wait(&mut c, *rng.pick(&[5u32, 30, 120]));
                    }
                    tap(&mut c, r, 5);
                    wait(&mut c, 20);
                    for _ in 0..1 + rng.usize(2) {
                        tap(&mut c, p, 5);
                        wait(&mut c, *rng.pick(&[100u32, 400, 900]));
                    }
                    info.dm_probes += 1;
                }
            }
            "fk" => {
                let name = rng.pick(&["v0", "v1", "v2", "v3"]).to_string();
                match rng.usize(3) {
                    0 => c.push(Ev::Fk(name, 't')),
                    1 => {
                        c.push(Ev::Fk(name.clone(), 'p'));
                        wait(&mut c, *rng.pick(&[1u32, 20, 80]));
                        if rng.coin() {
                            tap(&mut c, rng.usize(ACT_KEYS.len()), 10);
                        }
                        c.push(Ev::Fk(name, 'r'));
                    }
                    _ => {
                        c.push(Ev::Fk(name.clone(), 'g'));
                        wait(&mut c, *rng.pick(&[1u32, 30]));
                        c.push(Ev::Fk(name, 'g'));
                    }
                }
                info.fk_ops += 1;
                wait(&mut c, *rng.pick(&[1u32, 30, 300]));
            }
            _ => {
                let n = 4 + rng.usize(14);
                c.extend(crate::gen::hist::consistent(rng, &keys, n, &[0, 1, 5, 20, 60, 199, 201, 300, 520], false));
            }
        }
    }
    c.push(Ev::T(1500));
    (c, info)
}

/// What was observed of one reload episode.
struct EpObs {
    /// tick of the first request key press
    t_req: u64,
    /// every ConfigFileReload sent from the start of this episode to the start of the next one
    applied: Vec<AppliedInfo>,
    /// tick at which the typing after the reload starts (None: never became idle)
    t_idle: Option<u64>,
    /// tick at which that typing ends (= the next episode starts)
    t_end: u64,
    settle_problem: Option<(String, String)>,
    /// (only meaningful when keys are stuck at the end) every stuck key is produced by a layout state
    stuck_keys_backed_by_layout: bool,
    /// at the end of the settle phase (idle point, or 6000 ticks) nothing is pressed but the
    /// override bookkeeping still lists keys as overridden
    stale_override_state: bool,
    /// virtual time at which a key other than a reload key was pressed while the request was
    /// (expected to be) pending
    typed_while_pending: Vec<u64>,
    /// the OS model had a key down when the (first) reload key of the episode was pressed
    os_key_down_at_request: bool,
    /// progress clause: the longest run of consecutive loop iterations, from the request to the
    /// first application of the episode (or to the end of the settle phase), without input event,
    /// without output and without an OS key down
    max_quiet_unapplied: u64,
    /// what the OS model had down when that run passed the bound of the episode (None: it never did)
    down_when_bound_passed: Option<(bool, bool)>,
    /// length of that run when the first application happened (None: the run could not have gone
    /// on without the application: an OS key was down or another key physically held)
    quiet_at_first_app: Option<u64>,
    /// iterations from the first application to the next input event of the pending phase (None:
    /// no input event followed before the settle phase)
    input_free_after_first_app: Option<u64>,
    /// the OS model had a mouse button / a key code down when the iteration of the first
    /// application started
    down_before_first_app: (bool, bool),
}

/// Bookkeeping of the progress clause while a request is pending (see `EpObs`).
#[derive(Default)]
struct Progress {
    bound: u64,
    /// physical keys that are down, and those of them that are known to hold nothing but a silent
    /// custom action (the reload keys, the key of the scenario's custom action)
    phys_down: Vec<u16>,
    silent: Vec<u16>,
    q: u64,
    max_q: u64,
    down_when_bound_passed: Option<(bool, bool)>,
    quiet_at_first_app: Option<u64>,
    /// when the first application happened no OS key was down and nothing but silent custom-action
    /// keys was physically held: without the application the quiet run would have gone on
    judged_at_first_app: bool,
    /// the OS model had a mouse button / a key code down when the applying iteration started
    down_before_first_app: (bool, bool),
    t_first_app: u64,
    input_free_after_first_app: Option<u64>,
}

impl Progress {
    /// Run one step of the history and account for it.
    fn step(&mut self, w: &mut Watch, rd: &mut Rd, e: &Ev) {
        match e {
            Ev::T(n) => {
                for _ in 0..*n {
                    self.iteration(w, rd, None);
                }
            }
            other if rd.is_iteration_event(other) => self.iteration(w, rd, Some(other)),
            other => {
                self.input(rd, other);
                rd.apply(other);
                self.q = 0;
            }
        }
    }
    fn input(&mut self, rd: &Rd, e: &Ev) {
        match e {
            Ev::P(c) => {
                if !self.phys_down.contains(c) {
                    self.phys_down.push(*c);
                }
            }
            Ev::R(c) => self.phys_down.retain(|x| x != c),
            _ => {}
        }
        if self.quiet_at_first_app.is_some() && self.input_free_after_first_app.is_none() {
            self.input_free_after_first_app = Some(rd.sim.now.saturating_sub(self.t_first_app));
        }
    }
    fn iteration(&mut self, w: &mut Watch, rd: &mut Rd, ev: Option<&Ev>) {
        if let Some(e) = ev {
            self.input(rd, e);
        }
        let unapplied = self.quiet_at_first_app.is_none();
        if unapplied {
            self.max_q = self.max_q.max(self.q);
            if self.q > self.bound && self.down_when_bound_passed.is_none() {
                self.down_when_bound_passed = Some((!rd.sim.os.btns_down.is_empty(), !rd.sim.os.codes_down.is_empty()));
            }
        }
        let n0 = rd.sim.trace.len();
        let a0 = w.applied.len();
        let judged = ev.is_none() && rd.sim.os.keys_down.is_empty() && self.phys_down.iter().all(|c| self.silent.contains(c));
        let down_before = (!rd.sim.os.btns_down.is_empty(), !rd.sim.os.codes_down.is_empty());
        w.iteration(rd, ev);
        if unapplied && w.applied.len() > a0 {
            self.quiet_at_first_app = Some(self.q);
            self.down_before_first_app = down_before;
            self.judged_at_first_app = judged;
            self.t_first_app = rd.sim.now;
        }
        if ev.is_some() || rd.sim.trace.len() > n0 || !rd.sim.os.keys_down.is_empty() || self.phys_down.iter().any(|c| !self.silent.contains(c)) {
            self.q = 0;
        } else {
            self.q += 1;
        }
    }
}

struct Obs {
    trace: Vec<Out>,
    notes: Vec<(u64, Note)>,
    /// one per episode that was started
    eps: Vec<EpObs>,
    requested_at_end: bool,
    /// a session was ended before a later request because the typing since the previous reload
    /// had left something pressed
    not_quiescent_before_later_request: bool,
}

#[derive(Clone, Debug)]
struct AppliedInfo {
    tick: u64,
    file: String,
    /// keys the OS model has down at the end of the iteration that sent ConfigFileReload
    os_keys_down: Vec<String>,
    os_btns_down: Vec<String>,
    /// arbitrary key codes the OS model has pressed at that point
    os_codes_down: Vec<String>,
    /// ms from the last input / output (see `Rd::last_activity`) to the start of the applying
    /// iteration (0: the reload was applied in the very iteration that received an input event)
    idle_for: u64,
    layer_after: usize,
    layer_name_after: String,
    /// a key sequence that was started under the old configuration is still pending right after
    /// the reload
    seq_pending: bool,
    /// kanata's own idle-iteration counter right after the reload (evidence only: above 1000 the
    /// one-idle-second fallback applied it)
    idle_counter: u16,
}

struct Jitter;

struct Paths {
    dir: PathBuf,
    files: Vec<PathBuf>,
}

fn paths_for(idx: u64, nfiles: usize) -> Paths {
    let dir = PathBuf::from(format!("/verif/.work/c15-{}/case-{idx}", std::process::id()));
    let files = (0..nfiles).map(|i| dir.join(format!("f{i}.kbd"))).collect();
    Paths { dir, files }
}

fn texts(p: &Plan, paths: &Paths, noop: bool) -> (String, Vec<String>) {
    let row = reload_row(p.num_arg, &paths.files[p.file_arg].to_string_lossy(), noop);
    let old = cfg_text(&p.old, &row);
    let new = p.specs.iter().map(|s| cfg_text(s, &row)).collect();
    (old, new)
}

/// text from which the non-valid content of file `i` is made (failed-first sessions: the broken
/// specification; else the valid text of the file)
fn faulty_base(p: &Plan, paths: &Paths, noop: bool, i: usize, valid: &str) -> String {
    match &p.broken {
        Some((bi, spec, _)) if *bi == i => cfg_text(spec, &reload_row(p.num_arg, &paths.files[p.file_arg].to_string_lossy(), noop)),
        _ => valid.to_string(),
    }
}

/// Watches every loop iteration for ConfigFileReload notifications.
struct Watch {
    seen_notes: usize,
    applied: Vec<AppliedInfo>,
}

impl Watch {
    fn iteration(&mut self, rd: &mut Rd, ev: Option<&Ev>) {
        let idle_for = if ev.is_some() { 0 } else { rd.sim.now.saturating_sub(rd.last_activity) };
        rd.iteration(ev);
        while self.seen_notes < rd.notes.len() {
            if let Note::Reload(f) = &rd.notes[self.seen_notes].1 {
                // keys down after this iteration's outputs = what the reload condition looked at
                let after: Vec<String> = rd.sim.os.keys_down.iter().cloned().collect();
                let layer_after = rd.sim.k.layout.b().current_layer();
                let layer_name_after = rd.sim.k.layer_info.get(layer_after).map(|l| l.name.clone()).unwrap_or_default();
                let seq_pending = !rd.sim.k.sequence_state.is_inactive();
                let os_btns_down: Vec<String> = rd.sim.os.btns_down.iter().cloned().collect();
                let os_codes_down: Vec<String> = rd.sim.os.codes_down.iter().cloned().collect();
                self.applied.push(AppliedInfo { tick: rd.sim.now, file: f.clone(), os_keys_down: after, os_btns_down, os_codes_down, idle_for, layer_after, layer_name_after, seq_pending, idle_counter: rd.sim.k.ticks_since_idle });
            }
            self.seen_notes += 1;
        }
    }
    fn step(&mut self, rd: &mut Rd, e: &Ev) {
        match e {
            Ev::T(n) => {
                for _ in 0..*n {
                    self.iteration(rd, None);
                }
            }
            other if rd.is_iteration_event(other) => self.iteration(rd, Some(other)),
            other => rd.apply(other),
        }
    }
}

/// Run the reload history once. `noop` = twin B (reload keys without effect).
fn run_reload(p: &Plan, paths: &Paths, noop: bool) -> Result<Result<Obs, String>, Jitter> {
    let (old, new) = texts(p, paths, noop);
    let _ = std::fs::remove_dir_all(&paths.dir);
    if std::fs::create_dir_all(&paths.dir).is_err() {
        return Ok(Err("cannot create scratch directory".into()));
    }
    // start-up state of the files: file 0 holds the old configuration; the others already hold
    // what they will hold at request time (they are only read by a reload)
    // (dictionaries first: the new file 0 may name the same dictionary file as the old one, which
    // then changes on disk together with the configuration)
    let mut io_ok = true;
    for i in 1..p.nfiles {
        io_ok &= write_state(&paths.dir, &paths.files[i], &p.contents[i], &p.specs[i], &faulty_base(p, paths, noop, i, &new[i]), p.fault_variant).is_ok();
    }
    if let Some(z) = &p.old.zippy {
        io_ok &= std::fs::write(paths.dir.join(&z.file), dict_text(z)).is_ok();
    }
    io_ok &= std::fs::write(&paths.files[0], &old).is_ok();
    if !io_ok {
        return Ok(Err("cannot write scratch files".into()));
    }
    // a newly started process: the parser's key-name table is the default one
    c15_lk::reset_name_table();
    let mut rd = match Rd::new(paths.files.clone(), p.loop_order) {
        Ok(r) => r,
        Err(e) => return Ok(Err(format!("old configuration rejected: {e}"))),
    };
    rd.run(&[Ev::T(5)]);
    let mut w = Watch { seen_notes: rd.notes.len(), applied: vec![] };
    let mut eps: Vec<EpObs> = vec![];
    let mut not_quiescent_before_later_request = false;
    for (ei, ep) in p.eps.iter().enumerate() {
        if ei > 0 && !(rd.sim.os.all_up() && !rd.sim.k.verif_live_reload_requested()) {
            // what was typed since the last reload left something pressed (nothing is physically
            // held, e.g. a toggled virtual key): a request made now would wait for ever. The
            // session ends here.
            not_quiescent_before_later_request = true;
            break;
        }
        for e in &ep.pre {
            w.step(&mut rd, e);
        }
        if ei == 0 {
            // the file the first request reloads changes on disk just before the request (the
            // files stay as they are for the later episodes of a session)
            if write_state(&paths.dir, &paths.files[0], &p.contents[0], &p.specs[0], &faulty_base(p, paths, noop, 0, &new[0]), p.fault_variant).is_err() {
                return Ok(Err("cannot rewrite scratch file".into()));
            }
        }
        if let (1, Some((bi, _, _))) = (ei, &p.broken) {
            // failed-first session: the user repairs the file before the next request
            if write_state(&paths.dir, &paths.files[*bi], &Content::Valid, &p.specs[*bi], &new[*bi], p.fault_variant).is_err() {
                return Ok(Err("cannot rewrite scratch file".into()));
            }
        }
        // (a reload during the typing before the request belongs to the previous episode)
        if let Some(prev) = eps.last_mut() {
            prev.applied.append(&mut w.applied);
        }
        let t_req = rd.sim.now;
        let os_key_down_at_request = !rd.sim.os.keys_down.is_empty();
        let mut typed_while_pending: Vec<u64> = vec![];
        let act_codes: Vec<u16> = ACT_KEYS.iter().map(|k| osc(k)).collect();
        let mut pending_phase: Vec<Ev> = vec![];
        for r in &ep.reqs {
            pending_phase.extend(req_events(r));
        }
        pending_phase.extend(ep.post.iter().cloned());
        let mut silent: Vec<u16> = RELOAD_KEYS.iter().map(|k| osc(k)).collect();
        silent.extend(ep.silent_key);
        let mut phys_down: Vec<u16> = crate::gen::hist::still_down(&ep.pre).into_iter().collect();
        phys_down.sort();
        let mut prog = Progress { bound: ep.bound as u64, phys_down, silent, ..Default::default() };
        for e in &pending_phase {
            if matches!(e, Ev::P(c) if act_codes.contains(c)) {
                typed_while_pending.push(rd.sim.now);
            }
            prog.step(&mut w, &mut rd, e);
        }
        // settle: reload decided, kanata may block, everything up, quiet for 40 ticks
        let mut quiet = 0u64;
        let mut t_idle = None;
        let t0 = rd.sim.now;
        while rd.sim.now - t0 < 6000 {
            let n0 = rd.sim.trace.len();
            prog.step(&mut w, &mut rd, &Ev::T(1));
            if rd.sim.trace.len() > n0 {
                quiet = 0;
            } else {
                quiet += 1;
            }
            if quiet >= 40 && !rd.sim.k.verif_live_reload_requested() && rd.sim.is_idle() && rd.sim.k.waiting_for_idle.is_empty() && rd.sim.os.all_up() {
                t_idle = Some(rd.sim.now);
                break;
            }
        }
        let stale_override_state = rd.sim.os.all_up() && rd.sim.k.cur_keys.is_empty() && rd.sim.k.override_states.removed_oscs().next().is_some();
        let mut settle_problem = None;
        if t_idle.is_none() {
            let tail: Vec<&Out> = rd.sim.trace.iter().rev().take(6).collect();
            let what = if tail.iter().any(|o| o.kind == OutKind::Scroll) && quiet < 40 {
                "scroll"
            } else if tail.iter().any(|o| o.kind == OutKind::Move) && quiet < 40 {
                "move"
            } else if !rd.sim.os.btns_down.is_empty() {
                "button-down"
            } else if !rd.sim.os.keys_down.is_empty() {
                "key-down"
            } else if !rd.sim.os.codes_down.is_empty() {
                "code-down"
            } else if rd.sim.k.verif_live_reload_requested() {
                "reload-still-pending"
            } else if quiet < 40 {
                "still-emitting"
            } else if stale_override_state {
                "stale-override-state"
            } else {
                "not-idle"
            };
            settle_problem = Some((what.to_string(), format!("{} | is_idle={} requested={} | last outputs {:?}", rd.sim.os.describe(), rd.sim.is_idle(), rd.sim.k.verif_live_reload_requested(), tail.iter().rev().map(|o| o.short()).collect::<Vec<_>>())));
        } else {
            for e in &ep.cont {
                w.step(&mut rd, e);
            }
        }
        let backed: Vec<String> = rd.sim.k.layout.b().keycodes().map(|k| format!("{k:?}")).collect();
        let stuck_keys_backed_by_layout = rd.sim.os.keys_down.iter().all(|k| backed.contains(k));
        eps.push(EpObs { t_req, applied: std::mem::take(&mut w.applied), t_idle, t_end: rd.sim.now, settle_problem, stuck_keys_backed_by_layout, stale_override_state, typed_while_pending, os_key_down_at_request, max_quiet_unapplied: prog.max_q.max(if prog.quiet_at_first_app.is_none() { prog.q } else { 0 }), down_when_bound_passed: prog.down_when_bound_passed.or(Some((!rd.sim.os.btns_down.is_empty(), !rd.sim.os.codes_down.is_empty()))), quiet_at_first_app: prog.quiet_at_first_app.filter(|_| prog.judged_at_first_app), input_free_after_first_app: prog.input_free_after_first_app, down_before_first_app: prog.down_before_first_app });
        if t_idle.is_none() {
            // the session ends here
            break;
        }
    }
    if rd.jitter {
        return Err(Jitter);
    }
    if let Some(e) = rd.err {
        return Ok(Err(format!("handle_time_ticks returned Err: {e}")));
    }
    let requested_at_end = rd.sim.k.verif_live_reload_requested();
    Ok(Ok(Obs { trace: std::mem::take(&mut rd.sim.trace), notes: rd.notes, eps, requested_at_end, not_quiescent_before_later_request }))
}

/// One `KeyValue::Repeat` input event as the fresh instance saw it.
struct RepSeen {
    code: u16,
    /// layer that was active when the event arrived
    layer: usize,
    /// kanata wrote a repeat to the OS for it
    forwarded: bool,
}

struct FreshRun {
    trace: Vec<Out>,
    notes: Vec<(u64, Note)>,
    t0: u64,
    reps: Vec<RepSeen>,
}

/// Fresh instance of `file` (Kanata::new, as at start-up) running the continuation `cont`.
fn run_fresh(p: &Plan, file: &Path, cont: &[Ev]) -> Result<Result<FreshRun, String>, Jitter> {
    // a newly started process: the parser's process-global key-name table is the default one. (The
    // run with the reload is over by now - it is not disturbed - and it was the last one to parse a
    // file in this process: without the reset this instance would be "started" in a process that has
    // already parsed the files of the case, which no freshly started kanata is.)
    c15_lk::reset_name_table();
    let mut rd = match Rd::new(vec![file.to_path_buf()], p.loop_order) {
        Ok(r) => r,
        Err(e) => return Ok(Err(format!("fresh instance rejected the new file: {e}"))),
    };
    rd.run(&[Ev::T(50)]);
    let t0 = rd.sim.now;
    let mut reps = vec![];
    for e in cont {
        if let Ev::Rep(c) = e {
            let layer = rd.sim.k.layout.b().current_layer();
            let n0 = rd.sim.trace.len();
            rd.apply(e);
            let forwarded = rd.sim.trace[n0.min(rd.sim.trace.len())..].iter().any(|o| o.kind == OutKind::Repeat);
            reps.push(RepSeen { code: *c, layer, forwarded });
        } else {
            rd.apply(e);
        }
    }
    if rd.jitter {
        return Err(Jitter);
    }
    Ok(Ok(FreshRun { trace: std::mem::take(&mut rd.sim.trace), notes: rd.notes, t0, reps }))
}

/// The first pair of outputs in which two traces differ (redundant releases dropped, as `first_diff`).
fn first_diff_pair(a: &[Out], b: &[Out]) -> Option<(Option<Out>, Option<Out>)> {
    let fa: Vec<&Out> = a.iter().filter(|o| !o.redundant).collect();
    let fb: Vec<&Out> = b.iter().filter(|o| !o.redundant).collect();
    for i in 0..fa.len().max(fb.len()) {
        match (fa.get(i), fb.get(i)) {
            (Some(x), Some(y)) if x.at == y.at && x.kind == y.kind && x.name == y.name && x.in_tick == y.in_tick => {}
            (x, y) => return Some((x.map(|o| (*o).clone()), y.map(|o| (*o).clone()))),
        }
    }
    None
}

fn rel(trace: &[Out], t0: u64, t1: u64) -> Vec<Out> {
    trace
        .iter()
        .filter(|o| o.at <= t1 && (o.at > t0 || (o.at == t0 && !o.in_tick)))
        .map(|o| {
            let mut o = o.clone();
            o.at -= t0;
            o
        })
        .collect()
}

fn rel_notes(n: &[(u64, Note)], t0: u64, t1: u64) -> Vec<(u64, Note)> {
    n.iter().filter(|x| x.0 > t0 && x.0 <= t1).map(|x| (x.0 - t0, x.1.clone())).collect()
}

fn shorts(t: &[Out]) -> Vec<String> {
    let v: Vec<String> = t.iter().map(|o| o.short()).collect();
    if v.len() > 160 {
        v[v.len() - 160..].to_vec()
    } else {
        v
    }
}

fn notes_json(n: &[(u64, Note)]) -> Vec<String> {
    n.iter().map(|(t, x)| format!("{}@{t}", x.short())).collect()
}

fn episode_hist(ep: &Episode) -> String {
    let mut rq: Vec<Ev> = vec![];
    for r in &ep.reqs {
        rq.extend(req_events(r));
    }
    format!("{} | requests: {} | {} | settle | {}", render_hist(&ep.pre), render_hist(&rq), render_hist(&ep.post), render_hist(&ep.cont))
}

fn describe_plan(p: &Plan, paths: &Paths) -> Value {
    let (old, new) = texts(p, paths, false);
    let e0 = &p.eps[0];
    json!({
        "scenario": e0.scenario,
        "files": p.nfiles,
        "old_config_f0": old,
        "valid_text_of_each_file": new,
        "content_on_disk_at_request": p.contents.iter().map(fault_name).collect::<Vec<_>>(),
        "zippy_dictionary_of_old_config": p.old.zippy.as_ref().map(|z| format!("{}: {}", z.file, dict_text(z))),
        "zippy_dictionary_of_each_file": p.specs.iter().map(|s| s.zippy.as_ref().map(|z| format!("{}: {}", z.file, dict_text(z)))).collect::<Vec<_>>(),
        "zippy_in_old_and_new": p.zmode,
        "sequences_in_old_and_new": p.smode,
        "deflocalkeys_in_old_config_and_first_requested_file": p.lkmode,
        "key_names_of_the_case": p.lk_names,
        "failed_first_session": p.broken.as_ref().map(|(i, spec, f)| json!({"file": i, "fault_at_first_request": fault_name(f), "variant": p.fault_variant, "text_before_the_fault_is_applied": cfg_text(spec, &reload_row(p.num_arg, &paths.files[p.file_arg].to_string_lossy(), false)), "repaired_before_second_request": "the valid text of the file is written"})),
        "physical_keys_tapped_by_the_key_name_probe": p.lk_codes,
        "key_events_delivered": if p.loop_order { "in the order of the processing loop: can_block_update_idle_waiting, handle_input_event, handle_time_ticks (every key event takes one tick)" } else { "queued between two ticks (handle_input_event only)" },
        "pre_history": render_hist(&e0.pre),
        "progress_bound_of_each_episode": p.eps.iter().map(|e| e.bound).collect::<Vec<_>>(),
        "custom_action_held_beyond_the_bound_in_each_episode": p.eps.iter().map(|e| e.long_hold).collect::<Vec<_>>(),
        "requests": e0.reqs.iter().map(render_req).collect::<Vec<_>>(),
        "file_index_after_each_request": e0.idx_after,
        "after_request": render_hist(&e0.post),
        "continuation": render_hist(&e0.cont),
        "later_episodes_of_the_session": p.eps.iter().skip(1).map(|ep| json!({
            "scenario": ep.scenario,
            "pre_history": render_hist(&ep.pre),
            "requests": ep.reqs.iter().map(render_req).collect::<Vec<_>>(),
            "file_index_after_each_request": ep.idx_after,
            "after_request": render_hist(&ep.post),
            "continuation": render_hist(&ep.cont),
            "kind_of_typing_in_continuation": ep.typing,
        })).collect::<Vec<_>>(),
        "whole_history": p.eps.iter().map(episode_hist).collect::<Vec<_>>().join(" || next episode: "),
        "expected": if p.success { "reload succeeds" } else { "reload fails" },
    })
}

fn run_plan(ctx: &Ctx, idx: u64, out: &mut CaseOut) {
    // (the harness resolves the key names of its histories through the same table)
    c15_lk::reset_name_table();
    let p = make_plan(ctx, idx);
    let paths = paths_for(idx, p.nfiles);
    let desc = describe_plan(&p, &paths);
    if ctx.verbose {
        eprintln!("{}", serde_json::to_string_pretty(&desc).unwrap_or_default());
    }
    let mut attempts = 0;
    let res = loop {
        attempts += 1;
        match judge_plan(&p, &paths, out, &desc, ctx.verbose) {
            Ok(()) => break Ok(()),
            Err(Jitter) if attempts < 8 => {
                out.inc("jitter_retries");
                // drop what the aborted attempt recorded
                out.violations.clear();
                continue;
            }
            Err(Jitter) => break Err(()),
        }
    };
    c15_lk::reset_name_table();
    let _ = std::fs::remove_dir_all(&paths.dir);
    let _ = std::fs::remove_dir(paths.dir.parent().unwrap_or(Path::new("/nonexistent")));
    if res.is_err() {
        out.violations.clear();
        out.inconclusive = Some("handle_time_ticks did not report exactly 1 ms in eight attempts (scheduling jitter)".into());
    }
    if idx % 97 == 3 {
        out.sample = Some(desc);
    }
}

fn judge_plan(p: &Plan, paths: &Paths, out: &mut CaseOut, desc: &Value, verbose: bool) -> Result<(), Jitter> {
    let a = match run_reload(p, paths, false)? {
        Ok(a) => a,
        Err(e) => {
            if verbose {
                eprintln!("not judged: {e}");
            }
            out.inc("cases_not_runnable");
            return Ok(());
        }
    };
    if verbose {
        eprintln!("A trace: {:?}\nA notes: {:?}", shorts(&a.trace), notes_json(&a.notes));
        for (i, e) in a.eps.iter().enumerate() {
            eprintln!("episode {i}: applied: {:?}\nt_req={} t_idle={:?} t_end={} settle_problem={:?}", e.applied, e.t_req, e.t_idle, e.t_end, e.settle_problem);
        }
    }
    let witness = |observed: Value, expected: Value| json!({"case": desc, "config": desc["old_config_f0"], "history": desc["whole_history"], "observed": observed, "expected": expected});
    let e0 = &p.eps[0];
    let Some(a0) = a.eps.first() else {
        out.inc("cases_not_runnable");
        return Ok(());
    };
    let kind_names: Vec<&str> = e0.reqs.iter().map(|r| REQ_KINDS[r.kind]).collect();
    out.inc("cases");
    out.inc(&format!("scenario:{}", e0.scenario));
    for k in &kind_names {
        out.inc(&format!("request:{k}"));
    }
    if e0.reqs.len() > 1 {
        out.inc("back_to_back_requests");
    }
    out.inc(&format!("files:{}", p.nfiles));
    out.inc(if p.loop_order { "cases_with_key_events_in_loop_order" } else { "cases_with_key_events_queued_between_ticks" });
    if !p.success {
        // ---------------------------------------------------------------- failed reload
        let fault = fault_name(&p.contents[*e0.idx_after.last().unwrap_or(&0)]);
        out.inc("failed_reload_cases");
        out.inc(&format!("fault:{fault}"));
        if p.old.zippy.is_some() {
            out.inc("failed_reload_cases_with_defzippy_in_old_config");
        }
        if p.lkmode != "off" {
            // (a broken file is parsed up to its error: its deflocalkeys block may already have
            // rewritten the process-global name table; the old configuration must not notice)
            out.inc("localkeys:failed_reload_cases");
            if p.specs[*e0.idx_after.last().unwrap_or(&0)].lk.block.is_some() && matches!(fault, "syntax-error" | "semantic-error" | "broken-zippy-dictionary") {
                out.inc("localkeys:failed_reload_of_broken_file_with_deflocalkeys_block");
            }
            out.count("localkeys:probe_taps_compared_with_no_request_twin", e0.cinfo.lk_taps);
        }
        out.tag(format!("fail|{}|{}|{}|n{}", e0.scenario, kind_names.join("+"), fault, p.nfiles));
        if let Some((_, Note::Reload(f))) = a.notes.iter().find(|n| matches!(n.1, Note::Reload(_))) {
            out.violate(
                format!("failed-reload:notified:{fault}"),
                format!("the file to reload is broken ({fault}) but a ConfigFileReload notification for {f} was sent"),
                witness(json!({"notifications": notes_json(&a.notes)}), json!("no ConfigFileReload notification")),
            );
        }
        let b = match run_reload(p, paths, true)? {
            Ok(b) => b,
            Err(e) => {
                out.inc("twin_not_runnable");
                if verbose {
                    eprintln!("twin not runnable: {e}");
                }
                return Ok(());
            }
        };
        out.count("outputs_compared_with_no_request_twin", a.trace.len() as u64);
        out.count("failed_reload:forwarded_os_repeats_compared_with_no_request_twin", a0.t_idle.map(|t| a.trace.iter().filter(|o| o.at >= t && o.kind == OutKind::Repeat).count() as u64).unwrap_or(0));
        if a.requested_at_end {
            out.violate("failed-reload:request-never-decided", "the reload request is still pending at the end of the history", witness(json!({"settle": format!("{:?}", a0.settle_problem)}), json!("request decided once keys are up")));
        }
        let b_idle = b.eps.first().map(|e| e.t_idle.is_some()).unwrap_or(false);
        if let Some(d) = first_diff(&a.trace, &b.trace) {
            let cls = if a0.t_idle.is_none() || !b_idle { "never-idle" } else { "outputs" };
            out.violate(
                format!("failed-reload:differs-from-no-request:{cls}"),
                format!("after a failed reload ({fault}) the outputs differ from the twin run in which no reload was requested: {d}"),
                witness(json!({"with_failed_reload": shorts(&a.trace), "notifications": notes_json(&a.notes), "settle": format!("{:?}", a0.settle_problem)}), json!({"no_request_twin": shorts(&b.trace), "notifications": notes_json(&b.notes)})),
            );
        } else if a.notes != b.notes {
            out.violate(
                "failed-reload:notifications-differ-from-no-request",
                "after a failed reload the notifications differ from the twin run in which no reload was requested",
                witness(json!({"notifications": notes_json(&a.notes)}), json!({"notifications": notes_json(&b.notes)})),
            );
        }
        if a0.t_idle.is_some() {
            out.inc("failed_reload_cases_with_continuation");
        }
        return Ok(());
    }
    // -------------------------------------------------------------------- successful reload(s)
    out.inc("successful_reload_cases");
    if p.session {
        out.inc("sessions");
        out.inc(&format!("session_episodes_planned:{}", p.eps.len()));
        out.tag(format!(
            "{}|{}|{}",
            if p.broken.is_some() { "failed-first-session" } else { "session" },
            p.eps.iter().map(|e| format!("{}+{}{}{}", e.scenario, REQ_KINDS[e.reqs[0].kind], if e.reqs[0].hold > 1000 { "+held-1s" } else { "" }, e.long_hold.map(|k| format!("+{k}-beyond-bound")).unwrap_or_default())).collect::<Vec<_>>().join(">"),
            p.eps.iter().map(|e| e.typing).collect::<Vec<_>>().join(">"),
        ));
    } else {
        out.tag(format!("ok|{}|{}|n{}|applied{}{}", e0.scenario, kind_names.join("+"), p.nfiles, a0.applied.len().min(3), e0.long_hold.map(|k| format!("|{k}-beyond-bound")).unwrap_or_default()));
    }
    if a.not_quiescent_before_later_request {
        out.inc("sessions_ended_early:typing_left_something_pressed");
    }
    // the file that is active when an episode starts: None = the old configuration
    let mut active: Option<usize> = None;
    // how the previous episode's reload was applied and what was typed since (evidence)
    let mut prev_by_fallback = false;
    for (ei, eo) in a.eps.iter().enumerate() {
        let ep = &p.eps[ei];
        if let (0, Some((bi, bspec, f))) = (ei, &p.broken) {
            // failed-first session: the first request fails; the old configuration stays (what it
            // does then is judged by the failed-reload cases), the later episodes are judged as
            // ever: each successful reload equals a fresh instance of its file
            let fault = fault_name(f);
            out.inc("failed_first_sessions");
            out.inc(&format!("failed_first_sessions:fault:{fault}"));
            if bspec.lk.block.is_some() && *f == Content::Semantic {
                out.inc("failed_first_sessions:broken_file_has_deflocalkeys_block_and_fails_after_it");
            }
            if let Some(ap) = eo.applied.first() {
                out.violate(
                    format!("failed-reload:notified:{fault}:first-request-of-session"),
                    format!("the file to reload (file {bi}) is broken ({fault}) but a ConfigFileReload notification for {} was sent", ap.file),
                    witness(json!({"notifications": notes_json(&a.notes)}), json!("no ConfigFileReload notification")),
                );
                return Ok(());
            }
            if eo.t_idle.is_none() {
                out.inc("failed_first_sessions:not_idle_after_the_failed_request:not_judged_further");
                return Ok(());
            }
            if a.eps.len() > 1 {
                out.inc("failed_first_sessions_with_later_request");
            }
            continue;
        }
        match judge_episode(p, paths, &a, ei, active, prev_by_fallback, out, &witness)? {
            Some(landed) => active = Some(landed),
            None => return Ok(()),
        }
        prev_by_fallback = eo.applied.last().map(|x| x.idle_counter > 1000).unwrap_or(false) && matches!(ep.typing, "none" | "plain-keys-only");
    }
    Ok(())
}

/// Key-name dimension, structural precondition of two signatures: file `tgt` uses (in defsrc or in
/// an action) a key name to which a configuration that this process has parsed and applied before
/// episode `ei`'s reload - the old one, the files the earlier episodes of the session installed -
/// gives another meaning than `tgt` alone does (c15_lk::resolve = block entry, else the guide's code).
fn lk_name_meant_something_else(p: &Plan, ei: usize, tgt: usize) -> bool {
    if p.lkmode == "off" {
        return false;
    }
    let lt = &p.specs[tgt].lk;
    let mut parsed_before: Vec<&LkSpec> = vec![&p.old.lk];
    for (j, e) in p.eps[..ei.min(p.eps.len())].iter().enumerate() {
        match (&p.broken, e.idx_after.last()) {
            // (parsed up to its error, never applied)
            (Some((_, b, _)), _) if j == 0 => parsed_before.push(&b.lk),
            (_, Some(i)) => parsed_before.push(&p.specs[*i].lk),
            _ => {}
        }
    }
    c15_lk::names_used(lt).iter().any(|n| parsed_before.iter().any(|b| c15_lk::resolve(b, n) != c15_lk::resolve(lt, n)))
}

/// Judge episode `ei` of a successful-reload case. Returns the index of the file that is active
/// afterwards, or None if the rest of the case cannot be judged.
#[allow(clippy::too_many_arguments)]
fn judge_episode(p: &Plan, paths: &Paths, a: &Obs, ei: usize, active: Option<usize>, prev_by_fallback: bool, out: &mut CaseOut, witness: &dyn Fn(Value, Value) -> Value) -> Result<Option<usize>, Jitter> {
    let ep = &p.eps[ei];
    let eo = &a.eps[ei];
    let later = ei > 0;
    // signatures of later episodes of a session are classes of their own
    let sg = |base: &str| if later { format!("{base}:later-request-of-session") } else { base.to_string() };
    let whole = |t: &[Out]| -> Vec<String> { shorts(&t.iter().filter(|o| o.at <= eo.t_end).cloned().collect::<Vec<_>>()) };
    if later {
        out.inc("session_later_episodes");
        out.inc(&format!("session_later_scenario:{}", ep.scenario));
        out.inc(&format!("session_later_request:{}", REQ_KINDS[ep.reqs[0].kind]));
        out.inc(&format!("session_typing_before_later_request:{}", p.eps[ei - 1].typing));
        if eo.os_key_down_at_request {
            out.inc("session_later_requests_with_output_key_down");
        }
        if prev_by_fallback {
            // the previous reload of the session went through the one-idle-second fallback and
            // nothing but plain keys was typed since
            out.inc("session_later_requests_after_fallback_reload_and_plain_typing");
            if eo.os_key_down_at_request && p.loop_order {
                out.inc("session_later_requests_with_output_key_down_after_fallback_reload_and_plain_typing_in_loop_order");
            }
        }
    }
    if ep.reqs.iter().any(|r| r.hold > 1000) {
        out.inc("requests_with_reload_key_held_over_1s");
    }
    // (0) progress: a pending request is applied at the latest once `bound` consecutive iterations
    // passed without input event, without output and without an OS key down (whatever custom action
    // is still physically held)
    out.max("progress:longest_quiet_run_with_request_pending", eo.max_quiet_unapplied);
    if eo.max_quiet_unapplied > ep.bound as u64 {
        let (btn, code) = eo.down_when_bound_passed.unwrap_or((false, false));
        let what = if btn {
            "mouse-button-down"
        } else if code {
            "key-code-down"
        } else {
            "nothing-down"
        };
        out.violate(
            sg(&format!("no-reload-after-one-idle-second:{what}")),
            format!(
                "the request was pending for {} consecutive loop iterations without any input event, without any output and with no OS key down (OS state: {what}), and the reload was not applied; the one-idle-second fallback has to apply it within {} iterations (1000 + {} = the longest duration the active configuration names + 100)",
                eo.max_quiet_unapplied,
                ep.bound,
                ep.bound.saturating_sub(1100)
            ),
            witness(json!({"episode": ei, "applied": format!("{:?}", eo.applied), "longest_quiet_run_with_request_pending": eo.max_quiet_unapplied, "bound": ep.bound, "trace": whole(&a.trace), "notifications": notes_json(&a.notes)}), json!("ConfigFileReload after one idle second although a custom action is still held")),
        );
    }
    if let (Some(q), Some(kind)) = (eo.quiet_at_first_app, ep.long_hold) {
        // the clause had something to say: had the reload not been applied when it was, the run
        // without input / output / OS key down would have outlasted the bound before the next
        // input event of the history (the release of what is held)
        if let Some(more) = eo.input_free_after_first_app {
            if q + more > ep.bound as u64 {
                out.inc("progress:reloads_that_had_to_come_while_a_custom_action_stays_held");
                out.inc(&format!("progress:reloads_that_had_to_come_while_held:{kind}"));
                if later {
                    out.inc("progress:session_later_reloads_that_had_to_come_while_the_reload_key_stays_held");
                }
                if eo.down_before_first_app.0 {
                    out.inc("progress:reloads_that_had_to_come_with_mouse_button_down");
                }
                if eo.down_before_first_app.1 {
                    out.inc("progress:reloads_that_had_to_come_with_key_code_down");
                }
            }
        }
    }
    let planned_target = *ep.idx_after.last().unwrap_or(&0);
    let target_path = paths.files[planned_target].to_string_lossy().to_string();
    // (1) it is applied at all, and the last application is the file the requests end on
    if eo.applied.is_empty() {
        let sig = match &eo.settle_problem {
            Some((w, _)) => format!("not-applied:{w}"),
            // (the file is one a fresh start accepts; see lk_name_meant_something_else)
            None if lk_name_meant_something_else(p, ei, planned_target) => "not-applied:key-name-meant-something-else-before-the-reload".to_string(),
            None => "not-applied".to_string(),
        };
        out.violate(sg(&sig), "a valid file was requested but no reload was applied within 6000 ticks after every key was released", witness(json!({"episode": ei, "trace": whole(&a.trace), "notifications": notes_json(&a.notes), "settle": format!("{:?}", eo.settle_problem)}), json!("ConfigFileReload once no output key is down")));
        return Ok(None);
    }
    out.count("reloads_applied", eo.applied.len() as u64);
    let defer = eo.applied[0].tick.saturating_sub(eo.t_req);
    out.max("deferral_ticks", defer);
    out.inc(match defer {
        0..=1 => "deferral_0_1",
        2..=50 => "deferral_2_50",
        51..=600 => "deferral_51_600",
        _ => "deferral_gt_600",
    });
    if eo.applied.iter().any(|x| x.idle_counter > 1000) {
        out.inc("reloads_applied_by_one_idle_second_fallback");
        if later {
            out.inc("session_later_reloads_applied_by_one_idle_second_fallback");
        }
    }
    // files named by the notifications: a subsequence of the files selected by the requests, ending
    // with the last one
    let allowed: Vec<String> = ep.idx_after.iter().map(|i| paths.files[*i].to_string_lossy().to_string()).collect();
    let named: Vec<String> = eo.applied.iter().map(|x| x.file.clone()).collect();
    let mut ai = 0;
    let mut subseq = true;
    for n in &named {
        while ai < allowed.len() && &allowed[ai] != n {
            ai += 1;
        }
        if ai == allowed.len() {
            subseq = false;
            break;
        }
        ai += 1;
    }
    if !subseq || (ep.reqs.len() == 1 && (named.last() != Some(&target_path) || named.len() != 1)) {
        let cls = if subseq && named.last() == Some(&target_path) { "reloaded-more-than-once" } else { "wrong-file-reloaded" };
        out.violate(
            sg(cls),
            format!("the ConfigFileReload notifications name {:?}, the requests select {:?} (file {} was active before)", named.iter().map(|s| s.rsplit('/').next().unwrap_or("")).collect::<Vec<_>>(), ep.idx_after, active.map(|x| x.to_string()).unwrap_or_else(|| "0, old text".into())),
            witness(json!({"episode": ei, "notifications": notes_json(&a.notes)}), json!({"files_selected_by_requests": allowed})),
        );
        return Ok(None);
    }
    // With two requests the first reload may be applied before the second request key has been
    // processed (it can sit in the input queue behind a pending tap-hold); the restart discards
    // the queue. The statement does not say which of the two must win, so the file that the last
    // notification names is taken as "the new file" from here on.
    let target = paths.files.iter().position(|x| Some(&x.to_string_lossy().to_string()) == named.last()).unwrap_or(planned_target);
    if named.last() != Some(&target_path) {
        out.inc("second_request_lost_to_first_reload");
    }
    // (2) deferral: never with an OS key down unless more than 1000 ms without input/output
    for ap in &eo.applied {
        if !ap.os_keys_down.is_empty() {
            out.inc("applied_with_key_down");
            if ap.idle_for <= 1000 {
                out.violate(
                    sg("applied-while-key-down"),
                    format!("reload applied at tick {} while the OS has {:?} down and only {} ms passed since the last input/output", ap.tick, ap.os_keys_down, ap.idle_for),
                    witness(json!({"episode": ei, "applied": format!("{ap:?}"), "trace": whole(&a.trace)}), json!("applied only when no output key is down, or after more than 1000 idle ticks")),
                );
            } else {
                out.inc("applied_by_1000_tick_fallback");
            }
        } else if later {
            out.inc("session_later_reloads_applied_with_no_key_down");
        }
    }
    if later && ep.pre.iter().any(|e| matches!(e, Ev::P(_))) && defer > 1 {
        out.inc("session_later_reloads_deferred_while_keys_held");
    }
    // a key typed while the request was pending (before the first application)
    let t_first_app = eo.applied[0].tick;
    let typed_before_app = eo.typed_while_pending.iter().any(|t| *t < t_first_app);
    // ... and one that was meant to be typed while it was pending but came after the application:
    // it was typed on the new file, whose state is then no longer that of a fresh instance
    let typed_after_app = eo.typed_while_pending.iter().any(|t| *t >= t_first_app);
    if typed_before_app {
        out.inc("requests_with_key_typed_while_pending");
        if eo.applied.iter().any(|x| x.idle_counter > 1000) {
            out.inc("fallback_reloads_with_key_typed_during_the_idle_second");
        }
    }
    // (3) notifications: each ConfigFileReload is immediately followed by LayerChange(first layer)
    for (i, (t, n)) in a.notes.iter().enumerate() {
        if *t <= eo.t_req || *t > eo.t_end {
            continue;
        }
        if let Note::Reload(f) = n {
            let fi = paths.files.iter().position(|x| x.to_string_lossy() == *f);
            let first = fi.map(|fi| p.specs[fi].l0.clone()).unwrap_or_default();
            let next = a.notes.get(i + 1);
            let ok = matches!(next, Some((t2, Note::Layer(l))) if t2 == t && *l == first);
            if !ok {
                let cls = match next {
                    Some((t2, Note::Layer(_))) if t2 == t => "wrong-layer-name",
                    _ => "missing",
                };
                out.violate(
                    sg(&format!("layer-change-notification:{cls}")),
                    format!("ConfigFileReload at tick {t} must be followed by LayerChange({first}); got {:?}", next.map(|x| x.1.short())),
                    witness(json!({"episode": ei, "notifications": notes_json(&a.notes)}), json!(format!("ConfigFileReload({f}) then LayerChange({first}) in the same tick"))),
                );
            }
            out.inc("notification_pairs_checked");
        }
    }
    // (4) first layer active right after each application
    for ap in &eo.applied {
        if ap.layer_after != 0 {
            out.violate(sg("first-layer-not-active"), format!("after the reload at tick {} layer {} ({}) is active", ap.tick, ap.layer_after, ap.layer_name_after), witness(json!({"episode": ei, "applied": format!("{ap:?}")}), json!("layer 0 active")));
        }
    }
    // (5) after the last application a fresh instance that only sees releases emits nothing:
    // no press / scroll / move / unicode until the continuation starts, and no notification
    let t_app = eo.applied.last().map(|x| x.tick).unwrap_or(0);
    let t_end_quiet = eo.t_idle.unwrap_or(eo.t_end);
    let late: Vec<&Out> = a.trace.iter().filter(|o| o.at > t_app && o.at <= t_end_quiet && !matches!(o.kind, OutKind::Up | OutKind::BtnUp) && !(o.kind == OutKind::Code && o.name.ends_with("Release"))).collect();
    let late_json: Vec<String> = late.iter().take(12).map(|o| o.short()).collect();
    // (6) idle point: everything up, nothing scrolling / moving
    let Some(t_idle) = eo.t_idle else {
        let (what, detail) = eo.settle_problem.clone().unwrap_or_default();
        // (outputs of a key that was typed on the new file say nothing about what survived)
        let late_kind = if typed_after_app { "" } else { late.first().map(|o| kind_class(&o.kind)).unwrap_or("") };
        let sig = match (what.as_str(), late_kind) {
            ("scroll", _) | (_, "scroll") => "state-survives-reload:scroll".to_string(),
            ("move", _) | (_, "move") => "state-survives-reload:move".to_string(),
            ("button-down", _) => {
                // the button was already down when the reload was applied, and the reload was
                // applied by the one-idle-second fallback (which exists to get rid of stuck state)
                if eo.applied.last().map(|x| !x.os_btns_down.is_empty() && x.idle_for > 1000).unwrap_or(false) {
                    "stuck-after-reload:button:held-through-one-idle-second-fallback".to_string()
                } else {
                    "stuck-after-reload:button".to_string()
                }
            }
            ("code-down", _) => {
                // like the button: the key code was pressed before the reload, which was applied by
                // the one-idle-second fallback
                if eo.applied.last().map(|x| !x.os_codes_down.is_empty() && x.idle_for > 1000).unwrap_or(false) {
                    "stuck-after-reload:key-code:held-through-one-idle-second-fallback".to_string()
                } else {
                    "stuck-after-reload:key-code".to_string()
                }
            }
            ("key-down", _) => {
                if eo.stuck_keys_backed_by_layout {
                    "stuck-after-reload:key".to_string()
                } else {
                    "stuck-after-reload:key-without-layout-state".to_string()
                }
            }
            (w, _) => format!("never-idle-after-reload:{w}"),
        };
        out.violate(
            sg(&sig),
            format!("6000 ticks after the reload (applied at tick {t_app}) and the release of every key kanata is not idle with everything released: {what} ({detail}); {} non-release outputs after the reload without new input", late.len()),
            witness(json!({"episode": ei, "trace": whole(&a.trace), "notifications": notes_json(&a.notes), "settle": detail, "outputs_after_reload_without_input": late_json}), json!("everything released, no continuous output, idle")),
        );
        return Ok(None);
    };
    if let Some(o) = late.first() {
        if !typed_after_app {
            let seq = if eo.applied.iter().any(|x| x.seq_pending) { ":sequence-pending-across-reload" } else { "" };
            out.violate(
                sg(&format!("output-after-reload:{}{seq}", kind_class(&o.kind))),
                format!("after the reload was applied at tick {t_app} and without new input kanata emitted {} ({} such outputs); a fresh instance emits nothing", o.short(), late.len()),
                witness(json!({"episode": ei, "trace": whole(&a.trace), "notifications": notes_json(&a.notes), "outputs_after_reload_without_input": late_json}), json!("only releases after the reload until the next input")),
            );
        }
    }
    let late_notes: Vec<&(u64, Note)> = a.notes.iter().filter(|n| n.0 > t_app && n.0 <= t_end_quiet).collect();
    if let Some(n) = late_notes.first() {
        if !typed_after_app {
            out.violate(
                sg("notification-after-reload-without-input"),
                format!("{} at tick {} although nothing was typed since the reload at tick {t_app}", n.1.short(), n.0),
                witness(json!({"episode": ei, "notifications": notes_json(&a.notes)}), json!("no notification between the reload and the next input")),
            );
        }
    }
    out.inc("reached_idle_point_after_reload");
    if later {
        out.inc("session_later_episodes_reached_idle_point");
    }
    if typed_after_app {
        out.inc("episodes_with_key_typed_after_the_application:not_compared_with_fresh_instance");
        return Ok(Some(target));
    }
    if let (1, Some((_, b, f))) = (ei, &p.broken) {
        out.inc("failed_first_sessions:successful_reload_after_the_failed_one_compared_with_fresh");
        if b.lk.block.is_some() && *f == Content::Semantic && p.specs[target].lk.block.is_none() && p.lkmode != "off" {
            out.inc("failed_first_sessions:broken_file_had_deflocalkeys_block_then_file_without_block_reloaded");
        }
    }
    // (7) from the idle point on: a fresh instance of the new file
    let f = match run_fresh(p, &paths.files[target], &ep.cont)? {
        Ok(f) => f,
        Err(e) => {
            out.violate(sg("fresh-instance-rejects-reloaded-file"), e, witness(json!(null), json!(null)));
            return Ok(None);
        }
    };
    let ra = rel(&a.trace, t_idle, eo.t_end);
    let rf = rel(&f.trace, f.t0, u64::MAX);
    out.count("continuation_outputs_compared_with_fresh", rf.len() as u64);
    if !rf.is_empty() {
        out.inc("continuations_with_output");
        if later {
            out.inc("session_later_continuations_with_output");
        }
    }
    // what differs between the configuration before the reload and the reloaded file outside the
    // layout, and whether the continuation reached it
    let mut lk_changed = false;
    {
        let tgt = &p.specs[target];
        let before = match active {
            None => &p.old,
            Some(i) => &p.specs[i],
        };
        if p.lkmode != "off" {
            // key names: the table the previous configuration left in the process against what the
            // reloaded file alone says (c15_lk::resolve is the model of a fresh start)
            let (lb, lt) = (&before.lk, &tgt.lk);
            let pair = match (&lb.block, &lt.block) {
                (Some(_), None) => "block->none",
                (None, Some(_)) => "none->block",
                (None, None) => "none->none",
                (Some(x), Some(y)) => {
                    let (mut x, mut y) = (x.clone(), y.clone());
                    x.sort();
                    y.sort();
                    if x == y {
                        "block->same-block"
                    } else {
                        "block->other-block"
                    }
                }
            };
            out.inc(&format!("localkeys_pair:{pair}"));
            if later {
                out.inc(&format!("localkeys_pair_in_later_episode:{pair}"));
            }
            let used = c15_lk::names_used(lt);
            lk_changed = lk_name_meant_something_else(p, ei, target);
            if lk_changed && !used.iter().any(|n| c15_lk::resolve(lb, n) != c15_lk::resolve(lt, n)) {
                out.inc("localkeys:name_meant_something_else_only_in_a_configuration_before_the_previous_one");
            }
            out.count("localkeys:names_used_by_reloaded_file", used.len() as u64);
            if lk_changed {
                out.inc("localkeys:reloads_that_change_the_meaning_of_a_name_the_new_file_uses");
                if lt.block.is_none() {
                    out.inc("localkeys:name_redefined_by_previous_file_used_by_new_file_without_block");
                } else if lb.block.is_some() && used.iter().any(|n| c15_lk::resolve(lb, n) != c15_lk::resolve(lt, n) && !lt.block.as_ref().map(|b| b.iter().any(|x| &x.0 == n)).unwrap_or(false)) {
                    out.inc("localkeys:name_redefined_by_previous_file_used_but_not_defined_by_new_block");
                }
                if ep.cinfo.lk_taps > 0 {
                    out.inc("localkeys:such_reloads_followed_by_probe_of_every_key_a_name_can_mean");
                }
            }
            if !lt.decoys.is_empty() {
                out.inc("localkeys:reloaded_file_has_blocks_for_other_platforms");
            }
            out.count("localkeys:probe_taps_compared_with_fresh", ep.cinfo.lk_taps);
        }
        let on_planned_target = target == planned_target;
        let zo = before.zippy.as_ref();
        let zn = tgt.zippy.as_ref();
        out.inc(&format!(
            "zippy_pair:{}->{}",
            if zo.is_some() { "defzippy" } else { "none" },
            match (zo, zn) {
                (_, None) => "none",
                (Some(o), Some(n)) if o.file == n.file && later => "same-dictionary-file",
                (Some(o), Some(n)) if o.file == n.file => "same-dictionary-file-edited",
                (Some(o), Some(n)) if o.entries == n.entries => "same-dictionary",
                (Some(_), Some(_)) => "other-dictionary",
                (None, Some(_)) => "defzippy",
            }
        ));
        let bs = rf.iter().filter(|o| o.kind == OutKind::Down && o.name == "BSpace").count() as u64;
        if zn.is_some() && bs > 0 {
            out.inc("continuations_with_zippy_expansion_in_new_file");
            out.count("zippy_expansions_compared_with_fresh", bs);
        }
        if on_planned_target {
            // chords of the case typed in the continuation while a dictionary that has them was
            // active before the reload
            let chord_in = |z: &ZippySpec, slots: &[usize]| {
                let mut want: Vec<String> = slots.iter().map(|x| tgt.acts0[*x].clone()).collect();
                want.sort();
                z.entries.iter().any(|e| {
                    let mut have: Vec<String> = e.0.chars().map(|c| c.to_string()).collect();
                    have.sort();
                    have == want
                })
            };
            let mut old_chord_typed = false;
            for (slots, surely_enabled) in &ep.cinfo.chord_bursts {
                if let Some(o) = zo {
                    if *surely_enabled && chord_in(o, slots) {
                        old_chord_typed = true;
                    }
                }
            }
            if old_chord_typed {
                out.inc(if zn.is_none() { "old_chord_typed_after_reload_into_file_without_defzippy" } else { "old_chord_typed_after_reload_into_file_with_other_defzippy" });
            }
            if !ep.cinfo.chord_bursts.is_empty() && zo.is_none() && zn.is_some() {
                out.inc("new_chord_typed_after_reload_from_file_without_defzippy");
            }
            out.count("continuation:chords_pressed_together", ep.cinfo.chord_bursts.len() as u64);
            out.count("continuation:other_keys_pressed_together", ep.cinfo.other_bursts);
            out.count("continuation:leader_plus_sequence", ep.cinfo.seq_probes);
            out.count("continuation:sequence_typed_with_lsft_held", ep.cinfo.seq_mod_probes);
            out.count("continuation:two_accelerated_movement_keys_staggered", ep.cinfo.accel_holds);
            out.count("continuation:dynamic_macro_record_and_replay", ep.cinfo.dm_probes);
            out.count("continuation:virtual_key_operated_by_name", ep.cinfo.fk_ops);
            out.count("continuation:mouse_movement_keys_held", ep.cinfo.mouse_holds);
            if ep.cinfo.seq_probes > 0 && before.seqs != tgt.seqs {
                out.inc("sequence_typed_after_reload_that_changed_the_sequence_table");
            }
            if ep.cinfo.fk_ops > 0 && before.vkeys != tgt.vkeys {
                out.inc("virtual_key_operated_after_reload_that_changed_the_virtual_keys");
            }
        }
        // OS key repeats of the continuation, as the fresh instance saw them, against what the
        // configuration before the reload had for the same physical key / layer index
        {
            let act_codes: Vec<u16> = ACT_KEYS.iter().map(|k| osc(k)).collect();
            let layer_acts = |s: &CfgSpec, layer: usize, slot: usize| -> Option<String> {
                match layer {
                    0 => s.acts0.get(slot).cloned(),
                    1 => s.acts1.get(slot).cloned(),
                    n => s.extra.get(n - 2).and_then(|l| l.1.get(slot).cloned()),
                }
            };
            out.count("continuation:directed_os_repeat_pieces", ep.cinfo.repeat_pieces);
            out.count("continuation:os_repeats_inserted_into_other_pieces", ep.cinfo.sprinkled_repeats);
            out.count("os_repeat_events_in_continuations", f.reps.len() as u64);
            let mut any_fwd = false;
            for r in &f.reps {
                if r.forwarded {
                    any_fwd = true;
                    out.inc("os_repeats_forwarded_by_fresh_instance");
                } else {
                    out.inc("os_repeats_not_forwarded_by_fresh_instance");
                }
                if r.layer != 0 {
                    out.inc("os_repeats_with_non_first_layer_active");
                    if r.forwarded {
                        out.inc("os_repeats_forwarded_with_non_first_layer_active");
                    }
                }
                if r.layer >= before.n_layers() {
                    out.inc("os_repeats_with_a_layer_active_that_the_previous_configuration_does_not_have");
                }
                if let Some(slot) = act_codes.iter().position(|c| *c == r.code) {
                    let now_act = layer_acts(tgt, r.layer, slot);
                    let before_act = layer_acts(before, r.layer, slot);
                    if r.forwarded && now_act != before_act {
                        out.inc("os_repeats_forwarded_for_key_mapped_differently_before_the_reload");
                    }
                }
            }
            if any_fwd {
                out.inc("continuations_with_forwarded_os_repeat");
                if later {
                    out.inc("session_later_continuations_with_forwarded_os_repeat");
                }
            }
            out.inc(match tgt.n_layers().cmp(&before.n_layers()) {
                std::cmp::Ordering::Greater => "reload_into_file_with_more_layers",
                std::cmp::Ordering::Less => "reload_into_file_with_fewer_layers",
                std::cmp::Ordering::Equal => "reload_into_file_with_as_many_layers",
            });
        }
        out.inc(&format!("sequences_pair:{}->{}", if before.seqs.is_empty() { "none" } else { "defseq" }, if tgt.seqs.is_empty() { "none" } else if tgt.seqs == before.seqs { "same" } else { "defseq" }));
        if before.vkeys.iter().map(|v| &v.0).collect::<Vec<_>>() != tgt.vkeys.iter().map(|v| &v.0).collect::<Vec<_>>() {
            out.inc("reload_changes_virtual_key_order");
        }
        for o in VARIED_OPTS {
            if before.opt(o) != tgt.opt(o) {
                out.inc(&format!("reload_changes_option:{o}"));
            }
        }
    }
    if let Some(d) = first_diff(&ra, &rf) {
        // the first difference is a forwarded OS repeat that only one of the two instances wrote,
        // or that they wrote for different keys: a class of its own
        let at_repeat = match first_diff_pair(&ra, &rf) {
            Some((x, y)) => x.map(|o| o.kind == OutKind::Repeat).unwrap_or(false) || y.map(|o| o.kind == OutKind::Repeat).unwrap_or(false),
            None => false,
        };
        out.violate(
            sg(if eo.stale_override_state {
                "differs-from-fresh-instance:stale-override-state"
            } else if lk_changed {
                // structural precondition: the configuration before the reload gave a key name that
                // the reloaded file uses another meaning than the reloaded file alone does
                "differs-from-fresh-instance:key-name-meant-something-else-before-the-reload"
            } else if at_repeat {
                "differs-from-fresh-instance:forwarded-os-repeat"
            } else {
                "differs-from-fresh-instance"
            }),
            format!("from the idle point after the reload (tick {t_idle}) the outputs differ from a freshly started instance of the new file: {d}"),
            witness(json!({"episode": ei, "reloaded_relative_to_idle_point": shorts(&ra), "whole_trace": whole(&a.trace), "notifications": notes_json(&a.notes)}), json!({"fresh_instance": shorts(&rf)})),
        );
    } else {
        let na = rel_notes(&a.notes, t_idle, eo.t_end);
        let nf = rel_notes(&f.notes, f.t0, u64::MAX);
        if na != nf {
            out.violate(
                sg("notifications-differ-from-fresh-instance"),
                "from the idle point after the reload the layer notifications differ from a freshly started instance of the new file",
                witness(json!({"episode": ei, "reloaded": notes_json(&na)}), json!({"fresh": notes_json(&nf)})),
            );
        }
        out.count("continuation_notifications_compared", nf.len() as u64);
    }
    Ok(Some(target))
}

impl Check for C15Check {
    fn id(&self) -> &'static str {
        "C15"
    }
    fn n_cases(&self, ctx: &Ctx) -> u64 {
        n_classic(ctx) + n_sessions(ctx) + n_failed_first(ctx)
    }
    fn describe(&self, ctx: &Ctx, idx: u64) -> Value {
        let p = make_plan(ctx, idx);
        describe_plan(&p, &paths_for(idx, p.nfiles))
    }
    fn run_case(&self, ctx: &Ctx, idx: u64) -> CaseOut {
        let mut out = CaseOut::new();
        run_plan(ctx, idx, &mut out);
        out
    }
    fn rule(&self) -> String {
        "case = (pre-state scenario, reload request kind, outcome) taken systematically from the index: 16 scenarios (idle, key held, pending tap-hold, active one-shot, running macro, held mouse button, held mwheel, held movemouse, caps-word, pending hold-for-duration, layer held, layer switched, unmod key held > 1 s (the 1000-idle-tick fallback), plain key held > 1 s, two keys held, random typing) x 5 request kinds (lrld, lrld-next, lrld-prev, lrld-num, lrld-file) x {valid new file, broken new file} x 6 fault kinds (syntax error, semantic error, missing file, directory, non-UTF-8, valid text naming a malformed zippychord dictionary), over 1-3 real files; every fifth case taps a second request back-to-back. Old and new configurations are random over plain keys, tap-hold, one-shot, macro, mouse button / wheel / movement (plain and accelerated), caps-word, hold-for-duration, layers, chords, multi, tap-dance, unmod, fork, switch with key-timing, overrides. Everything that a reload has to replace OUTSIDE the layout is varied independently between the old configuration and every new file: zippychord (old file with defzippy -> new without, new with another dictionary, new naming the same dictionary file whose content was edited, old without -> new with; dictionaries are real files next to the configuration, contain the chords of the case expressed in the letters the reloaded file types, follow-up chords and own chords; deadline / idle-reactivate-time / smart-space options vary), defseq tables with a leader key (sldr or (sequence t mode)) in old-only / new-only / both (a third of them with sequence-always-on, whose time-out and input mode are the Kanata-level fields), the defvirtualkeys list (2-4 keys, random order = random index behind each name, random actions), dynamic-macro record / play keys (new files only) and the defcfg options sequence-timeout, sequence-input-mode, sequence-backtrack-modcancel, sequence-always-on, movemouse-smooth-diagonals, movemouse-inherit-accel-state, dynamic-macro-max-presses, dynamic-macro-replay-delay-behaviour, override-release-on-activation, concurrent-tap-hold, rapid-event-delay. After the request(s) the held keys are released with random gaps, the run settles, then a continuation of 2-5 pieces is typed: random typing, the chords of the case pressed together (half of the cases start with one, so zippychord is surely enabled), leader + key sequence (some defined as (lsft k1 k2) and typed with lsft held, some broken off), two accelerated movement keys pressed one after the other, record / stop / replay of a dynamic macro, virtual keys pressed / tapped / toggled by name as the TCP server does, movement keys held together, random keys pressed together. Failed reloads are compared, output by output and tick by tick, with a twin run whose reload keys are inert (the dictionary file on disk changes in both); successful ones with a fresh Kanata::new of the new file from the idle point on, plus the deferral / notification / first-layer / nothing-pressed oracles. SESSIONS (the indices above the single-episode cases; 640 quick / 9600 thorough): 2-3 reload episodes on one running instance, all files valid. The first episode is one of the 16 scenarios x 5 request kinds (one request; in 2/5 the reload key itself is held 1050-1450 ticks, so that the held custom action defers the reload until the one-idle-second fallback applies it, in a third of those another key is tapped during the hold; in 1/4 whatever the scenario holds is held 1100 / 1400 ticks after the request, with a key tapped in the middle of that wait when the scenario surely defers the reload). Its continuation is the typing before the next request: nothing, plain letters only (taps and overlapping holds of keys that type a plain letter in the file just installed, i.e. nothing kanata has to wait for), or the mixed continuation described above. Every later episode makes its pre-state on the file the previous one installed (idle, one or two plain-letter keys held, the lsft key held, random typing cut off anywhere), taps a random request kind (a third with the reload key held for more than a second), waits (a fifth for 1100 / 1400 ticks, possibly with a key tapped in the middle), releases what is held with random gaps, settles, and types its own continuation; the last one types the mixed continuation. Every episode is judged on its own: exactly one ConfigFileReload naming the file the request selects relative to the file active by then, not applied with an OS key down unless more than 1000 iterations passed since the last input / output, notification pair, first layer, only releases until the idle point, everything up at the idle point, continuation identical to a fresh instance of the file that episode installed. OS KEY REPEATS are a dimension of every continuation (single-episode cases, failed-reload cases and every episode of a session; a stream of their own, the rest of a case is what it was): every configuration (old and every file) has 2, 3 or 4 layers (old: 2/3/4 with weights 2:1:1, files 2:3:3, random actions on the additional layers) and maps the extra physical key j on its first layer to (layer-while-held L), L = the last layer half of the time, else any non-first layer; 3 of 5 mixed continuations get a directed piece at their start or end: [j down] key down (2 of 3 a key that types a plain letter in the installed file), [j down], 1-4 Repeat events for the key 1-33 ticks apart, a third with a second key held and repeated plus a stray repeat of the first, a quarter of the layer-held ones release j first and repeat once more, key up, a fifth with a Repeat after the release, j up; and 2 of 3 of all continuations get 1-3 Repeat events inside a quarter of the waits during which a key is physically held (4 of 5 for the key pressed last). Reloaded and fresh instance receive the same events; forwarded repeats are outputs of the compared traces (kind repeat, stamped with the tick at which the event arrived). KEY-EVENT DELIVERY is a dimension of every case: a third of the single-episode cases and three quarters of the sessions deliver every key event as a loop iteration of its own in the loop's order (can_block_update_idle_waiting, handle_input_event, handle_time_ticks), the others queue key events between two iterations. HELD CUSTOM ACTIONS AND THE ONE-IDLE-SECOND FALLBACK (stream of its own): the scenario 'held mouse button' holds mlft (3 of 8), mrgt / mmid / mfwd / mbck (2 of 8) or (arbitrary-code 700 / 249 / 511) (3 of 8); in half of its successful cases the key stays held for bound + 30 / 200 / 700 iterations after the request with no further input (sessions: sometimes one key tapped early in that wait, the full wait follows it); the reload key itself is held for that long in a tenth of the other successful single-episode cases with one request and in half of the session episodes (first and later ones) that hold it for more than a second; bound = 1000 + the longest duration the configuration that is active at the request names (any number in an action, virtual key, defcfg or defzippy option; 1000 for a leader key without written sequence-timeout, 500 for defzippy) + 100. PROGRESS CLAUSE, judged for every episode of every successful case: between the request and the first application there is no run of more than `bound` consecutive loop iterations without input event, without output, without an OS key down and with nothing physically held except reload keys and the scenario's mouse-button / arbitrary-code key. FAILED-FIRST SESSIONS (the indices above the sessions; 240 quick / 3600 thorough): a session of 2-3 episodes as above, but when the first request is made the file it selects holds a broken text: a copy of that file's specification (half of them with other first-layer actions; in the cases that have the key-name dimension - here 3 of 4 - with a deflocalkeys block of its own 4 of 5 times) with a semantic error (3 of 4) or a syntax error. The request must fail (no ConfigFileReload); the file is repaired before the second request (its valid text), which is lrld-num or lrld-file, made from idle or after random typing on the old configuration; that reload and every later one are judged like every episode of a session (fresh instance of the installed file on the same continuation, probe piece included). KEY NAMES (stream of its own, half of all cases, single-episode, failed-reload and sessions alike): three names of the case are drawn from - = [ ] ; ' , . / + 0 9; the pair (old configuration, file of the first request) is block->none (8 of 20), none->block (3), block->other-block (5), block->same-block (2), none->none (2), every other file has a block or not with equal odds; a block maps each name of the case (3 of 4) and each of four names of its own (1 of 4) to one of 15 physical keys that nothing else in the case uses; a third of the configurations also carry 0-4 blocks for the other platforms with other numbers; blocks stand before defcfg or (1 of 3) at the end of the file; each configuration appends to defsrc the names (3 of 4 each, at least one, pairwise different physical keys under its own table) and gives each on the first layer a name (3 of 5) or a letter; 4 of 5 mixed continuations get the probe piece (every physical key any configuration of the case can mean by a name: press, 2-25 ticks, a quarter with a Repeat, a fifth overlapping with the next key, release) first or before the final wait. Non-trivial = case in which the request was made on an accepted old configuration; distinct = (outcome, scenario, request kinds, fault kind, number of files, number of reloads applied), for sessions (failed-first or not; per episode: scenario, request kind, reload key held > 1 s; kind of typing between).".into()
    }
    fn assumptions(&self) -> Vec<String> {
        vec![
            "time is driven through the kanata_verif hooks: one virtual ms = one loop iteration = can_block_update_idle_waiting(1) + (in loop-order delivery: handle_input_event of the key event this iteration receives) + rewind last_tick by 1.3 ms + the real handle_time_ticks; a case in which handle_time_ticks reports anything but 1 ms is repeated (inconclusive after 5 attempts)".into(),
            "loop-order delivery models every key event as one iteration that accounts for exactly 1 ms (the blocking branch of the loop rewinds last_tick by 1 ms after recv; the polling branch has slept 1 ms); the driver iterates every millisecond whether or not kanata would block. Virtual keys operated by name (TCP server thread) are always queued between two iterations".into(),
            "'no output key is down' is judged on the OS model at the end of the iteration that sent ConfigFileReload; 'one idle second' as more than 1000 ms between the last input event (the start of the iteration that received it / the point at which it was queued) or output (the start of the iteration that produced it) and the start of the applying iteration, i.e. at least 1000 whole iterations without input or output in between (the previous version of this check stamped an output with the end of its iteration, which made a reload applied exactly 1000 quiet iterations after an output - what the unchanged tree does when a key typed during the idle second produces its last output one iteration after its last input - a boundary false alarm); an application in the very iteration that receives a key event has idle time 0".into(),
            "the idle point after a reload is: request decided, is_idle, no pending on-idle action, OS model all-up, 40 silent ticks; a continuation contains no reload requests, the next request of a session comes after it".into(),
            "sessions: one request per episode (which of two back-to-back requests wins is not decided by the statement and the later episodes must know the active file); all files valid and unchanged after the first request; no dynamic-macro keys (a macro recorded under one file would be replayed under the next; recorded macros are kept across reloads on purpose); the state the typing between two requests leaves behind (switched layer, caps-word, ...) is part of the next episode's pre-state, which is arbitrary anyway".into(),
            "a key that is tapped while a request is (expected to be) pending but is in fact typed after the reload was applied (the reload was not deferred because no OS key was down, e.g. an override had released it) was typed on the new file: that episode's output-after-reload and fresh-instance comparisons are skipped (counter episodes_with_key_typed_after_the_application:*), everything else is judged".into(),
            "kanata's own idle counter (pub field ticks_since_idle) is read right after an application only to count which reloads went through the one-idle-second fallback (floors); no oracle uses it".into(),
            "OS key repeats are injected only into continuations (after the idle point that follows a reload, and after a failed reload in both twins), never before or while a request is pending: a Repeat event is an input event, so a key that the OS keeps repeating never lets the one-idle-second fallback start, and the statement does not say whether that is intended. Which key a repeat is forwarded as is not modelled (that is C14); reloaded and fresh instance must agree. Repeat events are also sent for keys that are not the one pressed last and shortly after a release (an OS does not do the former, the latter happens with a queue between OS and kanata); both instances see the same events. The layer that is active when a Repeat arrives is read from the fresh instance (layout.current_layer) only for the evidence counters".into(),
            "progress clause: 'after one idle second' is judged only for runs of loop iterations in which no input event arrives, kanata writes nothing, the OS model has no key down (mouse buttons and arbitrary key codes may be down) and every physically held key is a reload key or the key of the scenario's silent custom action (mouse button, arbitrary-code). Whether a held output key, or a physically held key whose output kanata swallows (hidden sequence input, zippychord, an unmod key while defzippy tracks its output), still counts as idle is not decided by the statement, and the unchanged tree says it does not (the reload then waits for the release): such runs are not judged. Held wheel / movement keys keep producing output and are never idle. The bound is 1000 iterations plus the longest duration the active configuration names plus 100: kanata counts idle iterations only once its own timers (pending tap-hold / tap-dance, caps-word, hold-for-duration, a started sequence, zippychord deadlines) have run out, and none of them is longer than the longest duration written in the configuration (documented defaults: sequence-timeout 1000, zippychord 500). The durations are read from the generated specification, not from kanata".into(),
            "the driver runs can_block_update_idle_waiting + handle_time_ticks every virtual millisecond whether or not kanata would block; while a request is pending kanata never blocks (it counts idle iterations), so the iterations of a pending request are exactly the ones the real loop makes".into(),
            "key names: a freshly started kanata is a new process, whose key-name table is the default one; the harness runs many instances per process, so before every instance that stands for a start-up (the run itself, the no-request twin, the fresh instances) the table is reset through kanata_parser::keys::replace_custom_str_oscode_mapping with an empty map (public API; yields the defaults). The reload itself is never helped in this way. Fresh instances are built only after the run with the reload has finished. What a name means is never predicted for the oracle (reloaded vs fresh instance of the real code); the small model in c15_lk.rs (block entry, else the code the guide gives the name) only keeps generated files acceptable (no physical key twice in defsrc) and feeds the evidence counters and the signature split. Names that the rest of the generator or the harness' own history rendering uses (letters, 1-8, modifiers) are never redefined. A broken file is parsed up to its error, so its deflocalkeys block may already have rewritten the table when the reload fails: single-episode failed reloads of such files are compared with the no-request twin, failed-first sessions follow them with a successful reload that is compared with a fresh instance".into(),
            "failed-first sessions: the first request selects a file that holds a broken text (another specification than the file's valid one, with a semantic error - unknown alias, bad tap-hold, layer of the wrong length, unknown layer - or a syntax error); it must not be applied (no ConfigFileReload). What the old configuration does after the failure is judged by the single-episode failed-reload cases, not here (a session has no no-request twin): nothing is typed until the next request except that request's own pre-state. The file is then repaired (its valid text is written) and the second request names its file absolutely (lrld-num / lrld-file): kanata moves its file index when a relative request is made, whether or not the reload then succeeds, and the statement does not say which file a relative request selects after a failed one. From there on the session is judged like any other; the second episode's bound of the progress clause comes from the old configuration, which is still the active one".into(),
            "lrld-num is only generated with a number that names an existing file (the guide does not say what an out-of-range number does)".into(),
            "recorded dynamic macros and clipboard slots are kept across reloads on purpose and are not exercised".into(),
            "what the continuation reaches of a feature that differs between old and new file is reported by the evidence counters (zippy_pair:*, old_chord_typed_after_reload_*, sequence_typed_after_reload_*, virtual_key_operated_after_reload_*, reload_changes_option:*); chords, sequences and dictionaries of the old configuration are written in the letters the reloaded file types, so a table that survives the reload shows in the comparison with the fresh instance".into(),
            "a zippychord dictionary file that does not exist is read as an empty dictionary (like a missing include), so only malformed dictionaries count as a fault".into(),
            "dynamic-macro keys exist only in new files (nothing recorded before the reload can be replayed after it)".into(),
            "not observable through this driver and not varied: include files, device-related options, allow-hardware-repeat and MAPPED_KEYS (read by the OS event loop, not by the state machine), linux-x11-repeat-delay-rate (runs xset), switch key-timing's effect on blocking (the driver ticks every millisecond whether or not kanata would block), log-layer-changes".into(),
        ]
    }
    fn floors(&self, _ctx: &Ctx) -> Vec<(&'static str, u64)> {
        vec![
            ("failed_reload_cases", 200),
            ("failed_reload_cases_with_continuation", 150),
            ("successful_reload_cases", 200),
            ("reached_idle_point_after_reload", 120),
            ("continuations_with_output", 100),
            ("notification_pairs_checked", 200),
            ("fault:syntax-error", 20),
            ("fault:semantic-error", 20),
            ("fault:missing-file", 20),
            ("fault:directory", 20),
            ("fault:non-utf8", 20),
            ("deferral_2_50", 10),
            ("deferral_51_600", 10),
            ("applied_by_1000_tick_fallback", 1),
            ("back_to_back_requests", 30),
            // key-event delivery, sessions, the ways a reload gets applied
            ("cases_with_key_events_in_loop_order", 600),
            ("cases_with_key_events_queued_between_ticks", 600),
            ("sessions", 400),
            ("session_episodes_planned:2", 100),
            ("session_episodes_planned:3", 100),
            ("session_later_episodes", 500),
            ("session_later_episodes_reached_idle_point", 450),
            ("session_later_continuations_with_output", 300),
            ("session_later_requests_with_output_key_down", 200),
            ("session_later_reloads_deferred_while_keys_held", 250),
            ("session_later_reloads_applied_by_one_idle_second_fallback", 15),
            ("session_typing_before_later_request:none", 60),
            ("session_typing_before_later_request:plain-keys-only", 120),
            ("session_typing_before_later_request:mixed", 120),
            ("reloads_applied_by_one_idle_second_fallback", 60),
            ("requests_with_reload_key_held_over_1s", 200),
            ("requests_with_key_typed_while_pending", 80),
            ("fallback_reloads_with_key_typed_during_the_idle_second", 2),
            ("session_later_requests_after_fallback_reload_and_plain_typing", 15),
            ("session_later_requests_with_output_key_down_after_fallback_reload_and_plain_typing_in_loop_order", 5),
            ("request:lrld-next", 50),
            ("request:lrld-prev", 50),
            ("request:lrld-num", 50),
            ("request:lrld-file", 50),
            // state outside the layout differs between the old configuration and the reloaded file
            // and the continuation reaches it
            ("fault:broken-zippy-dictionary", 20),
            ("failed_reload_cases_with_defzippy_in_old_config", 150),
            ("zippy_pair:defzippy->none", 60),
            ("zippy_pair:defzippy->other-dictionary", 50),
            ("zippy_pair:defzippy->same-dictionary-file-edited", 10),
            ("zippy_pair:none->defzippy", 40),
            ("old_chord_typed_after_reload_into_file_without_defzippy", 40),
            ("old_chord_typed_after_reload_into_file_with_other_defzippy", 40),
            ("new_chord_typed_after_reload_from_file_without_defzippy", 30),
            ("continuations_with_zippy_expansion_in_new_file", 50),
            ("sequence_typed_after_reload_that_changed_the_sequence_table", 40),
            ("virtual_key_operated_after_reload_that_changed_the_virtual_keys", 60),
            ("continuation:dynamic_macro_record_and_replay", 40),
            ("continuation:mouse_movement_keys_held", 15),
            ("continuation:sequence_typed_with_lsft_held", 15),
            ("continuation:two_accelerated_movement_keys_staggered", 20),
            ("reload_changes_option:sequence-timeout", 40),
            ("reload_changes_option:sequence-input-mode", 40),
            ("reload_changes_option:sequence-backtrack-modcancel", 40),
            ("reload_changes_option:sequence-always-on", 40),
            ("reload_changes_option:movemouse-smooth-diagonals", 40),
            ("reload_changes_option:movemouse-inherit-accel-state", 40),
            ("reload_changes_option:dynamic-macro-max-presses", 40),
            ("reload_changes_option:dynamic-macro-replay-delay-behaviour", 40),
            // the one-idle-second fallback while a silent custom action stays held beyond the bound
            // of the progress clause
            ("progress:reloads_that_had_to_come_while_a_custom_action_stays_held", 120),
            ("progress:reloads_that_had_to_come_while_held:mouse-button", 15),
            ("progress:reloads_that_had_to_come_while_held:arbitrary-code", 5),
            ("progress:reloads_that_had_to_come_while_held:reload-key", 80),
            ("progress:session_later_reloads_that_had_to_come_while_the_reload_key_stays_held", 20),
            ("progress:reloads_that_had_to_come_with_mouse_button_down", 15),
            ("progress:reloads_that_had_to_come_with_key_code_down", 5),
            // OS key repeats after a reload; files with different numbers of layers
            ("os_repeat_events_in_continuations", 6000),
            ("os_repeats_forwarded_by_fresh_instance", 4000),
            ("os_repeats_forwarded_for_key_mapped_differently_before_the_reload", 3000),
            ("os_repeats_forwarded_with_non_first_layer_active", 900),
            ("os_repeats_with_a_layer_active_that_the_previous_configuration_does_not_have", 300),
            ("continuation:directed_os_repeat_pieces", 500),
            ("continuations_with_forwarded_os_repeat", 700),
            ("session_later_continuations_with_forwarded_os_repeat", 250),
            ("reload_into_file_with_more_layers", 400),
            ("reload_into_file_with_fewer_layers", 200),
            ("failed_reload:forwarded_os_repeats_compared_with_no_request_twin", 1500),
            // key names: deflocalkeys blocks differ between the configuration before the reload and
            // the reloaded file, the reloaded file uses the names, the continuation taps the keys
            ("localkeys_pair:block->none", 200),
            ("localkeys_pair:none->block", 90),
            ("localkeys_pair:block->other-block", 140),
            ("localkeys_pair:block->same-block", 100),
            ("localkeys_pair:none->none", 120),
            ("localkeys_pair_in_later_episode:block->none", 10),
            ("localkeys:reloads_that_change_the_meaning_of_a_name_the_new_file_uses", 400),
            ("localkeys:name_redefined_by_previous_file_used_by_new_file_without_block", 180),
            ("localkeys:name_redefined_by_previous_file_used_but_not_defined_by_new_block", 40),
            ("localkeys:such_reloads_followed_by_probe_of_every_key_a_name_can_mean", 250),
            ("localkeys:probe_taps_compared_with_fresh", 2500),
            ("localkeys:reloaded_file_has_blocks_for_other_platforms", 150),
            ("localkeys:failed_reload_of_broken_file_with_deflocalkeys_block", 70),
            // sessions whose first request fails; the file is repaired, the next reload must equal
            // a fresh instance
            ("failed_first_sessions", 200),
            ("failed_first_sessions:fault:semantic-error", 120),
            ("failed_first_sessions:fault:syntax-error", 25),
            ("failed_first_sessions:successful_reload_after_the_failed_one_compared_with_fresh", 150),
            ("failed_first_sessions:broken_file_has_deflocalkeys_block_and_fails_after_it", 60),
            ("failed_first_sessions:broken_file_had_deflocalkeys_block_then_file_without_block_reloaded", 20),
        ]
    }
    fn watchdog_s(&self, _ctx: &Ctx) -> u64 {
        60
    }
}
