//! C10 — switch and fork conditions evaluate exactly as written in the configuration.
//!
//! Oracle: a recursive evaluator over the generator's own expression tree (c10_model.rs), written
//! from the configuration guide. Observation point 1 (direct): the configuration text is parsed by
//! the real parser, the produced `Action::Switch` is fetched from the layout and the public
//! `Switch::actions` iterator is called with arbitrary assignments. Observation point 2
//! (end-to-end): a real `Kanata` is driven into a state through `Sim` and the witness keys that
//! come out at the OS are read (c10_e2e.rs).
//!
//! Age dimension of the end-to-end point: the ages that `key-timing` compares are u16 tick
//! counters kept by the layout's history; "typed at least that long ago" has to stay true however
//! long ago it was (an entry older than 65535 ticks compares as 65535). Two families let history
//! entries really get that old through the stepper (real ticks, no hand-made `HistoricalEvent`s):
//! a systematic, seed-independent one (c10_age.rs: every recency 1..=8 x newer entries typed
//! before / after the long gap x ages around 2^15, the top compression edge, 65530..=65545 tick by
//! tick, 2^16 + small thresholds, 70000 .. 3*2^16 x threshold triples on both sides of
//! age mod 2^16 x lt/gt, plus key-history / input-history leaves on the same old entries), and a
//! random one (c10_e2e.rs, `long`): the ordinary random scenarios (held keys, virtual keys,
//! layers, all leaf kinds) with one or two gaps anywhere in the history replaced by a gap longer
//! than the counter range, aimed at 65536*k + q(t) - 1 / + 0 / + 1 of a timing leaf.
//!
//! Late-evaluation dimension of the end-to-end point (c10_late.rs): the switch is evaluated while
//! presses have arrived that kanata has not processed yet or never processes through the normal
//! path - as the tap / hold action of a tap-hold (plain, -press, -release; by release, timeout,
//! another key's press, another key's press + release) with keys pressed during the undecided
//! period, as the action of a tap-dance ended by another key, as the action of a v1 chord
//! (defchords, 2 and 3 members) or a v2 chord (defchordsv2), as a plain key after a chord was
//! typed earlier, after a held-back v2 chord participant, and inside a burst of events that arrive
//! without a tick in between. `input-history` is judged against the ARRIVAL order of the press
//! events of the history (real and virtual inputs), `input` / bare keys / layer items only name
//! things that are settled at that moment.
//!
//! Macro-held-key dimension (c10_macro.rs): key tests of fork and of switch (bare key names) while
//! one or two running macros hold modifiers through output-chord-prefixed groups, with the same
//! modifiers optionally also held by a physical key / multi / virtual key; the fork key, the key of
//! the switch equivalent to the fork tree and the key of a switch with random and/or/not key
//! expressions are pressed (each in a fresh kanata) next to the OS-visible edges of the macro, in
//! the middle of holds and after the macros ended. A key is active iff it is down in the OS model
//! when the probe key arrives; fork, equivalent switch and model must agree.
//!
//! Action-kind dimension of the input tests (c10_inp.rs): `(input real K)` / `(input virtual V)` is
//! true iff K / V is currently pressed - whatever K or V does. Five physical and three virtual
//! subject keys get an action of one of 22 kinds (key code; mouse button / wheel / movement,
//! caps-word, arbitrary-code, unicode, on-press / on-release / on-idle / hold-for-duration
//! virtual-key actions, unmod / unshift, multi of customs, press-and-release driver of a subject
//! virtual key - i.e. actions that are ONLY custom actions; multi of key + custom;
//! layer-while-held / layer-toggle; macro-repeat; tap-hold / tap-hold-press / tap-hold-release /
//! tap-dance / fork / switch ending in a custom action; XX, layer-switch, macro, output chord), are
//! pressed, released and tapped (virtual keys by press / release / tap operations and through
//! driver keys), and two switches are evaluated in that state, each on a physical or on a virtual
//! key, possibly while a tap-hold / tap-dance of a subject is still undecided: one with one
//! single-leaf case per subject (reads kanata's value of every leaf; a wrong leaf is reported with
//! the input type and the action kind of the key in the signature) and one with and / or / not over
//! the same leaves (plus input-history leaves aimed at the true slot where the press events are
//! exactly the written history).

#[path = "c10_model.rs"]
mod model;
#[path = "c10_e2e.rs"]
mod e2e;
#[path = "c10_age.rs"]
mod age;
#[path = "c10_late.rs"]
mod late;
#[path = "c10_macro.rs"]
mod mac;
#[path = "c10_inp.rs"]
mod inp;

use crate::core::rng::Rng;
use crate::core::{CaseOut, Check, Ctx};
use kanata_keyberon::action::{Action, BreakOrFallthrough, Switch};
use kanata_keyberon::key_code::KeyCode;
use kanata_keyberon::layout::HistoricalEvent;
use kanata_parser::keys::OsCode;
use model::*;
use serde_json::{json, Value};

pub struct C10Check;
pub static C10: C10Check = C10Check;

/// witness keys (never used as state keys)
pub(crate) const WITNESS: &[&str] = &[
    "f13", "f14", "f15", "f16", "f17", "f18", "f19", "f20", "f21", "f22", "f23", "f24", "kp0", "kp1", "kp2", "kp3", "kp4", "kp5",
    "kp6", "kp7", "kp8", "kp9", "f1", "f2", "f3", "f4", "f5", "f6", "f7", "f8", "f9", "f10", "f11", "f12",
];

fn osc_of(name: &str) -> u16 {
    crate::core::sim::osc(name)
}

/// universe of the direct observation point
fn direct_universe() -> U {
    let mut keys: Vec<(String, u16)> =
        ["a", "b", "c", "d", "1", "lsft", "rctl", "spc", "nop3", "esc", "break", "ralt"].iter().map(|n| (n.to_string(), osc_of(n))).collect();
    // names defined with deflocalkeys-linux: high codes next to the opcode space boundaries
    keys.push(("k700".into(), 700));
    keys.push(("k744".into(), 744));
    keys.push(("k512".into(), 512));
    U {
        keys,
        vkeys: (0..6).map(|i| format!("vk{i}")).collect(),
        layers: (0..4).map(|i| format!("l{i}")).collect(),
    }
}

const DIRECT_CELLS: &[&str] = &["q", "w", "e", "r", "t"];

/// config text with one switch per cell of DIRECT_CELLS (as many as given)
fn direct_config(u: &U, switches: &[Vec<(Vec<E>, bool)>]) -> String {
    let mut s = String::new();
    s.push_str("(deflocalkeys-linux k700 700 k744 744 k512 512)\n(defcfg process-unmapped-keys yes)\n(defvirtualkeys");
    for v in &u.vkeys {
        s.push_str(&format!(" {v} XX"));
    }
    s.push_str(")\n(defsrc");
    for c in DIRECT_CELLS.iter().take(switches.len()) {
        s.push(' ');
        s.push_str(c);
    }
    s.push_str(")\n(deflayer l0");
    for i in 0..switches.len() {
        s.push_str(&format!(" @sw{i}"));
    }
    s.push_str(")\n");
    for l in u.layers.iter().skip(1) {
        s.push_str(&format!("(deflayer {l}"));
        for _ in 0..switches.len() {
            s.push_str(" _");
        }
        s.push_str(")\n");
    }
    s.push_str("(defalias\n");
    for (i, sw) in switches.iter().enumerate() {
        s.push_str(&format!(" sw{i} (switch\n"));
        for (ci, (items, brk)) in sw.iter().enumerate() {
            s.push_str("  ");
            s.push_str(&render_top(items, u));
            s.push(' ');
            s.push_str(WITNESS[ci % WITNESS.len()]);
            s.push_str(if *brk { " break\n" } else { " fallthrough\n" });
        }
        s.push_str(" )\n");
    }
    s.push_str(")\n");
    s
}

fn kc(code: u16) -> Option<KeyCode> {
    OsCode::from_u16(code).map(KeyCode::from)
}

/// real evaluation: addresses of the actions that `Switch::actions` yields
fn real_fire<'a, T>(sw: &Switch<'a, T>, st: &St) -> Vec<*const Action<'a, T>> {
    let ak: Vec<KeyCode> = st.active.iter().filter_map(|c| kc(*c)).collect();
    let hk: Vec<HistoricalEvent<KeyCode>> =
        st.hk.iter().filter_map(|(c, a)| kc(*c).map(|k| HistoricalEvent { event: k, ticks_since_occurrence: *a })).collect();
    let hi: Vec<HistoricalEvent<(u8, u16)>> = st.hi.iter().map(|(c, a)| HistoricalEvent { event: *c, ticks_since_occurrence: *a }).collect();
    sw.actions(ak.iter().copied(), st.coords.iter().copied(), hk.iter().copied(), hi.iter().copied(), st.layers.iter().copied(), st.base)
        .map(|a| a as *const _)
        .collect()
}

/// map yielded action addresses to case indices (cases are yielded in increasing index order)
fn to_indices<'a, T>(sw: &Switch<'a, T>, fired: &[*const Action<'a, T>]) -> Option<Vec<usize>> {
    let mut out = vec![];
    let mut from = 0usize;
    for p in fired {
        let mut found = None;
        for j in from..sw.cases.len() {
            if std::ptr::eq(sw.cases[j].1 as *const _, *p) {
                found = Some(j);
                break;
            }
        }
        let j = found?;
        out.push(j);
        from = j + 1;
    }
    Some(out)
}

/// truth value of a single case, evaluated in isolation through a one-case `Switch`
fn real_case_truth<'a, T>(sw: &Switch<'a, T>, i: usize, st: &St) -> bool {
    let one = Switch { cases: &sw.cases[i..i + 1] };
    !real_fire(&one, st).is_empty()
}

struct Parsed {
    cfg: kanata_parser::cfg::Cfg,
    vk_idx: Vec<u16>,
}

fn parse_direct(text: &str, u: &U) -> Result<Parsed, String> {
    let cfg = kanata_parser::cfg::new_from_str(text, Default::default()).map_err(|e| format!("{e:?}"))?;
    let mut vk_idx = vec![];
    for v in &u.vkeys {
        match cfg.fake_keys.get(v) {
            Some(i) => vk_idx.push(*i as u16),
            None => return Err(format!("virtual key {v} missing from Cfg.fake_keys")),
        }
    }
    Ok(Parsed { cfg, vk_idx })
}

fn st_json(st: &St) -> Value {
    json!({
        "active_key_codes": st.active, "active_coords": st.coords,
        "key_history(code,age) most recent first": st.hk, "input_history(coord,age)": st.hi,
        "layers(first=active)": st.layers, "base_layer": st.base,
    })
}

/// does the real code still disagree with the model on this single case?
fn single_mismatch(u: &U, items: &[E], st: &St) -> bool {
    let text = direct_config(u, &[vec![(items.to_vec(), true)]]);
    let Ok(p) = parse_direct(&text, u) else { return false };
    let l = p.cfg.layout.b();
    let Action::Switch(sw) = &l.layers[0][0][osc_of(DIRECT_CELLS[0]) as usize] else { return false };
    let real = !real_fire(sw, st).is_empty();
    real != eval_top(items, u, &p.vk_idx, st)
}

fn shrink_candidates(e: &E) -> Vec<E> {
    let mut out = vec![];
    if let E::Or(v) | E::And(v) | E::Not(v) = e {
        // replace by an operand
        for x in v {
            out.push(x.clone());
        }
        let mk = |nv: Vec<E>| match e {
            E::Or(_) => E::Or(nv),
            E::And(_) => E::And(nv),
            _ => E::Not(nv),
        };
        // drop an operand
        if v.len() > 1 {
            for i in 0..v.len() {
                let mut nv = v.clone();
                nv.remove(i);
                out.push(mk(nv));
            }
        }
        // shrink inside an operand
        for i in 0..v.len() {
            for c in shrink_candidates(&v[i]) {
                let mut nv = v.clone();
                nv[i] = c;
                out.push(mk(nv));
            }
        }
    }
    out
}

fn shrink(u: &U, items: &[E], st: &St) -> Vec<E> {
    let mut cur = items.to_vec();
    let mut budget = 300;
    'outer: loop {
        let mut cands: Vec<Vec<E>> = vec![];
        if cur.len() > 1 {
            for i in 0..cur.len() {
                let mut n = cur.clone();
                n.remove(i);
                cands.push(n);
            }
        }
        for i in 0..cur.len() {
            for c in shrink_candidates(&cur[i]) {
                let mut n = cur.clone();
                n[i] = c;
                cands.push(n);
            }
        }
        cands.sort_by_key(|c| c.iter().map(size).sum::<usize>());
        for c in cands {
            if budget == 0 {
                break 'outer;
            }
            budget -= 1;
            if single_mismatch(u, &c, st) {
                cur = c;
                continue 'outer;
            }
        }
        break;
    }
    cur
}

/// Judge one parsed configuration: every switch x every state.
fn judge_direct(out: &mut CaseOut, u: &U, text: &str, switches: &[Vec<(Vec<E>, bool)>], states: &[Vec<St>], part: &str) {
    let p = match parse_direct(text, u) {
        Ok(p) => p,
        Err(e) => {
            out.violate(
                "C10:rejected-valid-switch",
                format!("the parser rejected a switch that is valid by the guide: {}", e.lines().next().unwrap_or("")),
                json!({"config": text, "history": "(direct evaluation, no history)", "observed": e, "expected": "accepted"}),
            );
            return;
        }
    };
    out.inc("configs_parsed");
    let l = p.cfg.layout.b();
    for (si, cases) in switches.iter().enumerate() {
        let coord = osc_of(DIRECT_CELLS[si]) as usize;
        let Action::Switch(sw) = &l.layers[0][0][coord] else {
            out.violate(
                "C10:no-switch-action",
                "the layer cell written as a switch does not hold Action::Switch",
                json!({"config": text, "history": "", "observed": format!("{:?}", l.layers[0][0][coord]), "expected": "Action::Switch"}),
            );
            continue;
        };
        if sw.cases.len() != cases.len() {
            out.violate(
                "C10:case-count",
                "number of parsed cases differs from the number written",
                json!({"config": text, "history": "", "observed": sw.cases.len(), "expected": cases.len()}),
            );
            continue;
        }
        for (ci, c) in cases.iter().enumerate() {
            let want = if c.1 { BreakOrFallthrough::Break } else { BreakOrFallthrough::Fallthrough };
            if sw.cases[ci].2 != want {
                out.violate(
                    "C10:break-fallthrough-flag",
                    "break/fallthrough of a parsed case differs from what was written",
                    json!({"config": text, "history": "", "observed": format!("{:?}", sw.cases[ci].2), "expected": format!("{want:?}"), "case": ci}),
                );
            }
        }
        out.count("switches", 1);
        out.count("cases", cases.len() as u64);
        let mut reported = false;
        for st in &states[si] {
            let expected = firing(cases, u, &p.vk_idx, st);
            let fired = real_fire(sw, st);
            let observed = to_indices(sw, &fired);
            out.count("evaluations_sequence", 1);
            out.count("evaluations_case", cases.len() as u64);
            out.count(&format!("{part}_evaluations"), cases.len() as u64);
            out.max("firing_cases_in_one_evaluation", expected.len() as u64);
            if expected.len() > 8 {
                out.inc("direct_more_than_8_firing");
            }
            if observed.as_ref() == Some(&expected) {
                continue;
            }
            if reported {
                out.inc("further_mismatches_not_reported");
                continue;
            }
            reported = true;
            // locate a single case whose truth value differs
            let mut bad_case = None;
            for ci in 0..cases.len() {
                let m = eval_top(&cases[ci].0, u, &p.vk_idx, st);
                if real_case_truth(sw, ci, st) != m {
                    bad_case = Some((ci, m));
                    break;
                }
            }
            match bad_case {
                Some((ci, m)) => {
                    let small = shrink(u, &cases[ci].0, st);
                    let small_still = single_mismatch(u, &small, st);
                    let shown = if small_still { small.clone() } else { cases[ci].0.clone() };
                    out.violate(
                        format!("C10:direct:truth-mismatch:{}", skeleton_top(&shown)),
                        format!("switch case {} evaluates to {} but is {} as written", render_top(&shown, u), !m, m),
                        json!({
                            "config": direct_config(u, &[vec![(shown.clone(), true)]]),
                            "history": "(direct call of Switch::actions with the state below)",
                            "state": st_json(st), "observed": !m, "expected": m,
                            "original_case": render_top(&cases[ci].0, u), "original_config": text,
                            "key_codes": u.keys, "virtual_key_indices": p.vk_idx,
                        }),
                    );
                }
                None => {
                    out.violate(
                        "C10:direct:sequence",
                        "every case evaluates as written in isolation, but the sequence of firing cases differs (break/fallthrough)",
                        json!({
                            "config": text, "history": "(direct call of Switch::actions with the state below)", "switch_index": si,
                            "state": st_json(st), "observed": observed, "expected": expected,
                            "break_flags": cases.iter().map(|c| c.1).collect::<Vec<_>>(),
                        }),
                    );
                }
            }
        }
    }
}

// ------------------------------------------------------------------ exhaustive families

const CHUNK: u64 = 400;
const SWITCHES_PER_CASE: u64 = 5;

#[derive(Clone, Copy, Debug, PartialEq)]
enum Fam {
    /// leaves a, b, c (one-word opcodes)
    A,
    /// leaves (input real a), (input-history virtual vk1 2), (base-layer l1) (two-word opcodes)
    B,
    /// leaves a, (layer l1), (key-timing 2 gt 2304)
    C,
}

fn fam_max_size(f: Fam, ctx: &Ctx) -> usize {
    match f {
        Fam::A => ctx.tier.sel(7, 8),
        Fam::B => ctx.tier.sel(6, 7),
        Fam::C => ctx.tier.sel(6, 7),
    }
}

fn fam_leaves(f: Fam) -> [E; 3] {
    match f {
        Fam::A => [E::Key(0), E::Key(1), E::Key(2)],
        Fam::B => [E::Input(Inp::Real(0)), E::InputHist(Inp::Virt(1), 2), E::BaseLayer(1)],
        Fam::C => [E::Key(0), E::Layer(1), E::Timing(2, false, 2304)],
    }
}

/// the 8 assignments of a family: bit i = leaf i true
fn fam_state(f: Fam, bits: u8, u: &U, vk_idx: &[u16]) -> St {
    let b = |i: u8| bits & (1 << i) != 0;
    let mut st = St { layers: vec![0], ..Default::default() };
    match f {
        Fam::A => {
            for i in 0..3 {
                if b(i) {
                    st.active.push(u.keys[i as usize].1);
                }
            }
            // noise that must not matter
            st.active.push(u.keys[5].1);
            st.coords.push((0, u.keys[0].1));
        }
        Fam::B => {
            if b(0) {
                st.coords.push((0, u.keys[0].1));
            }
            st.coords.push((1, vk_idx[0]));
            st.hi.push(((0, u.keys[0].1), 3));
            st.hi.push((if b(1) { (1, vk_idx[1]) } else { (0, vk_idx[1]) }, 9));
            st.base = if b(2) { 1 } else { 2 };
            st.active.push(u.keys[0].1);
        }
        Fam::C => {
            if b(0) {
                st.active.push(u.keys[0].1);
            }
            st.layers = if b(1) { vec![1, 0] } else { vec![2, 1, 0] };
            st.hk.push((u.keys[1].1, 5));
            // q(2304) = 2303: "gt" is true from age 2304 on
            st.hk.push((u.keys[2].1, if b(2) { 2304 } else { 2303 }));
        }
    }
    st
}

struct ExhLayout {
    /// (family, size, number of chunks)
    blocks: Vec<(Fam, usize, u64)>,
    cases: u64,
}

fn exh_layout(ctx: &Ctx) -> ExhLayout {
    let c = counts(8);
    let mut blocks = vec![];
    let mut chunks = 0u64;
    for f in [Fam::A, Fam::B, Fam::C] {
        for m in 1..=fam_max_size(f, ctx) {
            let n = (c.f[m] + CHUNK - 1) / CHUNK;
            blocks.push((f, m, n));
            chunks += n;
        }
    }
    ExhLayout { blocks, cases: (chunks + SWITCHES_PER_CASE - 1) / SWITCHES_PER_CASE }
}

/// chunk number -> (family, size, first rank)
fn chunk_at(lay: &ExhLayout, mut ch: u64) -> Option<(Fam, usize, u64)> {
    for (f, m, n) in &lay.blocks {
        if ch < *n {
            return Some((*f, *m, ch * CHUNK));
        }
        ch -= n;
    }
    None
}

fn run_exhaustive(out: &mut CaseOut, ctx: &Ctx, idx: u64) {
    let lay = exh_layout(ctx);
    let c = counts(8);
    let u = direct_universe();
    // all chunks of one case must belong to one family (states are per family): group by family
    let mut groups: Vec<(Fam, Vec<Vec<(Vec<E>, bool)>>)> = vec![];
    for k in 0..SWITCHES_PER_CASE {
        let Some((f, m, r0)) = chunk_at(&lay, idx * SWITCHES_PER_CASE + k) else { break };
        let leaves = fam_leaves(f);
        let mut cases = vec![];
        let hi = (r0 + CHUNK).min(c.f[m]);
        for r in r0..hi {
            let forest = unrank_forest(m, r, &c);
            let items: Vec<E> = forest.iter().map(|s| sh_to_e(s, &leaves)).collect();
            for it in &items {
                out.max("exhaustive_depth", depth(it) as u64);
            }
            cases.push((items, false));
        }
        out.count("exhaustive_shapes", cases.len() as u64);
        out.count(&format!("exhaustive_shapes_family_{f:?}"), cases.len() as u64);
        out.tag(format!("exh:{f:?}:{m}:{r0}"));
        match groups.last_mut() {
            Some((gf, v)) if *gf == f => v.push(cases),
            _ => groups.push((f, vec![cases])),
        }
    }
    for (f, switches) in groups {
        let text = direct_config(&u, &switches);
        // the virtual key indices are needed to build the states: definition order, checked by parse_direct
        let vk_idx: Vec<u16> = match parse_direct(&text, &u) {
            Ok(p) => p.vk_idx,
            Err(_) => (0..u.vkeys.len() as u16).collect(),
        };
        let states: Vec<St> = (0..8u8).map(|b| fam_state(f, b, &u, &vk_idx)).collect();
        let per: Vec<Vec<St>> = switches.iter().map(|_| states.clone()).collect();
        judge_direct(out, &u, &text, &switches, &per, "exhaustive");
        if idx == 0 && out.sample.is_none() {
            out.sample = Some(json!({"part": "exhaustive", "family": format!("{f:?}"), "first_cases": switches[0].iter().take(6).map(|c| render_top(&c.0, &u)).collect::<Vec<_>>(), "assignments": 8}));
        }
    }
}

/// all case lists of length 1..=5 x break/fallthrough patterns x truth patterns
fn run_bf_exhaustive(out: &mut CaseOut) {
    let u = direct_universe();
    for len in 1..=5usize {
        let mut switches = vec![];
        let mut per = vec![];
        for bf in 0..(1u32 << len) {
            let cases: Vec<(Vec<E>, bool)> = (0..len).map(|i| (vec![E::Key(i)], bf & (1 << i) != 0)).collect();
            let states: Vec<St> = (0..(1u32 << len))
                .map(|t| St { active: (0..len).filter(|i| t & (1 << i) != 0).map(|i| u.keys[i].1).collect(), layers: vec![0], ..Default::default() })
                .collect();
            switches.push(cases);
            per.push(states);
            if switches.len() == DIRECT_CELLS.len() || bf + 1 == (1u32 << len) {
                let text = direct_config(&u, &switches);
                out.count("bf_patterns", switches.len() as u64);
                judge_direct(out, &u, &text, &switches, &per, "bf");
                switches.clear();
                per.clear();
            }
        }
    }
    out.tag("bf-exhaustive");
}

// ------------------------------------------------------------------ random direct part

/// a random code the OS layer knows
fn any_code(rng: &mut Rng) -> u16 {
    loop {
        let c = rng.below(749) as u16;
        if OsCode::from_u16(c).is_some() {
            return c;
        }
    }
}

fn random_state(rng: &mut Rng, u: &U, vk_idx: &[u16], ages: &[u16]) -> St {
    let mut st = St::default();
    let dens = rng.range(0, 4);
    for k in &u.keys {
        if rng.below(4) < dens {
            st.active.push(k.1);
        }
    }
    if rng.chance(1, 4) {
        st.active.push(any_code(rng));
    }
    rng.shuffle(&mut st.active);
    let dens = rng.range(0, 4);
    for k in &u.keys {
        if rng.below(4) < dens {
            st.coords.push((0, k.1));
        }
    }
    for v in vk_idx {
        if rng.below(4) < dens {
            st.coords.push((1, *v));
        }
    }
    if rng.chance(1, 4) {
        // a real coordinate numerically equal to a virtual index and vice versa
        st.coords.push((0, vk_idx[rng.usize(vk_idx.len())]));
        st.coords.push((1, u.keys[rng.usize(u.keys.len())].1));
    }
    rng.shuffle(&mut st.coords);
    let n = if rng.chance(1, 3) { 8 } else { rng.usize(9) };
    for _ in 0..n {
        let code = if rng.chance(1, 10) { any_code(rng) } else { u.keys[rng.usize(u.keys.len())].1 };
        let age = if !ages.is_empty() && rng.chance(3, 4) { *rng.pick(ages) } else { rng.below(65536) as u16 };
        st.hk.push((code, age));
    }
    let n = if rng.chance(1, 3) { 8 } else { rng.usize(9) };
    for _ in 0..n {
        let c = match rng.usize(10) {
            0 => (0, any_code(rng)),
            1..=4 => (1, vk_idx[rng.usize(vk_idx.len())]),
            _ => (0, u.keys[rng.usize(u.keys.len())].1),
        };
        st.hi.push((c, rng.below(5000) as u16));
    }
    let nl = u.layers.len() as u64;
    let n = if rng.chance(1, 20) { 0 } else { rng.range(1, 4) };
    for _ in 0..n {
        st.layers.push(rng.below(nl) as u16);
    }
    st.base = rng.below(nl) as u16;
    st
}

fn random_direct(ctx: &Ctx, r: u64) -> (U, Vec<Vec<(Vec<E>, bool)>>, Rng) {
    let mut rng = Rng::for_case(ctx.seed, "C10", "direct", r);
    let u = direct_universe();
    let style = r % 4; // 0 mixed, 1 deep, 2 two-word heavy, 3 timing heavy
    let o = GenOpts {
        max_depth: 8,
        leaf_w: match style {
            2 => [1, 1, 1, 6, 6, 6, 6],
            3 => [2, 2, 10, 1, 1, 1, 1],
            _ => [6, 3, 3, 3, 3, 2, 2],
        },
        timing_pool: EDGE_T.to_vec(),
        max_arity: if style == 1 { 3 } else { 4 },
    };
    let nsw = 3;
    let mut switches = vec![];
    for _ in 0..nsw {
        let ncases = if rng.chance(1, 4) { rng.range(9, 16) } else { rng.range(1, 8) } as usize;
        let mut cases = vec![];
        for _ in 0..ncases {
            let nitems = *rng.pick_weighted(&[(1u32, 0usize), (8, 1), (3, 2), (2, 3), (1, 5)]);
            let mut items = vec![];
            for _ in 0..nitems {
                let mut budget = *rng.pick(&[6i64, 15, 40, 120]);
                let e = if style == 1 || rng.chance(1, 5) { gen_deep(&mut rng, &u, &o, 1, &mut budget) } else { gen_expr(&mut rng, &u, &o, 1, &mut budget) };
                items.push(e);
            }
            let brk = rng.chance(1, if ncases > 8 { 8 } else { 3 });
            cases.push((items, brk));
        }
        switches.push(cases);
    }
    (u, switches, rng)
}

fn run_random_direct(out: &mut CaseOut, ctx: &Ctx, r: u64) {
    let (u, switches, mut rng) = random_direct(ctx, r);
    let text = direct_config(&u, &switches);
    let vk_idx: Vec<u16> = (0..u.vkeys.len() as u16).collect();
    let nstates = ctx.tier.sel(48, 96);
    let mut per = vec![];
    let mut kinds = [0u64; 10];
    for cases in &switches {
        let mut ts = vec![];
        for c in cases {
            for it in &c.0 {
                timings(it, &mut ts);
                leaf_kinds(it, &mut kinds);
                out.max("random_depth", depth(it) as u64);
                out.max("random_size", size(it) as u64);
                if depth(it) == 8 {
                    out.inc("random_depth8_expressions");
                }
            }
        }
        let mut ages = vec![0u16, 1, 65535];
        for (_, t) in &ts {
            let qq = q(*t);
            for d in [-1i32, 0, 1] {
                let a = qq as i32 + d;
                if (0..=65535).contains(&a) {
                    ages.push(a as u16);
                }
                let a = *t as i32 + d;
                if (0..=65535).contains(&a) {
                    ages.push(a as u16);
                }
            }
            if *t > 255 {
                out.inc("random_thresholds_in_lossy_range");
            }
        }
        let states: Vec<St> = (0..nstates).map(|_| random_state(&mut rng, &u, &vk_idx, &ages)).collect();
        per.push(states);
    }
    for (i, k) in kinds.iter().enumerate() {
        out.count(&format!("random_nodes_{}", KIND_NAMES[i]), *k);
    }
    let mut present: Vec<&str> = kinds.iter().enumerate().filter(|(_, k)| **k > 0).map(|(i, _)| KIND_NAMES[i]).collect();
    present.sort();
    out.tag(format!("rnd:{}:{}", r % 4, present.join(",")));
    judge_direct(out, &u, &text, &switches, &per, "random");
    if r % 500 == 1 {
        out.sample = Some(json!({"part": "random-direct", "config": text, "states_per_switch": nstates}));
    }
}

// ------------------------------------------------------------------ the check

fn n_random(ctx: &Ctx) -> u64 {
    ctx.tier.sel(8_000, 150_000)
}
fn n_e2e(ctx: &Ctx) -> u64 {
    ctx.tier.sel(9_000, 120_000)
}
/// random end-to-end scenarios with gaps longer than the range of the u16 age counters
fn n_e2e_long(ctx: &Ctx) -> u64 {
    ctx.tier.sel(2_000, 30_000)
}

/// end-to-end scenarios in which the switch is evaluated while presses are unprocessed (c10_late.rs)
fn n_late(ctx: &Ctx) -> u64 {
    ctx.tier.sel(6_000, 80_000)
}
/// end-to-end scenarios with keys held by running macros (c10_macro.rs); each has ~7 x 3 probes
fn n_macro(ctx: &Ctx) -> u64 {
    ctx.tier.sel(600, 8_000)
}

/// end-to-end scenarios asking (input ..) about keys of every action kind (c10_inp.rs); two probes each
fn n_inp(ctx: &Ctx) -> u64 {
    ctx.tier.sel(5_000, 60_000)
}

impl Check for C10Check {
    fn id(&self) -> &'static str {
        "C10"
    }
    fn n_cases(&self, ctx: &Ctx) -> u64 {
        exh_layout(ctx).cases + 1 + n_random(ctx) + n_e2e(ctx) + age::n_cases(ctx) + n_e2e_long(ctx) + n_late(ctx) + n_macro(ctx) + n_inp(ctx)
    }
    fn describe(&self, ctx: &Ctx, idx: u64) -> Value {
        let ne = exh_layout(ctx).cases;
        if idx < ne {
            json!({"part": "exhaustive", "case": idx})
        } else if idx == ne {
            json!({"part": "break/fallthrough exhaustive"})
        } else if idx < ne + 1 + n_random(ctx) {
            let (u, sw, _) = random_direct(ctx, idx - ne - 1);
            json!({"part": "random-direct", "config": direct_config(&u, &sw)})
        } else if idx < ne + 1 + n_random(ctx) + n_e2e(ctx) {
            e2e::describe(ctx, idx - ne - 1 - n_random(ctx))
        } else if idx < ne + 1 + n_random(ctx) + n_e2e(ctx) + age::n_cases(ctx) {
            age::describe(ctx, idx - ne - 1 - n_random(ctx) - n_e2e(ctx))
        } else if idx < ne + 1 + n_random(ctx) + n_e2e(ctx) + age::n_cases(ctx) + n_e2e_long(ctx) {
            e2e::describe_long(ctx, idx - ne - 1 - n_random(ctx) - n_e2e(ctx) - age::n_cases(ctx))
        } else if idx < ne + 1 + n_random(ctx) + n_e2e(ctx) + age::n_cases(ctx) + n_e2e_long(ctx) + n_late(ctx) {
            late::describe(ctx, idx - ne - 1 - n_random(ctx) - n_e2e(ctx) - age::n_cases(ctx) - n_e2e_long(ctx))
        } else if idx < ne + 1 + n_random(ctx) + n_e2e(ctx) + age::n_cases(ctx) + n_e2e_long(ctx) + n_late(ctx) + n_macro(ctx) {
            mac::describe(ctx, idx - ne - 1 - n_random(ctx) - n_e2e(ctx) - age::n_cases(ctx) - n_e2e_long(ctx) - n_late(ctx))
        } else {
            inp::describe(ctx, idx - ne - 1 - n_random(ctx) - n_e2e(ctx) - age::n_cases(ctx) - n_e2e_long(ctx) - n_late(ctx) - n_macro(ctx))
        }
    }
    fn run_case(&self, ctx: &Ctx, idx: u64) -> CaseOut {
        let mut out = CaseOut::new();
        let ne = exh_layout(ctx).cases;
        if idx < ne {
            run_exhaustive(&mut out, ctx, idx);
        } else if idx == ne {
            run_bf_exhaustive(&mut out);
        } else if idx < ne + 1 + n_random(ctx) {
            run_random_direct(&mut out, ctx, idx - ne - 1);
        } else if idx < ne + 1 + n_random(ctx) + n_e2e(ctx) {
            e2e::run(&mut out, ctx, idx - ne - 1 - n_random(ctx));
        } else if idx < ne + 1 + n_random(ctx) + n_e2e(ctx) + age::n_cases(ctx) {
            age::run(&mut out, ctx, idx - ne - 1 - n_random(ctx) - n_e2e(ctx));
        } else if idx < ne + 1 + n_random(ctx) + n_e2e(ctx) + age::n_cases(ctx) + n_e2e_long(ctx) {
            e2e::run_long(&mut out, ctx, idx - ne - 1 - n_random(ctx) - n_e2e(ctx) - age::n_cases(ctx));
        } else if idx < ne + 1 + n_random(ctx) + n_e2e(ctx) + age::n_cases(ctx) + n_e2e_long(ctx) + n_late(ctx) {
            late::run(&mut out, ctx, idx - ne - 1 - n_random(ctx) - n_e2e(ctx) - age::n_cases(ctx) - n_e2e_long(ctx));
        } else if idx < ne + 1 + n_random(ctx) + n_e2e(ctx) + age::n_cases(ctx) + n_e2e_long(ctx) + n_late(ctx) + n_macro(ctx) {
            mac::run(&mut out, ctx, idx - ne - 1 - n_random(ctx) - n_e2e(ctx) - age::n_cases(ctx) - n_e2e_long(ctx) - n_late(ctx));
        } else {
            inp::run(&mut out, ctx, idx - ne - 1 - n_random(ctx) - n_e2e(ctx) - age::n_cases(ctx) - n_e2e_long(ctx) - n_late(ctx) - n_macro(ctx));
        }
        out
    }
    fn rule(&self) -> String {
        "Direct part: configuration text rendered from the harness's own expression tree is parsed by the real parser; the Action::Switch found in the layout is evaluated through Switch::actions (whole case list, and every case alone through a one-case Switch) and compared with a recursive evaluator. Exhaustive and seed-independent: every list of or/and/not trees (arity >= 1) of total size <= 7 quick / 8 thorough over leaves {a,b,c}, <= 6 / 7 over three two-word leaves {(input real a),(input-history virtual vk1 2),(base-layer l1)}, <= 6 / 7 over {a,(layer l1),(key-timing 2 gt 2304)}, each under all 8 truth assignments; every break/fallthrough pattern x truth pattern of case lists up to length 5. Random: 3 switches per case with 1-16 cases, expressions up to depth 8 and ~120 nodes, all ten item kinds, two-word items at every position, thresholds on every compression edge, 48/96 random states each with history ages placed on q(t)-1, q(t), q(t)+1. End-to-end part: a real Kanata is driven through Sim into a state (held keys, released keys, virtual keys, held and switched layers, gaps placed on threshold edges), the switch or fork key is pressed and the witness keys appearing at the OS are compared with the model (up to 8 firing cases exactly; above 8 only 'no non-firing case performed'). Old-history-entry families (end-to-end, real ticks): systematic and seed-independent - recency 1..=8 x {newer entries typed after the long gap, all entries typed before it (several entries beyond the counter range at once), thorough also: an even older entry and a first long gap before the referenced key} x 38 quick / 63 thorough ages of the referenced entry (5000, 32767..32769, 65407/65408, every tick 65530..=65545, 65536+{199,200,201,1000,1001,2303,2304}, 70000, 100000, 131071..131073, 131222, 196611, 200000, ...) x 4 threshold triples {0,200,1000} {5,2303,30000} {12,65407,65534} {1,32767,65535}, each threshold as lt and as gt case plus (key-history k n), (input-history real k n+1), (key-timing 1 ..), (key-timing n+1 ..) and an and/not combination on the same history; random - 2000 quick / 30000 thorough scenarios of the ordinary end-to-end generator (timing-heavy leaves, thresholds 0..65535) in which one or two gaps anywhere in the history are longer than 65535 ticks, aimed so that the entry a key-timing leaf refers to is 65530..65545 or 65536*k + {q(t)-1, q(t), q(t)+1, 0..9, random} ticks old (k = 1..3). Violations found when a key-timing leaf refers to an entry older than 65535 ticks carry their own signature suffix. Late-evaluation family (end-to-end, 6000 quick / 80000 thorough scenarios, 14 kinds in rotation): a settled prelude (plain keys, virtual keys, layer-while-held, optionally a complete v1 chord of 2 or 3 keys) followed by an episode in which the switch is evaluated while presses are unprocessed: tap action of tap-hold / tap-hold-release (1-4 presses, releases and virtual-key presses of other keys during the undecided period, gaps 0..20 ticks, deciding release possibly in the same tick), hold action of tap-hold by timeout, of tap-hold-press by a burst of 1-3 presses, of tap-hold-release by press + release of another key, first action of a tap-dance ended by a burst of presses, action of a defchords chord of 2 (with a 3-key superset) or 3 keys in any order, action of a defchordsv2 chord, the plain switch key after an earlier chord, after a held-back defchordsv2 participant (with further presses behind it), and inside a burst of up to 8 events without a tick in between (before and behind it); after the last press only releases and time follow until the switch has acted. The switch has 1-6 random cases plus an always-true last case over (input-history real|virtual k r) items (3/4 aimed at or next to the true slot), (input ..), bare keys, layer items and and/or/not to depth 6; the reference state is the list of press events in arrival order. Macro family (end-to-end, 600 quick / 8000 thorough scenarios x up to 8 probe offsets x 3 probe keys): one or two macros (macro / macro-release-cancel) built from output-chord-prefixed groups (1-2 of S- C- A- RS- M-, nested to depth 2) around taps of x / y and delays 5..200, released early or late, optionally lsft/lctl/... also held by a plain key, a multi or a virtual key (sometimes let go while the macro runs); probes: a fork tree of depth <= 2 with 1-3 trigger keys per fork, the switch equivalent to it (one breaking case per leaf), a switch of 1-5 random cases of and/or/not over key names and (input real a|b); probe offsets: 3 within -3..+2 ticks of an OS-visible edge of the macro, up to 3 inside holds, one random, one after the macros ended; every probe runs in a fresh kanata, a dry run without probe supplies the edges. Action-kind family of the input tests (end-to-end, 5000 quick / 60000 thorough scenarios, two probes each): 5 physical + 3 virtual subject keys whose actions are drawn from 22 kinds (key code; mouse button incl. tap variants, mouse wheel, mouse movement / speed, caps-word / caps-word-toggle, arbitrary-code, unicode, on-press / on-release / on-idle / on-idle-fakekey / hold-for-duration virtual-key actions, unmod / unshift, multi of two custom actions, a key that presses a subject virtual key while held; multi of key code + custom; layer-while-held / layer-toggle; macro-repeat; tap-hold / tap-hold-press / tap-hold-release / tap-dance / fork / switch whose outcome is a custom action; XX, layer-switch, macro, output chord), at least two subjects with an action that is only a custom action; history of 2-10 steps (press, release, tap of physical subjects; press / release / tap operations on virtual subjects; gaps 3..60 ticks), final gap 3..20 ticks or long enough for everything to settle, half of the scenarios with deciding actions end with a press of such a key 3..28 ticks before the probe; probe 1 = switch with one ((input real|virtual K)) case per subject (8 fallthrough cases), probe 2 = switch of 1-6 random cases of and/or/not to depth 5 over (input ..) leaves on the subjects and, where no subject action presses virtual keys on its own, (input-history ..) leaves (2/3 aimed at the true slot, 1/6 next to it); each probe on a physical key (2/3) or a virtual key (1/3), waited for until all undecided actions and queued events are through. Expected: probe 1 performs exactly the cases of the subjects that are down, in order; probe 2 performs what the model evaluates from the down set (if probe 1 misjudged a leaf, probe 2 may instead agree with the model fed with probe 1's leaf values - the leaf is reported once, a disagreement with both is a composition violation). Non-trivial = a case/scenario that was evaluated; distinct = exhaustive chunk, or set of item kinds (random), or scenario class (e2e), or (layout, recency, threshold set) / (recency, comparison) of an old entry (age families), or (kind, earlier chord, presses while unprocessed, events in the same tick) (late family), or (probe kind, during/after the macro, named key held only by a macro, result decided by it) (macro family), or (input type, action kind) of a subject that is down at the probe (action-kind family).".into()
    }
    fn assumptions(&self) -> Vec<String> {
        vec![
            "key-timing 'lt' is inclusive (age <= q(t)) and 'gt' strict (age > q(t)), q = documented lossy rounding anchored at 255+8k and 2303+128k; this is the repository's own unit-test convention".into(),
            "an operator with zero operands, e.g. (or), is accepted by the parser but outside the statement and is not generated".into(),
            "end-to-end: events are at least one tick apart, so the age of a key press at evaluation is the difference of arrival times; (input real k) is only asked about keys whose action creates a key state (plain keys, layer-while-held keys, virtual keys), not about layer-switch keys or the switch key itself".into(),
            "end-to-end with more than 8 firing fallthrough cases (beyond the 8-slot action queue) is only judged for 'no non-firing case is performed'; the lost actions are counted".into(),
            "ages of history entries: an entry typed A ticks before the switch key is processed compares as min(A, 65535) - the age counters are 16 bit and 'at least that long ago' must stay true; so for an entry older than 65535 ticks (key-timing n gt T) is true and (key-timing n lt T) is false for every T that compresses to less than 65535, however many multiples of 65536 ticks have passed. The only threshold that compresses to 65535 is 65535 itself: there 'gt' can never be true although the guide says 'pressed later than $time'; the guide does not say how far back ages are known, so a scenario in which such a leaf refers to an entry older than 65535 ticks is not judged (counted as e2e_unjudged_threshold_65535_on_older_entry); the same leaf on entries up to 65535 ticks old is judged".into(),
            "in the stepper every t:N really advances N layout ticks; the running program stops ticking while kanata is idle, so history entries older than 65535 ticks arise there only while something keeps kanata non-idle (or a large key-timing threshold keeps it ticking) - the property is about what the switch does with the state it is given, so these states are generated regardless of how likely they are".into(),
            "late-evaluation family: (input-history ..) is judged against the arrival order of ALL press events (real keys and virtual-key presses) that arrived before the switch was evaluated, whether or not kanata had processed them; to make 'before the evaluation' independent of kanata's timing, nothing but releases and time follows the last press of a scenario until the first action of the switch is out (a scenario in which no action of the switch appears after the last press - the waiting action resolved differently than intended - is counted as late_unjudged_* and not judged). Consequently recency 1 is the activating key only if nothing was pressed after it; the guide's 'recency 1 is the input activating switch itself' describes that ordinary case. In these scenarios (input real k) / (input virtual v) and bare key names are only asked about keys that are pressed or released in the settled prelude and not touched afterwards (whether a key whose press or release is still queued counts as 'currently pressed' is not decided by the guide), key-history / key-timing are not used (the order of kanata's own outputs is exactly what is delayed), events may arrive without a tick in between".into(),
            "macro family: a bare key name in fork / switch is active iff the OS model (built from kanata's own output events) has the key down when the probe key arrives - for keys held by physical keys, multi, virtual keys and running macros alike; a probe is not judged (macro_probe_unjudged_named_key_changes_during_processing) if one of the keys named by the probed fork / switch goes down or up at the OS between the arrival of the probe key and the tick in which its first action comes out (1-2 ticks), because the order of macro step and key processing inside one tick is not specified; the timeline of the macro is observed, not modelled".into(),
            "action-kind family: (input real K) is true iff the press event of K arrived and its release event did not (yet) - 'currently pressed', 'checks against the defsrc inputs' - and (input virtual V) is true iff V was pressed (press-vkey / a press operation) and not released since (a tap leaves it inactive); this does not depend on the action of K / V. Judged only when nothing but time follows the last event before the probe and the probe is given time for every undecided tap-hold / tap-dance and every queued event to go through first (so the probe sees the settled state; with a driver key in the configuration the final gap is long enough for the virtual-key press it causes to be processed before the probe arrives). On the unchanged tree the test is false for a pressed key whose action is XX, layer-switch, macro or an output chord (known findings C10:inp:pressed-key-not-seen:{real,virtual}:{noop,layer-switch,macro,output-chord}, findings/C10-input-test-blind-to-stateless-actions.md); every other kind is live. Not asked about (the guide does not decide): one-shot keys (they stay active after their release on purpose), keys that undo other keys' state (release-key, release-layer, macro-release-cancel - the latter also ends a held macro-repeat), sequence leader, dynamic macro record / play, cmd, clipboard, live reload, the probe keys themselves".into(),
            "action-kind family: (input-history ..) leaves are only generated where the list of press events equals the written history (no subject action that presses virtual keys on its own); slot 1 is the probe key of the complex switch, slot 2 the probe key of the single-leaf switch".into(),
            "virtual key name -> coordinate is taken from Cfg.fake_keys in the direct part and checked by really pressing the virtual keys in the end-to-end part".into(),
        ]
    }
    fn floors(&self, ctx: &Ctx) -> Vec<(&'static str, u64)> {
        vec![
            ("exhaustive_shapes", ctx.tier.sel(1_200_000, 12_000_000)),
            ("exhaustive_evaluations", ctx.tier.sel(9_000_000, 90_000_000)),
            ("bf_patterns", 62),
            ("random_evaluations", ctx.tier.sel(1_000_000, 20_000_000)),
            ("random_depth8_expressions", 100),
            ("random_nodes_input", 100),
            ("random_nodes_input-history", 100),
            ("random_nodes_layer", 100),
            ("random_nodes_base-layer", 100),
            ("random_nodes_key-timing", 100),
            ("random_thresholds_in_lossy_range", 100),
            ("direct_more_than_8_firing", 10),
            ("e2e_switch_scenarios", ctx.tier.sel(5_000, 70_000)),
            ("e2e_fork_scenarios", ctx.tier.sel(2_500, 35_000)),
            ("e2e_fork_right", 100),
            ("e2e_fork_left", 100),
            ("e2e_over8_firing", 5),
            ("e2e_timing_on_edge", 20),
            // old-history-entry dimension (ages beyond the range of the u16 counters)
            ("e2e_age_systematic_scenarios", ctx.tier.sel(2_400, 6_000)),
            ("e2e_age_systematic_newer_entries_after_gap", 500),
            ("e2e_age_systematic_all_entries_before_gap", 500),
            ("e2e_long_random_scenarios", ctx.tier.sel(2_000, 30_000)),
            ("e2e_timing_entry_older_than_65535", ctx.tier.sel(8_000, 40_000)),
            ("e2e_old_entry_lt_leaf", 3_000),
            ("e2e_old_entry_gt_leaf", 3_000),
            ("e2e_old_entry_threshold_above_age_mod_65536", 3_000),
            ("e2e_old_entry_threshold_below_age_mod_65536", 3_000),
            ("e2e_old_entry_recency_ge_2", 3_000),
            ("e2e_old_entry_recency_8", 300),
            ("e2e_timing_age_32760_32775", 300),
            ("e2e_timing_age_65400_65529", 300),
            ("e2e_timing_age_65530_65545", 2_000),
            ("e2e_timing_age_ge_70000", 2_000),
            ("e2e_timing_age_ge_131072", 1_000),
            ("e2e_two_or_more_entries_older_than_65535", 300),
            ("e2e_key_history_entry_older_than_65535", 1_000),
            ("e2e_input_history_entry_older_than_65535", 1_000),
            // late-evaluation dimension (input-history = arrival order while presses are unprocessed)
            ("late_judged", ctx.tier.sel(4_500, 60_000)),
            ("late_input_history_items", ctx.tier.sel(12_000, 160_000)),
            ("late_judged_tap_hold_tap", ctx.tier.sel(500, 7_000)),
            ("late_judged_tap_hold_release_tap", ctx.tier.sel(250, 3_500)),
            ("late_judged_tap_hold_hold_by_timeout", ctx.tier.sel(250, 3_500)),
            ("late_judged_tap_hold_press_hold", ctx.tier.sel(250, 3_500)),
            ("late_judged_tap_hold_release_hold", ctx.tier.sel(250, 3_500)),
            ("late_judged_tap_dance_interrupted", ctx.tier.sel(250, 3_500)),
            ("late_judged_chord_action_2_keys", ctx.tier.sel(250, 3_500)),
            ("late_judged_chord_action_3_keys", ctx.tier.sel(250, 3_500)),
            ("late_judged_chordv2_action", ctx.tier.sel(250, 3_500)),
            ("late_judged_switch_key_after_chord", ctx.tier.sel(250, 3_500)),
            ("late_judged_switch_key_after_held_back_chordv2_participant", ctx.tier.sel(250, 3_500)),
            ("late_judged_switch_key_in_burst", ctx.tier.sel(500, 7_000)),
            ("late_judged_after_earlier_chord", ctx.tier.sel(1_200, 16_000)),
            ("late_judged_with_events_in_the_same_tick", ctx.tier.sel(1_500, 20_000)),
            ("late_judged_most_recent_input_is_not_the_activating_key", ctx.tier.sel(1_500, 20_000)),
            ("late_result_depends_on_inputs_pressed_while_unprocessed", ctx.tier.sel(1_500, 20_000)),
            ("late_result_depends_on_chord_member_inputs", ctx.tier.sel(800, 10_000)),
            // macro-held-key dimension (fork / switch key tests see keys held by a running macro)
            ("macro_probes_fork", ctx.tier.sel(2_000, 26_000)),
            ("macro_probes_switch_equivalent_to_fork", ctx.tier.sel(2_000, 26_000)),
            ("macro_probes_switch_random_key_expressions", ctx.tier.sel(1_800, 24_000)),
            ("macro_fork_and_equivalent_switch_compared", ctx.tier.sel(2_000, 26_000)),
            ("macro_probe_named_key_held_only_by_macro", ctx.tier.sel(2_000, 26_000)),
            ("macro_fork_branch_decided_by_macro_held_key", ctx.tier.sel(500, 6_500)),
            ("macro_switch_equivalent_decided_by_macro_held_key", ctx.tier.sel(500, 6_500)),
            ("macro_switch_random_decided_by_macro_held_key", ctx.tier.sel(500, 6_500)),
            ("macro_probe_after_end_named_macro_key_is_up", ctx.tier.sel(700, 9_000)),
            ("macro_probe_named_key_held_physically_while_macro_runs", ctx.tier.sel(1_000, 13_000)),
            ("macro_probe_two_macros", ctx.tier.sel(1_500, 20_000)),
            ("macro_probe_release_cancel_variant", ctx.tier.sel(500, 6_500)),
            ("macro_fork_right", ctx.tier.sel(700, 9_000)),
            ("macro_fork_left", ctx.tier.sel(700, 9_000)),
            // action-kind dimension of the input tests (c10_inp.rs)
            ("inp_scenarios", ctx.tier.sel(5_000, 60_000)),
            ("inp_direct_probes_judged", ctx.tier.sel(5_000, 60_000)),
            ("inp_complex_probes_judged", ctx.tier.sel(5_000, 60_000)),
            ("inp_direct_probe_on_virtual_key", ctx.tier.sel(1_200, 15_000)),
            ("inp_direct_probe_on_physical_key", ctx.tier.sel(2_500, 30_000)),
            ("inp_complex_probe_on_virtual_key", ctx.tier.sel(1_200, 15_000)),
            ("inp_down_real_key_whose_only_action_is_custom", ctx.tier.sel(4_000, 50_000)),
            ("inp_down_virtual_key_whose_only_action_is_custom", ctx.tier.sel(2_000, 25_000)),
            ("inp_released_real_key_whose_only_action_is_custom", ctx.tier.sel(900, 11_000)),
            ("inp_released_virtual_key_whose_only_action_is_custom", ctx.tier.sel(800, 10_000)),
            ("inp_down_real_key_of_deciding_action_ending_in_custom", ctx.tier.sel(1_000, 12_000)),
            ("inp_down_virtual_key_of_deciding_action_ending_in_custom", ctx.tier.sel(450, 5_500)),
            ("inp_down_real_key_of_other_non_key_action", ctx.tier.sel(1_200, 15_000)),
            ("inp_down_virtual_key_of_other_non_key_action", ctx.tier.sel(600, 7_500)),
            ("inp_down_real_key", ctx.tier.sel(300, 3_600)),
            ("inp_down_real_mouse-button", ctx.tier.sel(500, 6_000)),
            ("inp_down_real_mouse-wheel", ctx.tier.sel(300, 3_600)),
            ("inp_down_real_mouse-move", ctx.tier.sel(300, 3_600)),
            ("inp_down_real_caps-word", ctx.tier.sel(300, 3_600)),
            ("inp_down_real_arbitrary-code", ctx.tier.sel(300, 3_600)),
            ("inp_down_real_unicode", ctx.tier.sel(300, 3_600)),
            ("inp_down_real_vkey-action", ctx.tier.sel(220, 2_700)),
            ("inp_down_real_unmod", ctx.tier.sel(170, 2_000)),
            ("inp_down_real_multi-custom", ctx.tier.sel(200, 2_400)),
            ("inp_down_real_multi-key-custom", ctx.tier.sel(180, 2_200)),
            ("inp_down_real_vkey-press-release", ctx.tier.sel(260, 3_000)),
            ("inp_down_real_layer-while-held", ctx.tier.sel(170, 2_000)),
            ("inp_down_real_macro-repeat", ctx.tier.sel(90, 1_000)),
            ("inp_down_real_tap-hold-to-custom", ctx.tier.sel(330, 4_000)),
            ("inp_down_real_tap-dance-to-custom", ctx.tier.sel(110, 1_300)),
            ("inp_down_real_fork-to-custom", ctx.tier.sel(180, 2_200)),
            ("inp_down_real_switch-to-custom", ctx.tier.sel(180, 2_200)),
            ("inp_down_real_noop", ctx.tier.sel(170, 2_000)),
            ("inp_down_real_layer-switch", ctx.tier.sel(170, 2_000)),
            ("inp_down_real_macro", ctx.tier.sel(170, 2_000)),
            ("inp_down_real_output-chord", ctx.tier.sel(170, 2_000)),
            ("inp_down_virtual_key", ctx.tier.sel(150, 1_800)),
            ("inp_down_virtual_mouse-button", ctx.tier.sel(270, 3_200)),
            ("inp_down_virtual_mouse-wheel", ctx.tier.sel(160, 1_900)),
            ("inp_down_virtual_mouse-move", ctx.tier.sel(150, 1_800)),
            ("inp_down_virtual_caps-word", ctx.tier.sel(170, 2_000)),
            ("inp_down_virtual_arbitrary-code", ctx.tier.sel(160, 1_900)),
            ("inp_down_virtual_unicode", ctx.tier.sel(150, 1_800)),
            ("inp_down_virtual_vkey-action", ctx.tier.sel(160, 1_900)),
            ("inp_down_virtual_unmod", ctx.tier.sel(100, 1_200)),
            ("inp_down_virtual_multi-custom", ctx.tier.sel(100, 1_200)),
            ("inp_down_virtual_multi-key-custom", ctx.tier.sel(100, 1_200)),
            ("inp_down_virtual_layer-while-held", ctx.tier.sel(100, 1_200)),
            ("inp_down_virtual_macro-repeat", ctx.tier.sel(40, 500)),
            ("inp_down_virtual_tap-hold-to-custom", ctx.tier.sel(140, 1_700)),
            ("inp_down_virtual_tap-dance-to-custom", ctx.tier.sel(50, 600)),
            ("inp_down_virtual_fork-to-custom", ctx.tier.sel(100, 1_200)),
            ("inp_down_virtual_switch-to-custom", ctx.tier.sel(100, 1_200)),
            ("inp_virtual_key_held_through_driver_key", ctx.tier.sel(280, 3_400)),
            ("inp_probe_arrives_while_a_subject_action_is_undecided", ctx.tier.sel(250, 3_000)),
            ("inp_complex_some_case_fired", ctx.tier.sel(3_000, 36_000)),
            ("inp_complex_result_depends_on_down_key_whose_only_action_is_custom", ctx.tier.sel(900, 11_000)),
            ("inp_complex_input_history_leaf_true_on_key_without_key_code_action", ctx.tier.sel(1_200, 14_000)),
        ]
    }
    fn exhaustive(&self, _ctx: &Ctx) -> bool {
        true
    }
}
