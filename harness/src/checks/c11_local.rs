//! C11 part 8: a `deflocalkeys-linux` name that coincides with a built-in key name.
//!
//! "A key name denotes the same code wherever it is written", where the denotation of a
//! `deflocalkeys` name is the number the user configured ("a key name of your choice that can be
//! used in the rest of the configuration", docs/config.adoc). Parts 2, 4, 6 and 7 only ever define
//! brand-new names (`zz123`); here the chosen name N is one of the names kanata already knows
//! (`z`, `y`, `<`, `a`, `1`, `ret`, `lsft`, `;` ...) and is bound to another code c - the QWERTZ
//! user who names keys after their caps: `(deflocalkeys-linux z 21 y 44)`.
//!
//! Denotation used by the oracle: name -> configured number if the name is listed in
//! deflocalkeys-linux, else -> pinned built-in code (c11_ref.rs). Judged
//! (a) on the parsed `Cfg` (no history needed): N denotes c through `str_to_oscode`, in defsrc
//!     (`Cfg.mapped_keys`), as a layer action, as a deflayermap input, as fork trigger, as switch
//!     key / key-history / input item, in unmod, on both sides of defoverrides, behind a modifier
//!     prefix (S-N), inside multi / tap-hold / one-shot / release-key / macro, through a defvar,
//!     and in `process-unmapped-keys (all-except N)`; in the same configuration the names that
//!     were NOT redefined keep their built-in code: another name of the code N used to denote,
//!     a built-in name of c, an unrelated name, and every other deflocalkeys entry denotes its own
//!     number;
//! (b) on a real Kanata: small single-feature configurations in which N is written at one site
//!     (defsrc identity, deflayermap input, macro, S-N, tap-hold-release-keys / tap-hold-except-keys
//!     key list, defchordsv2 participant, defseq key, caps-word-custom list, fork trigger, switch
//!     key, switch input, defoverrides input, unmod, one-shot) are driven with the physical code c;
//!     the OS stream must be exactly the stream of the same configuration with N replaced by a
//!     brand-new name bound to c (a relation), and the feature must visibly react to c (absolute
//!     clause per site: the marker key / the key C itself appears).
//! Workload: every pinned key name x 2 codes (one that has built-in names, one that has none) for
//! (a); every pinned key name x 1 (quick) / 3 (thorough) plain codes x 15 sites for (b); seeded
//! random deflocalkeys blocks with 1-4 redefined built-in names (swaps `z<->y`, rotations,
//! independent entries, two names for one code), every entry judged as in (a) and all entries
//! together in one defsrc on a real Kanata.

use super::{expected_identity, kc_of, refs, switch_true_codes, Exp, ACTION_SHADOWED, MOD_CODES};
use crate::core::rng::{hash_str, Rng};
use crate::core::sim::{render_hist, Ev, OutKind, Sim};
use crate::core::{CaseOut, Ctx};
use kanata_keyberon::action::{Action, ReleasableState, SequenceEvent};
use kanata_keyberon::key_code::KeyCode;
use kanata_parser::cfg::OverrideStates;
use kanata_parser::custom_action::CustomAction;
use kanata_parser::keys::{str_to_oscode, OsCode};
use serde_json::{json, Value};
use std::collections::{BTreeSet, HashMap};
use std::sync::OnceLock;

// ------------------------------------------------------------------ tables

struct Tables {
    /// pinned built-in names in table order (first occurrence of a name wins)
    names: Vec<(&'static str, u16)>,
    by_name: HashMap<&'static str, u16>,
    /// codes (1..=748, known to the OS layer, not 240) that have at least one built-in name
    named_codes: Vec<u16>,
    /// the same without a built-in name
    unnamed_codes: Vec<u16>,
    /// codes whose identity mapping is an ordinary key event and that are no modifiers
    plain_codes: Vec<u16>,
}

fn tables() -> &'static Tables {
    static T: OnceLock<Tables> = OnceLock::new();
    T.get_or_init(|| {
        let mut names = vec![];
        let mut by_name: HashMap<&'static str, u16> = HashMap::new();
        for (n, c) in refs::KEY_NAMES {
            if !by_name.contains_key(n) {
                by_name.insert(n, *c);
                names.push((*n, *c));
            }
        }
        let has_name: BTreeSet<u16> = names.iter().map(|x| x.1).collect();
        // the code of KeyCode::ErrorRollOver doubles as the O- marker of sequences (refused behind a
        // modifier prefix whatever name it has): not a target
        let overlap = u16::from(OsCode::from(kanata_parser::sequences::KEY_OVERLAP));
        let usable = |c: u16| c != 0 && c != 240 && c != overlap && OsCode::from_u16(c).is_some() && c < 749;
        let named_codes: Vec<u16> = (1..749u16).filter(|c| usable(*c) && has_name.contains(c)).collect();
        let unnamed_codes: Vec<u16> = (1..749u16).filter(|c| usable(*c) && !has_name.contains(c)).collect();
        let plain_codes: Vec<u16> = (1..749u16).filter(|c| usable(*c) && matches!(expected_identity(*c), Exp::Key(_)) && !MOD_CODES.contains(c)).collect();
        Tables { names, by_name, named_codes, unnamed_codes, plain_codes }
    })
}

fn builtin(name: &str) -> Option<u16> {
    tables().by_name.get(name).copied()
}

/// put the process-global name table of the parser back to its defaults: the harness resolves key
/// names of histories through it, so a redefined `a` must not leak into the next case
pub fn reset_names() {
    kanata_parser::keys::replace_custom_str_oscode_mapping(&Default::default());
}

fn is_numeric(n: &str) -> bool {
    n.parse::<u32>().is_ok()
}
/// the name itself starts with something the language reads as a modifier prefix (`‹⇧`, `⌥›` ... are
/// both key names and prefixes), so `S-N` is not "shift + the key N"
fn prefix_ambiguous(n: &str) -> bool {
    !n.is_ascii() || ["S-", "C-", "A-", "M-", "RS-", "RC-", "RA-", "RM-", "AG-", "O-"].iter().any(|p| n.starts_with(p))
}
/// a built-in name of `code` that the block leaves alone
fn name_for(rd: &Redef, code: u16) -> Option<&'static str> {
    tables().names.iter().find(|x| x.1 == code && x.0.is_ascii() && !rd.defines(x.0)).map(|x| x.0)
}
fn action_shadowed(n: &str) -> bool {
    ACTION_SHADOWED.contains(&n)
}

/// one deflocalkeys-linux block
#[derive(Clone, Debug)]
pub struct Redef {
    pub entries: Vec<(String, u16)>,
}

impl Redef {
    fn text(&self) -> String {
        let mut s = String::from("(deflocalkeys-linux");
        for (n, c) in &self.entries {
            s.push_str(&format!(" {n} {c}"));
        }
        s.push_str(")\n");
        s
    }
    /// the same block with brand-new names (`zzloc0` ...) for the same numbers
    fn fresh(&self) -> Redef {
        Redef { entries: self.entries.iter().enumerate().map(|(i, e)| (format!("zzloc{i}"), e.1)).collect() }
    }
    fn defines(&self, name: &str) -> bool {
        self.entries.iter().any(|e| e.0 == name)
    }
    /// every code that one of the redefined names denotes now or denoted before
    fn touched_codes(&self) -> BTreeSet<u16> {
        let mut s = BTreeSet::new();
        for (n, c) in &self.entries {
            s.insert(*c);
            if let Some(b) = builtin(n) {
                s.insert(b);
            }
        }
        s
    }
    /// `k` built-in names that are not redefined and whose code is untouched, from `pool`
    fn helpers(&self, pool: &[&'static str], k: usize) -> Option<Vec<(&'static str, u16)>> {
        let touched = self.touched_codes();
        let v: Vec<(&'static str, u16)> = pool.iter().filter(|h| !self.defines(h)).filter_map(|h| builtin(h).map(|c| (*h, c))).filter(|h| !touched.contains(&h.1)).take(k).collect();
        if v.len() == k {
            Some(v)
        } else {
            None
        }
    }
}

const HELPER_POOL: [&str; 22] = ["q", "w", "e", "r", "t", "u", "i", "o", "p", "g", "h", "j", "k", "l", "v", "b", "n", "m", "x", "c", "d", "f"];
const MARKER_POOL: [&str; 12] = ["f13", "f14", "f15", "f16", "f17", "f18", "f19", "f20", "f21", "f22", "f23", "f24"];

fn key_name(c: u16) -> String {
    match expected_identity(c) {
        Exp::Key(n) => n,
        _ => format!("#{c}"),
    }
}

// ------------------------------------------------------------------ (a) the parsed configuration

/// every key code an action mentions (custom actions: the keys of unmod / unshift)
fn codes_in<'a>(a: &Action<'a, &'a &'a [&'a CustomAction]>, acc: &mut BTreeSet<u16>, depth: u32) {
    if depth > 6 {
        return;
    }
    let mut put = |k: KeyCode| {
        acc.insert(u16::from(OsCode::from(k)));
    };
    match a {
        Action::KeyCode(k) => put(*k),
        Action::MultipleKeyCodes(ks) => ks.iter().for_each(|k| put(*k)),
        Action::MultipleActions(acs) => {
            for x in acs.iter() {
                codes_in(x, acc, depth + 1);
            }
        }
        Action::Sequence { events } | Action::RepeatableSequence { events } => {
            for e in events.iter() {
                match e {
                    SequenceEvent::Press(k) | SequenceEvent::Release(k) | SequenceEvent::Tap(k) => put(*k),
                    _ => {}
                }
            }
        }
        Action::ReleaseState(ReleasableState::KeyCode(k)) => put(*k),
        Action::HoldTap(h) => {
            codes_in(&h.tap, acc, depth + 1);
            codes_in(&h.hold, acc, depth + 1);
            codes_in(&h.timeout_action, acc, depth + 1);
        }
        Action::OneShot(o) => codes_in(o.action, acc, depth + 1),
        Action::Custom(cs) => {
            for c in cs.iter() {
                if let CustomAction::Unmodded { keys, .. } = c {
                    keys.iter().for_each(|k| put(*k));
                }
            }
        }
        _ => {}
    }
}

struct StructCfg {
    text: String,
    h: Vec<(&'static str, u16)>,
    /// (role, name, expected code) of the names that must keep / have their own denotation
    bystanders: Vec<(&'static str, String, u16)>,
    with_macro: bool,
    with_actions: bool,
    with_prefix: bool,
}

fn bystanders_of(rd: &Redef, pi: usize, helpers: &[(&'static str, u16)]) -> Vec<(&'static str, String, u16)> {
    let t = tables();
    let (n, want) = (&rd.entries[pi].0, rd.entries[pi].1);
    let b = builtin(n);
    let mut v: Vec<(&'static str, String, u16)> = vec![];
    // another name of the code N denoted before it was redefined
    if let Some(b) = b {
        if let Some(a) = t.names.iter().find(|x| x.1 == b && x.0 != n.as_str() && !rd.defines(x.0) && b != 0) {
            v.push(("alias-of-shadowed-code", a.0.to_string(), b));
        }
    }
    // a built-in name of the code N denotes now
    if let Some(a) = t.names.iter().find(|x| x.1 == want && !rd.defines(x.0)) {
        v.push(("name-of-target-code", a.0.to_string(), want));
    }
    // the other entries of the block
    for (i, e) in rd.entries.iter().enumerate() {
        if i != pi {
            v.push(("other-local-name", e.0.clone(), e.1));
        }
    }
    // an unrelated built-in name
    let touched = rd.touched_codes();
    let start = (hash_str(n) % t.names.len() as u64) as usize;
    for k in 0..t.names.len() {
        let x = t.names[(start + k) % t.names.len()];
        if x.1 != 0 && !touched.contains(&x.1) && !rd.defines(x.0) && !helpers.iter().any(|h| h.1 == x.1) {
            v.push(("unrelated-name", x.0.to_string(), x.1));
            break;
        }
    }
    // one deflayermap input per code
    let mut seen = BTreeSet::new();
    v.retain(|x| seen.insert(x.2));
    v
}

fn struct_config(rd: &Redef, pi: usize) -> Option<StructCfg> {
    let (n, want) = (&rd.entries[pi].0, rd.entries[pi].1);
    let h = rd.helpers(&HELPER_POOL, 7)?;
    let is_mod = MOD_CODES.contains(&want);
    let with_actions = !action_shadowed(n);
    let with_macro = with_actions && !is_numeric(n);
    let with_prefix = !prefix_ambiguous(n);
    let (ov_in, ov_out) = if is_mod { (format!("({n} {})", h[3].0), format!("({n} {})", h[3].0)) } else { (format!("({n})"), format!("({n})")) };
    let bystanders = bystanders_of(rd, pi, &h);
    let mut s = rd.text();
    s.push_str(&format!("(defcfg process-unmapped-keys no)\n(defvar v {n})\n(defsrc {n})\n(deflayer l0 {})\n", if with_actions { n.as_str() } else { "XX" }));
    s.push_str(&format!("(deflayermap (l1) {n} {})\n", h[0].0));
    s.push_str(&format!(
        "(defalias\n fk (fork {h0} {h1} ({n}))\n sw (switch ({n}) {h0} break)\n kh (switch ((key-history {n} 1)) {h0} break)\n in (switch ((input real {n})) {h0} break)\n um (unmod {n})\n",
        h0 = h[0].0,
        h1 = h[1].0
    ));
    if with_prefix {
        s.push_str(&format!(" mp S-{n}\n"));
    }
    if with_actions {
        s.push_str(&format!(" mu (multi {h1} {n})\n th (tap-hold 200 200 {n} {h0})\n os (one-shot 500 {n})\n va $v\n rk (release-key {n})\n", h0 = h[0].0, h1 = h[1].0));
    }
    if with_macro {
        s.push_str(&format!(" mc (macro {n})\n"));
    }
    s.push_str(")\n");
    s.push_str(&format!("(deflayermap (l2) {} @fk {} @sw {} @um {} @kh {} @in", h[0].0, h[1].0, h[2].0, h[3].0, h[4].0));
    if with_prefix {
        s.push_str(&format!(" {} @mp", h[5].0));
    }
    s.push_str(")\n");
    if with_actions {
        s.push_str(&format!("(deflayermap (l3) {} @mu {} @th {} @os {} @va {} @rk", h[0].0, h[1].0, h[2].0, h[3].0, h[4].0));
        if with_macro {
            s.push_str(&format!(" {} @mc", h[5].0));
        }
        s.push_str(")\n");
    } else {
        s.push_str("(deflayermap (l3))\n");
    }
    s.push_str("(deflayermap (l4)");
    for (_, bn, _) in &bystanders {
        s.push_str(&format!(" {bn} {}", h[6].0));
    }
    s.push_str(")\n");
    s.push_str(&format!("(defoverrides {ov_in} ({}) ({}) {ov_out})\n", h[0].0, h[1].0));
    Some(StructCfg { text: s, h, bystanders, with_macro, with_actions, with_prefix })
}

fn err_short(e: &impl std::fmt::Debug) -> String {
    format!("{e:?}").lines().take(12).collect::<Vec<_>>().join(" | ")
}

/// judge entry `pi` of the block on the parsed configuration; `kind` only tags
fn judge_struct(out: &mut CaseOut, rd: &Redef, pi: usize, kind: &str) {
    let (n, want) = (rd.entries[pi].0.clone(), rd.entries[pi].1);
    let Some(b) = builtin(&n) else { return };
    let Some(sc) = struct_config(rd, pi) else {
        out.inc("local_struct_no_helpers_skipped");
        return;
    };
    out.inc("local_struct_configs");
    out.inc(&format!("local_struct_kind_{kind}"));
    if b != want {
        out.inc("local_struct_name_moved_to_another_code");
    } else {
        out.inc("local_struct_name_bound_to_its_own_code");
    }
    let cfg_text = sc.text.clone();
    let class = |observed: Option<u16>| -> &'static str {
        if observed == Some(b) && b != want {
            "builtin-code-instead"
        } else {
            "other-code"
        }
    };
    let bad = |out: &mut CaseOut, site: &str, cls: &str, observed: String, cfg: &str| {
        out.violate(
            format!("C11:localname:{site}:{cls}"),
            format!("deflocalkeys-linux binds \"{n}\" (built-in code {b}) to {want}, but at site {site} it denotes {observed}"),
            json!({"config": cfg, "history": "(parse only)", "observed": observed, "expected": want, "name": n, "builtin_code": b, "deflocalkeys": rd.entries}),
        );
    };
    let cfg = match kanata_parser::cfg::new_from_str(&cfg_text, Default::default()) {
        Ok(c) => c,
        Err(e) => {
            out.inc("local_struct_config_rejected");
            bad(out, "config-rejected", "all-sites", err_short(&e), &cfg_text);
            return;
        }
    };
    // the function itself, with the table this configuration installed
    let direct = str_to_oscode(&n).map(|o| o.as_u16());
    if direct == Some(want) {
        out.inc("local_ok_str_to_oscode");
    } else {
        bad(out, "str_to_oscode", class(direct), format!("{direct:?}"), &cfg_text);
    }
    let l = cfg.layout.b();
    let hc: Vec<u16> = sc.h.iter().map(|x| x.1).collect();
    let cell = |layer: usize, coord: u16| l.layers[layer][0][coord as usize];
    // defsrc + deflayermap inputs
    let mapped: BTreeSet<u16> = cfg.mapped_keys.iter().map(|o| o.as_u16()).collect();
    let mut exp_mapped: BTreeSet<u16> = BTreeSet::new();
    exp_mapped.insert(want);
    for i in 0..5 {
        exp_mapped.insert(hc[i]);
    }
    if sc.with_prefix || sc.with_macro {
        exp_mapped.insert(hc[5]);
    }
    for x in &sc.bystanders {
        exp_mapped.insert(x.2);
    }
    if mapped == exp_mapped {
        out.inc("local_ok_defsrc");
    } else {
        let cls = if !mapped.contains(&want) && mapped.contains(&b) { "builtin-code-instead" } else { "other-code" };
        bad(out, "defsrc", cls, format!("mapped keys {mapped:?}, expected {exp_mapped:?}"), &cfg_text);
    }
    // the single code of an action that should be KeyCode(x)
    let single = |a: &Action<'_, &&[&CustomAction]>| -> Option<u16> {
        match a {
            Action::KeyCode(k) => Some(u16::from(OsCode::from(*k))),
            _ => None,
        }
    };
    // layer action: l0 at coordinate `want`
    if sc.with_actions {
        let a = cell(0, want);
        if single(&a) == Some(want) {
            out.inc("local_ok_action");
        } else {
            // where did the action go?
            let at_b = single(&cell(0, b));
            bad(out, "action", if at_b.is_some() && b != want { "builtin-code-instead" } else { "other-code" }, format!("{a:?} at coordinate {want}; coordinate {b} holds {:?}", cell(0, b)), &cfg_text);
        }
    } else {
        out.inc("local_action_position_skipped");
    }
    // deflayermap input: l1 at `want` holds h0
    {
        let a = cell(1, want);
        if single(&a) == Some(hc[0]) {
            out.inc("local_ok_deflayermap_input");
        } else {
            let at_b = single(&cell(1, b)) == Some(hc[0]) && b != want;
            bad(out, "deflayermap-input", if at_b { "builtin-code-instead" } else { "other-code" }, format!("{a:?} at coordinate {want}; coordinate {b} holds {:?}", cell(1, b)), &cfg_text);
        }
    }
    // fork trigger
    match cell(2, hc[0]) {
        Action::Fork(f) => {
            let t: Vec<u16> = f.right_triggers.iter().map(|k| u16::from(OsCode::from(*k))).collect();
            if t == vec![want] {
                out.inc("local_ok_fork");
            } else {
                bad(out, "fork", class(t.first().copied()), format!("right triggers {t:?}"), &cfg_text);
            }
        }
        other => bad(out, "fork", "other-code", format!("{other:?}"), &cfg_text),
    }
    // switch: bare key, key-history, input
    for (coord, mode, pos) in [(hc[1], 0u8, "switch-key"), (hc[3], 1, "switch-key-history"), (hc[4], 2, "switch-input")] {
        match cell(2, coord) {
            Action::Switch(sw) => {
                let t = switch_true_codes(sw, mode);
                out.count("local_switch_evaluations", 749);
                if t == vec![want] {
                    out.inc(&format!("local_ok_{pos}"));
                } else {
                    bad(out, pos, if t == vec![b] && b != want { "builtin-code-instead" } else { "other-code" }, format!("true exactly for codes {t:?}"), &cfg_text);
                }
            }
            other => bad(out, pos, "other-code", format!("{other:?}"), &cfg_text),
        }
    }
    // sites judged by the set of key codes the action mentions
    let set_site = |out: &mut CaseOut, site: &str, layer: usize, coord: u16, extra: &[u16]| {
        let mut got = BTreeSet::new();
        codes_in(&cell(layer, coord), &mut got, 0);
        let mut exp: BTreeSet<u16> = extra.iter().copied().collect();
        exp.insert(want);
        if got == exp {
            out.inc(&format!("local_ok_{site}"));
        } else {
            let mut with_b: BTreeSet<u16> = extra.iter().copied().collect();
            with_b.insert(b);
            bad(out, site, if got == with_b && b != want { "builtin-code-instead" } else { "other-code" }, format!("key codes {got:?} in {:?}, expected {exp:?}", cell(layer, coord)), &cfg_text);
        }
    };
    set_site(out, "unmod", 2, hc[2], &[]);
    if sc.with_prefix {
        set_site(out, "mod-prefix", 2, hc[5], &[42]);
    } else {
        out.inc("local_mod_prefix_site_skipped_name_reads_as_prefix");
    }
    if sc.with_actions {
        set_site(out, "multi", 3, hc[0], &[hc[1]]);
        set_site(out, "tap-hold", 3, hc[1], &[hc[0]]);
        set_site(out, "one-shot", 3, hc[2], &[]);
        set_site(out, "defvar", 3, hc[3], &[]);
        set_site(out, "release-key", 3, hc[4], &[]);
        if sc.with_macro {
            set_site(out, "macro", 3, hc[5], &[]);
        } else {
            out.inc("local_macro_site_skipped_numeric_name");
        }
    }
    // defoverrides: input side and output side
    let is_mod = MOD_CODES.contains(&want);
    let mut st = OverrideStates::new();
    let as_codes = |v: &Vec<KeyCode>| -> BTreeSet<u16> { v.iter().map(|k| u16::from(OsCode::from(*k))).collect() };
    if let (Some(w), Some(k1), Some(k3)) = (kc_of(want), kc_of(hc[1]), kc_of(hc[3])) {
        let mut v = if is_mod { vec![w, k3] } else { vec![w] };
        cfg.overrides.override_keys(&mut v, &mut st);
        if as_codes(&v) == [hc[0]].into_iter().collect() {
            out.inc("local_ok_override_input");
        } else {
            // does the built-in code trigger it instead?
            let mut cls = "other-code";
            if let (Some(kb), true) = (kc_of(b), b != want) {
                let mut st2 = OverrideStates::new();
                let mut v2 = if is_mod { vec![kb, k3] } else { vec![kb] };
                cfg.overrides.override_keys(&mut v2, &mut st2);
                if as_codes(&v2) == [hc[0]].into_iter().collect() {
                    cls = "builtin-code-instead";
                }
            }
            bad(out, "defoverrides-input", cls, format!("{:?} -> {:?}", if is_mod { vec![want, hc[3]] } else { vec![want] }, as_codes(&v)), &cfg_text);
        }
        let mut st = OverrideStates::new();
        let mut v = vec![k1];
        cfg.overrides.override_keys(&mut v, &mut st);
        let exp: BTreeSet<u16> = if is_mod { [want, hc[3]].into_iter().collect() } else { [want].into_iter().collect() };
        if as_codes(&v) == exp {
            out.inc("local_ok_override_output");
        } else {
            let exp_b: BTreeSet<u16> = if is_mod { [b, hc[3]].into_iter().collect() } else { [b].into_iter().collect() };
            bad(out, "defoverrides-output", if as_codes(&v) == exp_b && b != want { "builtin-code-instead" } else { "other-code" }, format!("{:?} -> {:?}", vec![hc[1]], as_codes(&v)), &cfg_text);
        }
    }
    // the names that were not redefined (and the other entries) keep their own denotation:
    // l4 holds h6 exactly at the coordinates of the bystanders
    {
        let marker = hc[6];
        let got: BTreeSet<u16> = (1..749u16).filter(|c| single(&cell(4, *c)) == Some(marker)).collect();
        for (role, bn, bc) in &sc.bystanders {
            if got.contains(bc) {
                out.inc(&format!("local_ok_bystander_{role}"));
            } else {
                out.violate(
                    format!("C11:localname:bystander:{role}"),
                    format!("with \"{n}\" bound to {want}, the name \"{bn}\" ({role}) must denote {bc}; the deflayermap entry written for it is not at coordinate {bc} (entries at {got:?})"),
                    json!({"config": cfg_text, "history": "(parse only)", "observed": {"entries_at": got}, "expected": bc, "name": bn, "role": role, "deflocalkeys": rd.entries}),
                );
            }
        }
    }
    // process-unmapped-keys (all-except N)
    let ae_text = format!("{}(defcfg process-unmapped-keys (all-except {n}))\n(defsrc {h0})\n(deflayer l0 {h0})\n", rd.text(), h0 = sc.h[0].0);
    match kanata_parser::cfg::new_from_str(&ae_text, Default::default()) {
        Ok(c) => {
            let mut got: BTreeSet<u16> = c.mapped_keys.iter().map(|o| o.as_u16()).collect();
            let mut exp: BTreeSet<u16> = (1..767u16).filter(|c| OsCode::from_u16(*c).is_some() && *c != want).collect();
            for u in super::UNDECIDED {
                got.remove(&u);
                exp.remove(&u);
            }
            if got == exp {
                out.inc("local_ok_all_except");
            } else {
                let cls = if got.contains(&want) && !got.contains(&b) && b != want { "builtin-code-instead" } else { "other-code" };
                let extra: Vec<&u16> = got.difference(&exp).collect();
                let missing: Vec<&u16> = exp.difference(&got).collect();
                bad(out, "all-except", cls, format!("mapped keys: extra {extra:?}, missing {missing:?}"), &ae_text);
            }
        }
        Err(e) => {
            out.inc("local_struct_config_rejected");
            bad(out, "config-rejected", "all-except", err_short(&e), &ae_text);
        }
    }
}

// ------------------------------------------------------------------ (b) a real Kanata, one site per configuration

#[derive(Clone, Copy, PartialEq, Debug)]
enum Expect {
    /// exactly press / repeat / release of the key itself
    Identity,
    /// the marker M1 is pressed and released, and nothing else is written
    OnlyM1,
    /// M1 is pressed
    M1,
    /// M1 is pressed not later than the given tick and M2 never
    M1By(u64),
    /// M2 is pressed, M1 never
    M2NotM1,
    /// the key itself is pressed
    Key,
    /// left shift is pressed, then the key itself while shift is down
    ShiftedKey,
    /// M1 is pressed, the key itself never
    M1NotKey,
}

struct Site {
    name: &'static str,
    /// needs N in an action position / as a macro item
    needs_action: bool,
    needs_macro: bool,
    expect: Expect,
}

const SITES: [Site; 15] = [
    Site { name: "defsrc-identity", needs_action: false, needs_macro: false, expect: Expect::Identity },
    Site { name: "deflayermap-input", needs_action: false, needs_macro: false, expect: Expect::OnlyM1 },
    Site { name: "macro", needs_action: true, needs_macro: true, expect: Expect::Key },
    Site { name: "mod-prefix", needs_action: false, needs_macro: false, expect: Expect::ShiftedKey },
    Site { name: "tap-hold-release-keys", needs_action: false, needs_macro: false, expect: Expect::M1By(45) },
    Site { name: "tap-hold-except-keys", needs_action: false, needs_macro: false, expect: Expect::M1By(45) },
    Site { name: "defchordsv2-participant", needs_action: false, needs_macro: false, expect: Expect::OnlyM1 },
    Site { name: "defseq-key", needs_action: true, needs_macro: false, expect: Expect::M1 },
    Site { name: "caps-word-custom-list", needs_action: false, needs_macro: false, expect: Expect::ShiftedKey },
    Site { name: "fork-trigger", needs_action: false, needs_macro: false, expect: Expect::M2NotM1 },
    Site { name: "switch-key", needs_action: false, needs_macro: false, expect: Expect::M2NotM1 },
    Site { name: "switch-input", needs_action: false, needs_macro: false, expect: Expect::M2NotM1 },
    Site { name: "defoverrides-input", needs_action: false, needs_macro: false, expect: Expect::M1NotKey },
    Site { name: "unmod", needs_action: false, needs_macro: false, expect: Expect::Key },
    Site { name: "one-shot", needs_action: true, needs_macro: false, expect: Expect::Key },
];

struct SiteRun {
    cfg: String,
    hist: Vec<Ev>,
    m1: String,
    m2: String,
}

/// configuration of site `si` with the key written as `n` (block `dl`), physical code `c`
fn site_run(si: usize, dl: &str, n: &str, shadowed: bool, c: u16, h: &[(&'static str, u16)], m: &[(&'static str, u16)], lsft: &str) -> SiteRun {
    let (h0, h1) = (h[0].0, h[1].0);
    let (c0, c1) = (h[0].1, h[1].1);
    let (m1, m2) = (m[0].0, m[1].0);
    // N mapped to itself (`_` over defsrc for the names that are action keywords)
    let own = if shadowed { "_" } else { n };
    let tap = |k: u16| vec![Ev::P(k), Ev::T(4), Ev::R(k), Ev::T(6)];
    let (body, hist): (String, Vec<Ev>) = match SITES[si].name {
        "defsrc-identity" => (
            format!("(defcfg process-unmapped-keys no)\n(defsrc {n} {h0})\n(deflayer l0 {own} {h0})\n"),
            vec![Ev::P(c), Ev::T(5), Ev::Rep(c), Ev::T(2), Ev::R(c), Ev::T(5)],
        ),
        "deflayermap-input" => (format!("(defcfg process-unmapped-keys no)\n(defsrc {h0})\n(deflayermap (l0) {n} {m1})\n"), [tap(c), vec![Ev::T(10)]].concat()),
        "macro" => (format!("(defcfg process-unmapped-keys no)\n(defsrc {h0})\n(deflayer l0 (macro {n}))\n"), [tap(c0), vec![Ev::T(60)]].concat()),
        "mod-prefix" => (format!("(defcfg process-unmapped-keys no)\n(defsrc {h0})\n(deflayer l0 S-{n})\n"), vec![Ev::P(c0), Ev::T(8), Ev::R(c0), Ev::T(10)]),
        "tap-hold-release-keys" | "tap-hold-except-keys" => (
            format!("(defcfg process-unmapped-keys no)\n(defsrc {n} {h0} {h1})\n(deflayer l0 XX ({} 500 500 {m1} {m2} ({n})) XX)\n", SITES[si].name),
            vec![Ev::P(c0), Ev::T(20), Ev::P(c), Ev::T(20), Ev::R(c), Ev::T(5), Ev::R(c0), Ev::T(600)],
        ),
        "defchordsv2-participant" => (
            format!("(defcfg process-unmapped-keys no concurrent-tap-hold yes)\n(defsrc {n} {h0})\n(deflayer l0 XX XX)\n(defchordsv2 ({n} {h0}) {m1} 200 all-released ())\n"),
            vec![Ev::P(c), Ev::T(5), Ev::P(c0), Ev::T(30), Ev::R(c), Ev::T(5), Ev::R(c0), Ev::T(300)],
        ),
        "defseq-key" => (
            format!("(defcfg process-unmapped-keys no sequence-input-mode hidden-suppressed)\n(defsrc {n} {h0} {h1})\n(deflayer l0 {own} {h0} sldr)\n(defvirtualkeys vk {m1})\n(defseq vk ({n} {h0}))\n"),
            [tap(c1), tap(c), tap(c0), vec![Ev::T(100)]].concat(),
        ),
        "caps-word-custom-list" => (
            format!("(defcfg process-unmapped-keys no)\n(defsrc {n} {h0})\n(deflayer l0 {own} (caps-word-custom 2000 ({n}) ({h1})))\n"),
            [tap(c0), vec![Ev::P(c), Ev::T(8), Ev::R(c), Ev::T(10)]].concat(),
        ),
        "fork-trigger" => (
            format!("(defcfg process-unmapped-keys no)\n(defsrc {n} {h0})\n(deflayer l0 {own} (fork {m1} {m2} ({n})))\n"),
            vec![Ev::P(c), Ev::T(8), Ev::P(c0), Ev::T(8), Ev::R(c0), Ev::T(8), Ev::R(c), Ev::T(10)],
        ),
        "switch-key" => (
            format!("(defcfg process-unmapped-keys no)\n(defsrc {n} {h0})\n(deflayer l0 {own} (switch ({n}) {m2} break () {m1} break))\n"),
            vec![Ev::P(c), Ev::T(8), Ev::P(c0), Ev::T(8), Ev::R(c0), Ev::T(8), Ev::R(c), Ev::T(10)],
        ),
        "switch-input" => (
            format!("(defcfg process-unmapped-keys no)\n(defsrc {n} {h0})\n(deflayer l0 {own} (switch ((input real {n})) {m2} break () {m1} break))\n"),
            vec![Ev::P(c), Ev::T(8), Ev::P(c0), Ev::T(8), Ev::R(c0), Ev::T(8), Ev::R(c), Ev::T(10)],
        ),
        "defoverrides-input" => (
            format!("(defcfg process-unmapped-keys no)\n(defsrc {n} {h0})\n(deflayer l0 {own} {h0})\n(defoverrides ({n}) ({m1}))\n"),
            vec![Ev::P(c), Ev::T(8), Ev::R(c), Ev::T(10)],
        ),
        "unmod" => (
            format!("(defcfg process-unmapped-keys no)\n(defsrc {h0} {h1})\n(deflayer l0 {lsft} (unmod {n}))\n"),
            vec![Ev::P(c0), Ev::T(8), Ev::P(c1), Ev::T(8), Ev::R(c1), Ev::T(8), Ev::R(c0), Ev::T(10)],
        ),
        _ => (
            // one-shot
            format!("(defcfg process-unmapped-keys no)\n(defsrc {h0} {h1})\n(deflayer l0 (one-shot 500 {n}) {h1})\n"),
            [tap(c0), tap(c1), vec![Ev::T(20)]].concat(),
        ),
    };
    SiteRun { cfg: format!("{dl}{body}"), hist, m1: key_name(m[0].1), m2: key_name(m[1].1) }
}

type Trace = Vec<(u64, OutKind, String)>;

fn effective(e: Expect, t: &Trace, key: &str, m1: &str, m2: &str) -> bool {
    let down = |n: &str| t.iter().position(|x| x.1 == OutKind::Down && x.2 == n);
    match e {
        Expect::Identity => {
            let v: Vec<(OutKind, &str)> = t.iter().map(|x| (x.1.clone(), x.2.as_str())).collect();
            v == vec![(OutKind::Down, key), (OutKind::Repeat, key), (OutKind::Up, key)]
        }
        Expect::OnlyM1 => {
            let v: Vec<(OutKind, &str)> = t.iter().map(|x| (x.1.clone(), x.2.as_str())).collect();
            v == vec![(OutKind::Down, m1), (OutKind::Up, m1)]
        }
        Expect::M1 => down(m1).is_some(),
        Expect::M1By(at) => down(m1).map(|p| t[p].0 <= at).unwrap_or(false) && down(m2).is_none(),
        Expect::M2NotM1 => down(m2).is_some() && down(m1).is_none(),
        Expect::Key => down(key).is_some(),
        Expect::ShiftedKey => match (down("LShift"), down(key)) {
            (Some(s), Some(k)) => {
                let shift_up = t.iter().position(|x| x.1 == OutKind::Up && x.2 == "LShift").unwrap_or(usize::MAX);
                s < k && k < shift_up
            }
            _ => false,
        },
        Expect::M1NotKey => down(m1).is_some() && down(key).is_none(),
    }
}

fn run_trace(cfg: &str, h: &[Ev]) -> Result<(Trace, bool), String> {
    let mut sim = Sim::new(cfg)?;
    sim.run(h);
    let t: Trace = sim.normalized().into_iter().map(|o| (o.at, o.kind, o.name)).collect();
    Ok((t, sim.os.all_up()))
}

fn short(t: &Trace) -> Vec<String> {
    t.iter().map(|x| format!("{:?}:{}@{}", x.1, x.2, x.0)).collect()
}

/// all sites for entry 0 of `rd` on a real Kanata
fn judge_sim(out: &mut CaseOut, rd: &Redef) {
    let (n, c) = (rd.entries[0].0.clone(), rd.entries[0].1);
    let Some(b) = builtin(&n) else { return };
    let (Some(h), Some(m)) = (rd.helpers(&HELPER_POOL, 2), rd.helpers(&MARKER_POOL, 2)) else {
        out.inc("local_sim_no_helpers_skipped");
        return;
    };
    let fresh = rd.fresh();
    let key = key_name(c);
    let shadowed = action_shadowed(&n);
    let lsft = name_for(rd, 42).unwrap_or("lsft");
    out.inc("local_sim_names");
    for (si, site) in SITES.iter().enumerate() {
        if (site.needs_action && shadowed) || (site.needs_macro && is_numeric(&n)) || (site.name == "mod-prefix" && prefix_ambiguous(&n)) {
            out.inc("local_sim_site_skipped_name_is_action_keyword_number_or_prefix");
            continue;
        }
        let test = site_run(si, &rd.text(), &n, shadowed, c, &h, &m, lsft);
        let refr = site_run(si, &fresh.text(), &fresh.entries[0].0, shadowed, c, &h, &m, lsft);
        let bad = |out: &mut CaseOut, cls: &str, what: String, observed: Value, expected: Value| {
            out.violate(
                format!("C11:localname:sim:{}:{cls}", site.name),
                what,
                json!({"config": test.cfg, "history": render_hist(&test.hist), "observed": observed, "expected": expected, "name": n, "builtin_code": b, "bound_to": c, "reference_config": refr.cfg}),
            );
        };
        let r_ref = run_trace(&refr.cfg, &refr.hist);
        let r_test = run_trace(&test.cfg, &test.hist);
        reset_names();
        out.inc("local_sim_runs");
        out.inc(&format!("local_sim_site_{}", site.name));
        let (t_ref, up_ref) = match r_ref {
            Ok(x) => x,
            Err(e) => {
                // the site configuration itself is not accepted with a brand-new name: nothing to compare with
                out.violate(
                    format!("C11:localname:sim:{}:reference-rejected", site.name),
                    format!("site configuration with the brand-new name {} bound to {c} rejected", fresh.entries[0].0),
                    json!({"config": refr.cfg, "history": render_hist(&refr.hist), "observed": e.lines().take(8).collect::<Vec<_>>().join(" | "), "expected": "accepted"}),
                );
                continue;
            }
        };
        let (t_test, up_test) = match r_test {
            Ok(x) => x,
            Err(e) => {
                bad(out, "config-rejected", format!("\"{n}\" bound to {c}: configuration rejected although it is accepted with a brand-new name"), json!(e.lines().take(8).collect::<Vec<_>>().join(" | ")), json!("accepted"));
                continue;
            }
        };
        let eff_ref = effective(site.expect, &t_ref, &key, &test.m1, &test.m2);
        let eff_test = effective(site.expect, &t_test, &key, &test.m1, &test.m2);
        if eff_ref {
            out.inc("local_sim_reference_reacted_to_the_code");
        }
        if !eff_ref {
            bad(out, "reference-not-effective", format!("with the brand-new name bound to {c} the site does not react to code {c} as documented ({:?})", site.expect), json!(short(&t_ref)), json!(format!("{:?} for key {key}, markers {} {}", site.expect, test.m1, test.m2)));
        } else if !eff_test {
            bad(
                out,
                "does-not-react-to-the-bound-code",
                format!("\"{n}\" (built-in code {b}) bound to {c}: the site does not react to the physical key {c} ({:?}); it does with a brand-new name for {c}", site.expect),
                json!(short(&t_test)),
                json!(short(&t_ref)),
            );
        } else if t_test != t_ref || up_test != up_ref {
            bad(out, "differs-from-brand-new-name", format!("\"{n}\" bound to {c}: OS stream differs from the one with a brand-new name for {c}"), json!(short(&t_test)), json!(short(&t_ref)));
        } else {
            out.inc("local_sim_same_as_brand_new_name");
            out.inc(&format!("local_sim_ok_{}", site.name));
        }
    }
}

/// every entry of the block in one defsrc, each mapped to itself; each physical code pressed
fn judge_sim_block(out: &mut CaseOut, rd: &Redef) {
    // distinct plain codes only
    let mut seen = BTreeSet::new();
    let es: Vec<&(String, u16)> = rd.entries.iter().filter(|e| tables().plain_codes.contains(&e.1) && seen.insert(e.1)).collect();
    if es.is_empty() {
        return;
    }
    let fresh = rd.fresh();
    let build = |r: &Redef| -> String {
        let mut s = r.text();
        s.push_str("(defcfg process-unmapped-keys no)\n(defsrc");
        for e in &es {
            let i = rd.entries.iter().position(|x| x.0 == e.0).unwrap_or(0);
            s.push_str(&format!(" {}", r.entries[i].0));
        }
        s.push_str(")\n(deflayer l0");
        for e in &es {
            let i = rd.entries.iter().position(|x| x.0 == e.0).unwrap_or(0);
            if action_shadowed(&r.entries[i].0) {
                s.push_str(" _");
            } else {
                s.push_str(&format!(" {}", r.entries[i].0));
            }
        }
        s.push_str(")\n");
        s
    };
    let mut h = vec![];
    let mut exp: Vec<(OutKind, String)> = vec![];
    for e in &es {
        h.extend([Ev::P(e.1), Ev::T(5), Ev::R(e.1), Ev::T(5)]);
        exp.push((OutKind::Down, key_name(e.1)));
        exp.push((OutKind::Up, key_name(e.1)));
    }
    let (cfg_t, cfg_r) = (build(rd), build(&fresh));
    let rt = run_trace(&cfg_t, &h);
    let rr = run_trace(&cfg_r, &h);
    reset_names();
    out.inc("local_sim_block_runs");
    let strip = |t: &Trace| -> Vec<(OutKind, String)> { t.iter().map(|x| (x.1.clone(), x.2.clone())).collect() };
    match (rt, rr) {
        (Ok((t, _)), Ok((r, _))) => {
            if strip(&r) != exp {
                out.violate(
                    "C11:localname:sim:block-identity:reference-not-effective",
                    "brand-new names mapped to themselves do not come out as themselves",
                    json!({"config": cfg_r, "history": render_hist(&h), "observed": short(&r), "expected": format!("{exp:?}")}),
                );
            } else if strip(&t) != exp || t != r {
                out.violate(
                    "C11:localname:sim:block-identity:different-code",
                    format!("deflocalkeys-linux {:?}: the names mapped to themselves in defsrc / deflayer do not come out as the bound codes", rd.entries),
                    json!({"config": cfg_t, "history": render_hist(&h), "observed": short(&t), "expected": format!("{exp:?}"), "deflocalkeys": rd.entries}),
                );
            } else {
                out.inc("local_sim_block_ok");
                out.count("local_sim_block_keys_came_out_as_bound_code", es.len() as u64);
            }
        }
        (Err(e), Ok(_)) => out.violate(
            "C11:localname:sim:block-identity:config-rejected",
            "block of redefined built-in names rejected although accepted with brand-new names",
            json!({"config": cfg_t, "history": "(parse only)", "observed": e.lines().take(8).collect::<Vec<_>>().join(" | "), "expected": "accepted"}),
        ),
        (_, Err(e)) => out.violate(
            "C11:localname:sim:block-identity:reference-rejected",
            "block of brand-new names rejected",
            json!({"config": cfg_r, "history": "(parse only)", "observed": e.lines().take(8).collect::<Vec<_>>().join(" | "), "expected": "accepted"}),
        ),
    }
}

// ------------------------------------------------------------------ workload

const STRUCT_NAMES_PER_CASE: usize = 8;
const SIM_NAMES_PER_CASE: usize = 4;

fn n_struct_cases() -> u64 {
    ((tables().names.len() + STRUCT_NAMES_PER_CASE - 1) / STRUCT_NAMES_PER_CASE) as u64
}
fn n_sim_cases() -> u64 {
    ((tables().names.len() + SIM_NAMES_PER_CASE - 1) / SIM_NAMES_PER_CASE) as u64
}
fn n_random_cases(ctx: &Ctx) -> u64 {
    ctx.tier.sel(150, 2_500)
}
pub fn n_cases(ctx: &Ctx) -> u64 {
    n_struct_cases() + n_sim_cases() + n_random_cases(ctx)
}

/// the `k`-th systematic target code of `name` out of `pool`, never the code the name has anyway
fn target(name: &str, b: u16, pool: &[u16], k: u64) -> u16 {
    let start = (hash_str(&format!("{name}#{k}")) % pool.len() as u64) as usize;
    for i in 0..pool.len() {
        let c = pool[(start + i) % pool.len()];
        if c != b {
            return c;
        }
    }
    pool[start]
}

fn struct_redefs(idx: u64) -> Vec<Redef> {
    let t = tables();
    let mut v = vec![];
    for (n, b) in t.names.iter().skip(idx as usize * STRUCT_NAMES_PER_CASE).take(STRUCT_NAMES_PER_CASE) {
        v.push(Redef { entries: vec![(n.to_string(), target(n, *b, &t.named_codes, 0))] });
        v.push(Redef { entries: vec![(n.to_string(), target(n, *b, &t.unnamed_codes, 1))] });
    }
    v
}

fn sim_redefs(ctx: &Ctx, idx: u64) -> Vec<Redef> {
    let t = tables();
    let mut v = vec![];
    for (n, b) in t.names.iter().skip(idx as usize * SIM_NAMES_PER_CASE).take(SIM_NAMES_PER_CASE) {
        for k in 0..ctx.tier.sel(1u64, 3) {
            v.push(Redef { entries: vec![(n.to_string(), target(n, *b, &t.plain_codes, 10 + k))] });
        }
    }
    v
}

/// seeded blocks of 1..4 redefined built-in names
fn random_redefs(ctx: &Ctx, idx: u64) -> Vec<(Redef, &'static str)> {
    let t = tables();
    let mut rng = Rng::for_case(ctx.seed, "C11", "localnames", idx);
    let mut v = vec![];
    for _ in 0..3 {
        let pick_name = |rng: &mut Rng, taken: &Vec<(String, u16)>| -> (&'static str, u16) {
            loop {
                let x = *rng.pick(&t.names);
                if !taken.iter().any(|e| e.0 == x.0) {
                    return x;
                }
            }
        };
        let any_code = |rng: &mut Rng| -> u16 {
            match rng.usize(3) {
                0 => *rng.pick(&t.unnamed_codes),
                1 => *rng.pick(&t.plain_codes),
                _ => *rng.pick(&t.named_codes),
            }
        };
        let mut entries: Vec<(String, u16)> = vec![];
        let kind: &'static str = match rng.usize(5) {
            0 => {
                // the QWERTZ swap: two names exchange their codes
                let a = pick_name(&mut rng, &entries);
                entries.push((a.0.to_string(), 0));
                let b = loop {
                    let b = pick_name(&mut rng, &entries);
                    if b.1 != a.1 && t.named_codes.contains(&b.1) && t.named_codes.contains(&a.1) {
                        break Some(b);
                    }
                    if rng.chance(1, 50) {
                        break None;
                    }
                };
                match b {
                    Some(b) => {
                        entries[0].1 = b.1;
                        entries.push((b.0.to_string(), a.1));
                        "swap"
                    }
                    None => {
                        entries[0].1 = any_code(&mut rng);
                        "single"
                    }
                }
            }
            1 => {
                // rotation of three
                let mut ns: Vec<(&'static str, u16)> = vec![];
                let mut guard = 0;
                while ns.len() < 3 && guard < 200 {
                    guard += 1;
                    let x = *rng.pick(&t.names);
                    if t.named_codes.contains(&x.1) && !ns.iter().any(|y| y.0 == x.0 || y.1 == x.1) {
                        ns.push(x);
                    }
                }
                for i in 0..ns.len() {
                    entries.push((ns[i].0.to_string(), ns[(i + 1) % ns.len()].1));
                }
                "rotation"
            }
            2 => {
                let a = pick_name(&mut rng, &entries);
                entries.push((a.0.to_string(), any_code(&mut rng)));
                "single"
            }
            3 => {
                // two names for one code
                let c = any_code(&mut rng);
                for _ in 0..2 {
                    let a = pick_name(&mut rng, &entries);
                    entries.push((a.0.to_string(), c));
                }
                "two-names-one-code"
            }
            _ => {
                let k = rng.range(2, 4) as usize;
                for _ in 0..k {
                    let a = pick_name(&mut rng, &entries);
                    entries.push((a.0.to_string(), any_code(&mut rng)));
                }
                // and sometimes a brand-new name among them
                if rng.coin() {
                    let c = any_code(&mut rng);
                    let at = rng.usize(entries.len() + 1);
                    entries.insert(at, (format!("zz{c}"), c));
                }
                "independent"
            }
        };
        v.push((Redef { entries }, kind));
    }
    v
}

pub fn describe(ctx: &Ctx, idx: u64) -> Value {
    let (a, b) = (n_struct_cases(), n_sim_cases());
    if idx < a {
        json!({"part": "local names (parsed configuration)", "deflocalkeys": struct_redefs(idx).iter().map(|r| r.text()).collect::<Vec<_>>()})
    } else if idx < a + b {
        json!({"part": "local names (real Kanata, one site per configuration)", "deflocalkeys": sim_redefs(ctx, idx - a).iter().map(|r| r.text()).collect::<Vec<_>>()})
    } else {
        json!({"part": "local names (seeded blocks)", "deflocalkeys": random_redefs(ctx, idx - a - b).iter().map(|r| format!("{}: {}", r.1, r.0.text())).collect::<Vec<_>>()})
    }
}

pub fn run_case(out: &mut CaseOut, ctx: &Ctx, idx: u64) {
    let (a, b) = (n_struct_cases(), n_sim_cases());
    reset_names();
    if idx < a {
        for rd in struct_redefs(idx) {
            out.inc("local_struct_names_x_codes");
            out.tag(format!("local:{}", rd.entries[0].0));
            judge_struct(out, &rd, 0, "single-systematic");
        }
        if idx == 0 {
            if let Some(sc) = struct_redefs(0).first().and_then(|r| struct_config(r, 0)) {
                out.sample = Some(json!({"part": "local names (parsed configuration)", "config": sc.text}));
            }
        }
    } else if idx < a + b {
        for rd in sim_redefs(ctx, idx - a) {
            out.tag(format!("local-sim:{}", rd.entries[0].0));
            judge_sim(out, &rd);
        }
    } else {
        for (rd, kind) in random_redefs(ctx, idx - a - b) {
            out.inc("local_random_blocks");
            out.inc(&format!("local_random_kind_{kind}"));
            out.tag(format!("local-block:{kind}:{}", rd.entries.len()));
            for pi in 0..rd.entries.len() {
                if builtin(&rd.entries[pi].0).is_some() {
                    judge_struct(out, &rd, pi, kind);
                }
            }
            judge_sim_block(out, &rd);
        }
    }
    reset_names();
}

pub fn floors(ctx: &Ctx) -> Vec<(&'static str, u64)> {
    let q = ctx.tier == crate::core::Tier::Quick;
    vec![
        ("local_struct_names_x_codes", 1_000),
        ("local_struct_configs", if q { 1_500 } else { 10_000 }),
        ("local_struct_name_moved_to_another_code", if q { 1_400 } else { 9_000 }),
        ("local_ok_str_to_oscode", 1_400),
        ("local_ok_defsrc", 1_400),
        ("local_ok_action", 1_300),
        ("local_ok_deflayermap_input", 1_400),
        ("local_ok_fork", 1_400),
        ("local_ok_switch-key", 1_400),
        ("local_ok_switch-key-history", 1_400),
        ("local_ok_switch-input", 1_400),
        ("local_ok_unmod", 1_400),
        ("local_ok_mod-prefix", 1_400),
        ("local_ok_multi", 1_300),
        ("local_ok_tap-hold", 1_300),
        ("local_ok_one-shot", 1_300),
        ("local_ok_defvar", 1_300),
        ("local_ok_release-key", 1_300),
        ("local_ok_macro", 1_200),
        ("local_ok_override_input", 1_400),
        ("local_ok_override_output", 1_400),
        ("local_ok_all_except", 1_400),
        ("local_ok_bystander_alias-of-shadowed-code", 800),
        ("local_ok_bystander_name-of-target-code", 500),
        ("local_ok_bystander_other-local-name", if q { 150 } else { 2_500 }),
        ("local_ok_bystander_unrelated-name", 1_400),
        ("local_sim_names", if q { 500 } else { 1_500 }),
        ("local_sim_runs", if q { 7_000 } else { 21_000 }),
        ("local_sim_reference_reacted_to_the_code", if q { 7_000 } else { 21_000 }),
        ("local_sim_same_as_brand_new_name", if q { 7_000 } else { 21_000 }),
        ("local_sim_ok_defsrc-identity", 500),
        ("local_sim_ok_deflayermap-input", 500),
        ("local_sim_ok_macro", 450),
        ("local_sim_ok_mod-prefix", 350),
        ("local_sim_ok_tap-hold-release-keys", 500),
        ("local_sim_ok_tap-hold-except-keys", 500),
        ("local_sim_ok_defchordsv2-participant", 500),
        ("local_sim_ok_defseq-key", 500),
        ("local_sim_ok_caps-word-custom-list", 500),
        ("local_sim_ok_fork-trigger", 500),
        ("local_sim_ok_switch-key", 500),
        ("local_sim_ok_switch-input", 500),
        ("local_sim_ok_defoverrides-input", 500),
        ("local_sim_ok_unmod", 500),
        ("local_sim_ok_one-shot", 480),
        ("local_random_blocks", if q { 450 } else { 7_500 }),
        ("local_random_kind_swap", if q { 50 } else { 1_000 }),
        ("local_random_kind_rotation", if q { 50 } else { 1_000 }),
        ("local_random_kind_two-names-one-code", if q { 50 } else { 1_000 }),
        ("local_random_kind_independent", if q { 50 } else { 1_000 }),
        ("local_sim_block_ok", if q { 150 } else { 2_500 }),
    ]
}
