//! C10 end-to-end observation point: drive a real Kanata into a state, press the switch / fork
//! key, read the witness keys at the OS.

use super::model::*;
use super::WITNESS;
use crate::core::rng::Rng;
use crate::core::sim::{code_name, osc, render_hist, Ev, OutKind, Sim};
use crate::core::{CaseOut, Ctx};
use serde_json::{json, Value};

const PLAIN: &[&str] = &["a", "b", "c", "d", "e"];
const NVK: usize = 3;
const NOPS: &[&str] = &["nop0", "nop1", "nop2"];
// physical keys with special roles
const K_SWITCH: &str = "s";
const K_FORK: &str = "f";
const K_HOLD1: &str = "l"; // layer-while-held l1
const K_HOLD2: &str = "o"; // layer-while-held l2
const K_BASE: [&str; 3] = ["k", "m", "n"]; // layer-switch l0 / l1 / l2

/// universe for e2e expressions: keys = PLAIN + nops (as output keys) + s, l, o (only for input /
/// input-history as far as allowed)
pub(super) fn universe() -> U {
    let mut keys: Vec<(String, u16)> = PLAIN.iter().map(|n| (n.to_string(), osc(n))).collect();
    for n in NOPS {
        keys.push((n.to_string(), osc(n)));
    }
    keys.push((K_HOLD1.into(), osc(K_HOLD1))); // index 8
    keys.push((K_HOLD2.into(), osc(K_HOLD2))); // index 9
    keys.push((K_SWITCH.into(), osc(K_SWITCH))); // index 10
    U { keys, vkeys: (0..NVK).map(|i| format!("vk{i}")).collect(), layers: vec!["l0".into(), "l1".into(), "l2".into()] }
}
const IDX_HOLD1: usize = 8;
const IDX_SWITCH: usize = 10;

#[derive(Clone, Debug)]
pub(super) enum Fk {
    W(usize),
    Fork(Box<Fk>, Box<Fk>, Vec<usize>),
}

pub(super) fn render_fk(f: &Fk, u: &U, s: &mut String) {
    match f {
        Fk::W(i) => s.push_str(WITNESS[*i]),
        Fk::Fork(l, r, t) => {
            s.push_str("(fork ");
            render_fk(l, u, s);
            s.push(' ');
            render_fk(r, u, s);
            s.push_str(" (");
            for (i, k) in t.iter().enumerate() {
                if i > 0 {
                    s.push(' ');
                }
                s.push_str(&u.keys[*k].0);
            }
            s.push_str("))");
        }
    }
}

pub(super) fn eval_fk(f: &Fk, u: &U, active: &[u16]) -> usize {
    match f {
        Fk::W(i) => *i,
        Fk::Fork(l, r, t) => {
            if t.iter().any(|k| active.contains(&u.keys[*k].1)) {
                eval_fk(r, u, active)
            } else {
                eval_fk(l, u, active)
            }
        }
    }
}

pub(super) struct Scenario {
    pub cfg: String,
    pub u: U,
    /// switch cases: condition, action, break
    pub cases: Vec<(Vec<E>, Fk, bool)>,
    pub fork: Fk,
    /// events before the final key
    pub pre: Vec<Ev>,
    pub final_is_fork: bool,
    pub class: String,
}

fn gen_fork(rng: &mut Rng, next_w: &mut usize, depth: usize) -> Fk {
    if depth == 0 || rng.chance(1, 3) {
        let w = *next_w;
        *next_w += 1;
        return Fk::W(w);
    }
    let l = gen_fork(rng, next_w, depth - 1);
    let r = gen_fork(rng, next_w, depth - 1);
    // triggers: plain keys and nop keys (indices 0..8 of the universe)
    let n = 1 + rng.usize(3);
    let t: Vec<usize> = (0..n).map(|_| rng.usize(8)).collect();
    Fk::Fork(Box::new(l), Box::new(r), t)
}

/// replace leaves the end-to-end model does not cover
fn restrict(e: &mut E, rng: &mut Rng) {
    match e {
        E::Or(v) | E::And(v) | E::Not(v) => v.iter_mut().for_each(|x| restrict(x, rng)),
        // bare keys / key-history: only keys that can be output keys here
        E::Key(k) | E::KeyHist(k, _) => {
            if *k >= 8 {
                *k = rng.usize(8);
            }
        }
        // active input: plain keys, nop names are not inputs, hold keys ok, the switch key is not asked
        E::Input(Inp::Real(k)) => {
            if (5..8).contains(k) || *k == IDX_SWITCH {
                *k = rng.usize(5);
            }
        }
        E::InputHist(Inp::Real(k), _) => {
            if (5..8).contains(k) {
                *k = rng.usize(5);
            }
        }
        _ => {}
    }
}

/// thresholds used when history entries get very old: small ones (a wrapped age counter falls
/// below them again), the compression edges, and the top of the u16 range
pub(super) const LONG_T: &[u16] = &[
    0, 1, 5, 50, 200, 255, 256, 1000, 2303, 2304, 5000, 10000, 30000, 32767, 32768, 40000, 60000, 65407, 65408, 65534, 65535,
];

/// the written configuration of an end-to-end scenario
pub(super) fn build_cfg(u: &U, cases: &[(Vec<E>, Fk, bool)], fork: &Fk) -> String {
    let mut s = String::from("(defcfg process-unmapped-keys yes)\n(defvirtualkeys");
    for i in 0..NVK {
        s.push_str(&format!(" vk{i} {}", NOPS[i]));
    }
    s.push_str(")\n(defsrc a b c d e s f l o k m n)\n");
    for l in ["l0", "l1", "l2"] {
        s.push_str(&format!("(deflayer {l} a b c d e @sw @fk (layer-while-held l1) (layer-while-held l2) (layer-switch l0) (layer-switch l1) (layer-switch l2))\n"));
    }
    s.push_str("(defalias\n sw (switch\n");
    for (items, act, brk) in cases {
        s.push_str("  ");
        s.push_str(&render_top(items, u));
        s.push(' ');
        render_fk(act, u, &mut s);
        s.push_str(if *brk { " break\n" } else { " fallthrough\n" });
    }
    s.push_str(" )\n fk ");
    render_fk(fork, u, &mut s);
    s.push_str("\n)\n");
    s
}

/// key-timing leaves with their comparison: (recency, lt?, threshold)
pub(super) fn timing_leaves(e: &E, out: &mut Vec<(u8, bool, u16)>) {
    match e {
        E::Or(v) | E::And(v) | E::Not(v) => v.iter().for_each(|x| timing_leaves(x, out)),
        E::Timing(r, lt, t) => out.push((*r, *lt, *t)),
        _ => {}
    }
}
fn hist_leaves(e: &E, kh: &mut Vec<u8>, ih: &mut Vec<u8>) {
    match e {
        E::Or(v) | E::And(v) | E::Not(v) => v.iter().for_each(|x| hist_leaves(x, kh, ih)),
        E::KeyHist(_, r) => kh.push(*r),
        E::InputHist(_, r) => ih.push(*r),
        _ => {}
    }
}

/// `long`: the "very old history" family - one or two of the gaps of the history are longer than
/// the range of the u16 age counters (65535 ticks), placed anywhere in the history, aimed so that
/// the entry a key-timing leaf refers to has an age just below / at / above 65536*k + threshold.
fn make(ctx: &Ctx, r: u64, long: bool) -> Scenario {
    let mut rng = Rng::for_case(ctx.seed, "C10", if long { "e2e-long" } else { "e2e" }, r);
    let u = universe();
    let final_is_fork = !long && r % 3 == 2;
    let over8 = !long && r % 3 == 1 && r % 9 == 1;
    let timing_pool: Vec<u16> =
        if long { LONG_T.to_vec() } else { vec![0, 1, 2, 3, 5, 10, 50, 255, 256, 262, 263, 264, 300, 2303, 2304, 2431, 2432] };
    let o = GenOpts { max_depth: 8, leaf_w: if long { [3, 5, 10, 2, 5, 2, 2] } else { [6, 4, 4, 4, 4, 3, 3] }, timing_pool, max_arity: 3 };
    let mut next_w = 0usize;
    let mut cases = vec![];
    let ncases = if over8 { rng.range(10, 14) } else { rng.range(1, 8) } as usize;
    for _ in 0..ncases {
        let nitems = if over8 && rng.chance(2, 3) { 0 } else { *rng.pick_weighted(&[(1u32, 0usize), (6, 1), (3, 2), (1, 3)]) };
        let mut items = vec![];
        for _ in 0..nitems {
            let mut budget = *rng.pick(&[4i64, 10, 25]);
            let mut e = if rng.chance(1, 8) { gen_deep(&mut rng, &u, &o, 1, &mut budget) } else { gen_expr(&mut rng, &u, &o, 1, &mut budget) };
            restrict(&mut e, &mut rng);
            items.push(e);
        }
        let act = if !over8 && rng.chance(1, 5) { gen_fork(&mut rng, &mut next_w, 1) } else { gen_fork(&mut rng, &mut next_w, 0) };
        let brk = if over8 { rng.chance(1, 20) } else { rng.chance(1, 3) };
        cases.push((items, act, brk));
    }
    let fork = gen_fork(&mut rng, &mut next_w, 2);
    let fork = if let Fk::W(_) = fork { Fk::Fork(Box::new(fork), Box::new(Fk::W(next_w)), vec![rng.usize(8)]) } else { fork };

    let s = build_cfg(&u, &cases, &fork);

    // pre-events
    let mut pre = vec![];
    let mut held: Vec<&str> = vec![];
    let mut vheld: Vec<usize> = vec![];
    let nsteps = rng.range(0, 12);
    let small_gaps: &[u32] = &[1, 1, 2, 3, 5, 8];
    for _ in 0..nsteps {
        match rng.usize(12) {
            0..=4 => {
                let ups: Vec<&str> = PLAIN.iter().copied().filter(|k| !held.contains(k)).collect();
                if let Some(k) = ups.get(rng.usize(ups.len().max(1))) {
                    held.push(k);
                    pre.push(Ev::P(osc(k)));
                }
            }
            5 | 6 => {
                let hs: Vec<&str> = held.iter().copied().filter(|k| PLAIN.contains(k)).collect();
                if !hs.is_empty() {
                    let k = hs[rng.usize(hs.len())];
                    held.retain(|x| *x != k);
                    pre.push(Ev::R(osc(k)));
                }
            }
            7 | 8 => {
                let v = rng.usize(NVK);
                if vheld.contains(&v) {
                    vheld.retain(|x| *x != v);
                    pre.push(Ev::Fk(format!("vk{v}"), 'r'));
                } else {
                    vheld.push(v);
                    pre.push(Ev::Fk(format!("vk{v}"), 'p'));
                }
            }
            9 => {
                let k = if rng.coin() { K_HOLD1 } else { K_HOLD2 };
                if held.contains(&k) {
                    held.retain(|x| *x != k);
                    pre.push(Ev::R(osc(k)));
                } else {
                    held.push(k);
                    pre.push(Ev::P(osc(k)));
                }
            }
            _ => {
                let k = K_BASE[rng.usize(3)];
                pre.push(Ev::P(osc(k)));
                pre.push(Ev::T(*rng.pick(small_gaps)));
                pre.push(Ev::R(osc(k)));
            }
        }
        pre.push(Ev::T(*rng.pick(small_gaps)));
    }
    // final gap: aim at a timing edge of the switch if there is one
    let mut ts = vec![];
    for c in &cases {
        for it in &c.0 {
            timings(it, &mut ts);
        }
    }
    let mut final_gap: u32 = *rng.pick(&[1u32, 1, 2, 3, 5, 10, 50, 255, 256, 264]);
    if !long && !final_is_fork && !ts.is_empty() && rng.chance(3, 4) {
        let (rec, t) = ts[rng.usize(ts.len())];
        // arrival offsets (relative to the end of `pre`) of key-history pushes, most recent first
        let mut back = 0u32;
        let mut pushes = vec![];
        for e in pre.iter().rev() {
            match e {
                Ev::T(n) => back += n,
                Ev::P(c) if PLAIN.iter().any(|k| osc(k) == *c) => pushes.push(back),
                Ev::Fk(_, 'p') => pushes.push(back),
                _ => {}
            }
        }
        if let Some(b) = pushes.get(rec as usize - 1) {
            let want = q(t) as i64 + rng.range(0, 1) as i64 - *b as i64;
            if want >= 1 && want < 3000 {
                final_gap = want as u32;
            }
        }
    }
    // the trailing gap of `pre` plus final_gap separate the last event from the final key
    pre.push(Ev::T(final_gap));
    if long {
        place_long_gaps(&mut rng, &mut pre, &cases);
    }
    let class = format!(
        "{}:{}:held{}:v{}:{}",
        if long {
            "switch-long"
        } else if final_is_fork {
            "fork"
        } else {
            "switch"
        },
        if over8 { "over8" } else { "le8" },
        held.len(),
        vheld.len(),
        cases.len()
    );
    Scenario { cfg: s, u, cases, fork, pre, final_is_fork, class }
}

/// is this event a push onto the key history (an output key press) in the scenarios generated here?
fn is_key_push(e: &Ev) -> bool {
    match e {
        Ev::P(c) => PLAIN.iter().any(|k| osc(k) == *c),
        Ev::Fk(_, 'p') => true,
        _ => false,
    }
}

/// Replace one (sometimes two) of the gaps of `pre` by a gap longer than the u16 range.
fn place_long_gaps(rng: &mut Rng, pre: &mut Vec<Ev>, cases: &[(Vec<E>, Fk, bool)]) {
    let tpos: Vec<usize> = pre.iter().enumerate().filter(|(_, e)| matches!(e, Ev::T(_))).map(|(i, _)| i).collect();
    let pushes: Vec<usize> = pre.iter().enumerate().filter(|(_, e)| is_key_push(e)).map(|(i, _)| i).collect();
    let mut leaves = vec![];
    for c in cases {
        for it in &c.0 {
            timing_leaves(it, &mut leaves);
        }
    }
    let general: &[u32] = &[65_530, 65_534, 65_535, 65_536, 65_537, 65_540, 65_545, 65_600, 66_000, 70_000, 100_000, 131_072, 131_080, 140_000];
    let mut first = None;
    if !leaves.is_empty() && !pushes.is_empty() && rng.chance(5, 6) {
        let (rec, _, t) = leaves[rng.usize(leaves.len())];
        // if the history is shorter than the recency asked for, aim at the oldest entry
        let rec = (rec as usize).min(pushes.len());
        let pi = pushes[pushes.len() - rec];
        let after: Vec<usize> = tpos.iter().copied().filter(|i| *i > pi).collect();
        if !after.is_empty() {
            let gp = after[rng.usize(after.len())];
            let other: u64 = after.iter().filter(|i| **i != gp).map(|i| if let Ev::T(n) = &pre[*i] { *n as u64 } else { 0 }).sum();
            let qt = q(t) as u64;
            let want_age: u64 = if rng.chance(1, 4) {
                65_530 + rng.below(16)
            } else {
                let k = *rng.pick(&[1u64, 1, 1, 1, 2, 3]);
                let d = match rng.usize(7) {
                    0 => qt.saturating_sub(1),
                    1 => qt,
                    2 => qt + 1,
                    3 => rng.below(10),
                    4 => rng.below(3000),
                    5 => qt / 2,
                    _ => rng.below(65_536),
                };
                k * 65_536 + d.min(65_535)
            };
            let l = want_age.saturating_sub(other).max(1);
            pre[gp] = Ev::T(l as u32);
            first = Some(gp);
        }
    }
    if first.is_none() && !tpos.is_empty() {
        let gp = tpos[rng.usize(tpos.len())];
        pre[gp] = Ev::T(*rng.pick(general));
        first = Some(gp);
    }
    if rng.chance(1, 4) && tpos.len() > 1 {
        let gp = tpos[rng.usize(tpos.len())];
        if Some(gp) != first {
            pre[gp] = Ev::T(*rng.pick(general));
        }
    }
}

pub fn describe(ctx: &Ctx, r: u64) -> Value {
    describe_mode(ctx, r, false)
}
pub fn describe_long(ctx: &Ctx, r: u64) -> Value {
    describe_mode(ctx, r, true)
}
fn describe_mode(ctx: &Ctx, r: u64, long: bool) -> Value {
    let sc = make(ctx, r, long);
    json!({"part": "e2e", "config": sc.cfg, "history": render_hist(&sc.pre), "final_key": if sc.final_is_fork { K_FORK } else { K_SWITCH }})
}

/// state at the moment the final key (arriving at `t_final`) is processed, from the input history alone
/// true (unsaturated) ages of the modelled history entries, most recent first
#[derive(Clone, Debug, Default)]
pub(super) struct TrueAges {
    pub hk: Vec<u64>,
    pub hi: Vec<u64>,
    /// longest single gap of the history
    pub longest_gap: u64,
}

fn model_state(sc: &Scenario, vk_idx: &[u16], final_code: u16) -> (St, TrueAges) {
    let u = &sc.u;
    let mut now = 0u64;
    // (name-or-vk, arrival) in press order
    let mut held_plain: Vec<u16> = vec![];
    let mut held_v: Vec<usize> = vec![];
    let mut held_layers: Vec<(u16, u16)> = vec![]; // (key code, layer)
    let mut base = 0u16;
    let mut hk: Vec<(u16, u64)> = vec![];
    let mut hi: Vec<((u8, u16), u64)> = vec![];
    let plain_codes: Vec<u16> = PLAIN.iter().map(|k| osc(k)).collect();
    for e in &sc.pre {
        match e {
            Ev::T(n) => now += *n as u64,
            Ev::P(c) => {
                hi.push(((0, *c), now));
                if plain_codes.contains(c) {
                    held_plain.push(*c);
                    hk.push((*c, now));
                } else if *c == osc(K_HOLD1) {
                    held_layers.push((*c, 1));
                } else if *c == osc(K_HOLD2) {
                    held_layers.push((*c, 2));
                } else {
                    for (i, k) in K_BASE.iter().enumerate() {
                        if *c == osc(k) {
                            base = i as u16;
                        }
                    }
                }
            }
            Ev::R(c) => {
                held_plain.retain(|x| x != c);
                held_layers.retain(|x| x.0 != *c);
            }
            Ev::Fk(n, a) => {
                let v: usize = n[2..].parse().unwrap_or(0);
                if *a == 'p' {
                    held_v.push(v);
                    hi.push(((1, vk_idx[v]), now));
                    hk.push((osc(NOPS[v]), now));
                } else {
                    held_v.retain(|x| *x != v);
                }
            }
            _ => {}
        }
    }
    hi.push(((0, final_code), now));
    let mut st = St::default();
    st.active = held_plain.clone();
    st.active.extend(held_v.iter().map(|v| osc(NOPS[*v])));
    st.coords = held_plain.iter().map(|c| (0u8, *c)).collect();
    st.coords.extend(held_layers.iter().map(|(c, _)| (0u8, *c)));
    st.coords.extend(held_v.iter().map(|v| (1u8, vk_idx[*v])));
    st.hk = hk.iter().rev().take(8).map(|(c, t)| (*c, (now - t).min(65535) as u16)).collect();
    st.hi = hi.iter().rev().take(8).map(|(c, t)| (*c, (now - t).min(65535) as u16)).collect();
    st.layers = vec![held_layers.last().map(|x| x.1).unwrap_or(base)];
    st.base = base;
    let _ = u;
    let ta = TrueAges {
        hk: hk.iter().rev().take(8).map(|(_, t)| now - t).collect(),
        hi: hi.iter().rev().take(8).map(|(_, t)| now - t).collect(),
        longest_gap: sc.pre.iter().map(|e| if let Ev::T(n) = e { *n as u64 } else { 0 }).max().unwrap_or(0),
    };
    (st, ta)
}

pub fn run(out: &mut CaseOut, ctx: &Ctx, r: u64) {
    let sc = make(ctx, r, false);
    judge(out, ctx, &sc, r % 400 == 3);
}

pub fn run_long(out: &mut CaseOut, ctx: &Ctx, r: u64) {
    let sc = make(ctx, r, true);
    out.inc("e2e_long_random_scenarios");
    judge(out, ctx, &sc, r % 400 == 3);
}

/// Drive a real Kanata through the scenario and compare the witnesses with the model.
pub(super) fn judge(out: &mut CaseOut, ctx: &Ctx, sc: &Scenario, sample: bool) {
    let mut sim = match Sim::new(&sc.cfg) {
        Ok(s) => s,
        Err(e) => {
            out.violate(
                "C10:rejected-valid-switch",
                format!("the parser rejected a switch/fork that is valid by the guide: {}", e.lines().next().unwrap_or("")),
                json!({"config": sc.cfg, "history": render_hist(&sc.pre), "observed": e, "expected": "accepted"}),
            );
            return;
        }
    };
    // virtual key coordinates: definition order, as Kanata reports them
    let mut vk_idx = vec![];
    for i in 0..NVK {
        match sim.k.virtual_keys.get(&format!("vk{i}")) {
            Some(x) => vk_idx.push(*x as u16),
            None => {
                out.inconclusive = Some("virtual key missing from Kanata.virtual_keys".into());
                return;
            }
        }
    }
    let final_name = if sc.final_is_fork { K_FORK } else { K_SWITCH };
    let final_code = osc(final_name);
    let (st, ta) = model_state(sc, &vk_idx, final_code);
    if !sc.final_is_fork {
        // The age of an entry is only known up to 65535 ticks. With the one threshold that compresses
        // to 65535 the guide's wording ("pressed later than $time") and the representable ages cannot
        // both be honoured for an entry that is older than that; not judged (see assumptions()).
        let mut tl = vec![];
        for c in &sc.cases {
            for it in &c.0 {
                timing_leaves(it, &mut tl);
            }
        }
        if tl.iter().any(|(rec, _, t)| q(*t) == 65_535 && ta.hk.get(*rec as usize - 1).map(|a| *a > 65_535).unwrap_or(false)) {
            out.inc("e2e_unjudged_threshold_65535_on_older_entry");
            return;
        }
    }
    sim.run(&sc.pre);
    let mark = sim.trace.len();
    sim.press(final_code);
    sim.ticks(16);
    let wnames: Vec<String> = WITNESS.iter().map(|w| code_name(osc(w))).collect();
    let observed: Vec<usize> = sim.trace[mark..]
        .iter()
        .filter(|o| o.kind == OutKind::Down)
        .filter_map(|o| wnames.iter().position(|w| *w == o.name))
        .collect();
    let mut hist = sc.pre.clone();
    hist.push(Ev::P(final_code));
    hist.push(Ev::T(16));
    out.tag(sc.class.clone());
    if ctx.verbose {
        eprintln!("config:\n{}\nhistory: {}\nmodel state: {:?}\ntrace: {:?}", sc.cfg, render_hist(&hist), st, sim.trace_short());
    }
    if sc.final_is_fork {
        out.inc("e2e_fork_scenarios");
        let want = eval_fk(&sc.fork, &sc.u, &st.active);
        if let Fk::Fork(_, _, t) = &sc.fork {
            if t.iter().any(|k| st.active.contains(&sc.u.keys[*k].1)) {
                out.inc("e2e_fork_right");
            } else {
                out.inc("e2e_fork_left");
            }
        }
        if observed != vec![want] {
            out.violate(
                "C10:e2e:fork-branch",
                format!("fork performed witness {:?}, expected [{}]", observed.iter().map(|i| WITNESS[*i]).collect::<Vec<_>>(), WITNESS[want]),
                json!({"config": sc.cfg, "history": render_hist(&hist), "observed": observed.iter().map(|i| WITNESS[*i]).collect::<Vec<_>>(), "expected": [WITNESS[want]], "active_key_codes": st.active, "trace": sim.trace_json()}),
            );
        }
    } else {
        out.inc("e2e_switch_scenarios");
        let conds: Vec<(Vec<E>, bool)> = sc.cases.iter().map(|c| (c.0.clone(), c.2)).collect();
        let fire = firing(&conds, &sc.u, &vk_idx, &st);
        let want: Vec<usize> = fire.iter().map(|i| eval_fk(&sc.cases[*i].1, &sc.u, &st.active)).collect();
        out.max("e2e_firing_cases", fire.len() as u64);
        // evidence: timing leaves evaluated on an edge
        for c in &sc.cases {
            let mut ts = vec![];
            for it in &c.0 {
                timings(it, &mut ts);
            }
            for (rec, t) in ts {
                if let Some(h) = st.hk.get(rec as usize - 1) {
                    if h.1 == q(t) || h.1 == q(t).saturating_add(1) {
                        out.inc("e2e_timing_on_edge");
                    }
                }
            }
        }
        // evidence for the "very old history entry" dimension: which leaves looked at an entry that is
        // older than the u16 age counter can count (its modelled age is the saturated 65535)
        let mut old_timing = false;
        for c in &sc.cases {
            let (mut tl, mut kh, mut ih) = (vec![], vec![], vec![]);
            for it in &c.0 {
                timing_leaves(it, &mut tl);
                hist_leaves(it, &mut kh, &mut ih);
            }
            for (rec, lt, t) in tl {
                let Some(age) = ta.hk.get(rec as usize - 1).copied() else { continue };
                if (32_760..=32_775).contains(&age) {
                    out.inc("e2e_timing_age_32760_32775");
                }
                if (65_400..65_530).contains(&age) {
                    out.inc("e2e_timing_age_65400_65529");
                }
                if (65_530..=65_545).contains(&age) {
                    out.inc("e2e_timing_age_65530_65545");
                }
                if age < 65_536 {
                    continue;
                }
                old_timing = true;
                out.inc("e2e_timing_entry_older_than_65535");
                out.inc(if lt { "e2e_old_entry_lt_leaf" } else { "e2e_old_entry_gt_leaf" });
                out.tag(format!("old-entry:rec{rec}:{}", if lt { "lt" } else { "gt" }));
                if age >= 70_000 {
                    out.inc("e2e_timing_age_ge_70000");
                }
                if age >= 131_072 {
                    out.inc("e2e_timing_age_ge_131072");
                }
                // does it matter for this leaf that the age stays at 65535 instead of starting again
                // from 0? (threshold at or above the age modulo 65536)
                if (age % 65_536) <= q(t) as u64 {
                    out.inc("e2e_old_entry_threshold_above_age_mod_65536");
                } else {
                    out.inc("e2e_old_entry_threshold_below_age_mod_65536");
                }
                if rec >= 2 {
                    out.inc("e2e_old_entry_recency_ge_2");
                }
                if rec == 8 {
                    out.inc("e2e_old_entry_recency_8");
                }
            }
            for rec in kh {
                if ta.hk.get(rec as usize - 1).map(|a| *a >= 65_536).unwrap_or(false) {
                    out.inc("e2e_key_history_entry_older_than_65535");
                }
            }
            for rec in ih {
                if ta.hi.get(rec as usize - 1).map(|a| *a >= 65_536).unwrap_or(false) {
                    out.inc("e2e_input_history_entry_older_than_65535");
                }
            }
        }
        if ta.hk.iter().filter(|a| **a >= 65_536).count() >= 2 {
            out.inc("e2e_two_or_more_entries_older_than_65535");
        }
        let age_class = if old_timing {
            ":key-timing-entry-older-than-65535-ticks"
        } else if ta.longest_gap >= 65_536 || ta.hk.iter().any(|a| *a >= 65_536) {
            ":after-gap-longer-than-65535-ticks"
        } else {
            ""
        };
        if !fire.is_empty() {
            out.inc("e2e_switch_some_case_fired");
        }
        if fire.len() > 8 {
            out.inc("e2e_over8_firing");
            out.count("e2e_over8_actions_lost", (want.len() as u64).saturating_sub(observed.len() as u64));
            let mut wi = 0;
            // observed must be a subsequence of the firing cases' witnesses
            let mut ok = true;
            for o in &observed {
                while wi < want.len() && want[wi] != *o {
                    wi += 1;
                }
                if wi == want.len() {
                    ok = false;
                    break;
                }
                wi += 1;
            }
            if !ok {
                out.violate(
                    format!("C10:e2e:performed-nonfiring{age_class}"),
                    "with more than 8 firing cases an action was performed that belongs to no firing case (or out of order)",
                    json!({"config": sc.cfg, "history": render_hist(&hist), "observed": observed.iter().map(|i| WITNESS[*i]).collect::<Vec<_>>(), "expected": want.iter().map(|i| WITNESS[*i]).collect::<Vec<_>>(), "state": format!("{st:?}"), "trace": sim.trace_json()}),
                );
            }
        } else if observed != want {
            out.violate(
                format!("C10:e2e:switch-sequence{age_class}"),
                format!("switch performed {:?}, expected {:?}", observed.iter().map(|i| WITNESS[*i]).collect::<Vec<_>>(), want.iter().map(|i| WITNESS[*i]).collect::<Vec<_>>()),
                json!({"config": sc.cfg, "history": render_hist(&hist), "observed": observed.iter().map(|i| WITNESS[*i]).collect::<Vec<_>>(), "expected": want.iter().map(|i| WITNESS[*i]).collect::<Vec<_>>(), "firing_cases": fire, "state": format!("{st:?}"), "true_ages_of_key_history_most_recent_first": ta.hk, "trace": sim.trace_json()}),
            );
        }
    }
    if sample && out.sample.is_none() {
        out.sample = Some(json!({"part": "e2e", "config": sc.cfg, "history": render_hist(&hist), "observed_witnesses": observed.iter().map(|i| WITNESS[*i]).collect::<Vec<_>>()}));
    }
    let _ = IDX_HOLD1;
}
