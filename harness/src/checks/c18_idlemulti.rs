//! C18 part H: SEVERAL on-idle entries pending at the same time.
//!
//! All pending `on-idle` entries are measured against the one idle time of kanata: every pending entry
//! whose timeout has elapsed since the (shared) start of the idle time fires in the tick in which it
//! becomes due - entries that become due in the same tick ALL fire in that tick, in any order - and
//! every entry fires exactly once. Entries: `(on-idle D_i tap-vkey v_i)`, one virtual key per entry,
//! with EQUAL timeouts (two or three), mixed equal / different timeouts (two short + one long, one
//! short + two long, timeouts one tick apart) and all-different timeouts (control). They are armed
//! together by one key (`(multi (on-idle ..) (on-idle ..) ..)`), by different keys one after the other
//! (each arming restarts the idle time, so entries with equal timeouts still become due together), or
//! both; a plain key provides ordinary activity. The operation of a fired virtual key is activity: an
//! entry with a longer timeout that is still pending starts a complete new idle time after the last
//! fired key has gone up again. Every millisecond is driven like an iteration of the processing loop
//! (blocking predicate - it advances the idle count -, event, tick) or with the predicate between
//! event and tick; compared tick by tick with the model of part C generalised to a set of entries.

use super::{Order, STRIDE};
use crate::core::sim::{code_name, osc, render_hist, Ev, OutKind, Sim};
use crate::core::{CaseOut, Ctx};
use serde_json::json;
use std::collections::{BTreeSet, VecDeque};

#[derive(Clone, Debug)]
pub struct ConfH {
    pub name: &'static str,
    /// timeout of entry i (entry i taps virtual key v{i+1})
    pub ds: Vec<u64>,
    /// per physical key: the entries it arms (more than one: a `multi`); empty = plain key
    pub keys: Vec<Vec<usize>>,
    pub legacy: bool,
    pub order: Order,
}

const HKEYS: [&str; 5] = ["h", "j", "k", "l", "z"];
const H_VNAMES: [&str; 3] = ["v1", "v2", "v3"];
const H_VOUTS: [&str; 3] = ["1", "2", "3"];
/// output index of the plain key
const PLAIN_IX: u8 = 3;

/// thorough tier: scenarios with three further taps beyond this many per configuration are sampled
const CAP_H3: u64 = 40_000;

impl ConfH {
    pub fn text(&self) -> String {
        let entry = |i: usize| {
            if self.legacy {
                format!("(on-idle-fakekey {} tap {})", H_VNAMES[i], self.ds[i])
            } else {
                format!("(on-idle {} tap-vkey {})", self.ds[i], H_VNAMES[i])
            }
        };
        let mut acts = vec![];
        for (k, es) in self.keys.iter().enumerate() {
            acts.push(match es.len() {
                0 => self.key_name(k).to_string(),
                1 => entry(es[0]),
                _ => format!("(multi {})", es.iter().map(|i| entry(*i)).collect::<Vec<_>>().join(" ")),
            });
        }
        let vk = (0..self.ds.len()).map(|i| format!("{} {}", H_VNAMES[i], H_VOUTS[i])).collect::<Vec<_>>().join(" ");
        format!(
            "(defcfg process-unmapped-keys yes)\n(defsrc {})\n({} {vk})\n(deflayer base {})\n",
            (0..self.keys.len()).map(|k| self.key_name(k)).collect::<Vec<_>>().join(" "),
            if self.legacy { "deffakekeys" } else { "defvirtualkeys" },
            acts.join(" ")
        )
    }
    /// physical key k; the last key is the plain key
    fn key_name(&self, k: usize) -> &'static str {
        if k + 1 == self.keys.len() {
            HKEYS[4]
        } else {
            HKEYS[k]
        }
    }
    pub fn label(&self) -> String {
        format!("on-idle-multi|{}|D{}{}|{:?}", self.name, self.ds.iter().map(|d| d.to_string()).collect::<Vec<_>>().join("+"), if self.legacy { "|legacy" } else { "" }, self.order)
    }
    fn gaps(&self) -> Vec<u64> {
        let s = *self.ds.iter().min().unwrap_or(&10);
        let l = *self.ds.iter().max().unwrap_or(&10);
        // release-to-press distances: short; just before / just after the short timeout (the second
        // while the fired keys are being operated); after the fired keys have gone up; around the
        // long timeout; longer than everything
        let mut g = vec![2, s - 1, s + 1, s + 4, l - 1, l + 2, s + l + 3 * self.ds.len() as u64 + 4, 2 * l + s + 6 * self.ds.len() as u64 + 6];
        g.sort();
        g.dedup();
        g
    }
    fn nkeys(&self) -> u64 {
        self.keys.len() as u64
    }
    /// keys that arm something (the first tap is one of these)
    fn arming_keys(&self) -> Vec<u8> {
        (0..self.keys.len()).filter(|k| !self.keys[*k].is_empty()).map(|k| k as u8).collect()
    }
    fn per(&self) -> u64 {
        self.gaps().len() as u64 * self.nkeys()
    }
    pub fn space(&self, n: u32) -> u64 {
        self.arming_keys().len() as u64 * (0..=n).map(|k| self.per().pow(k)).sum::<u64>()
    }
    fn depth3_space(&self) -> u64 {
        self.arming_keys().len() as u64 * self.per().pow(3)
    }
    pub fn total(&self, ctx: &Ctx) -> u64 {
        self.space(2) + ctx.tier.sel(0, self.depth3_space().min(CAP_H3))
    }
    /// a first tap of an arming key, then up to n further taps of any key, each a gap after the
    /// release of the previous one; taps are held 1 or 3 ticks (by position, so that both occur)
    fn scen(&self, mut idx: u64, nmax: u32) -> Option<Vec<(u64, HE)>> {
        let gaps = self.gaps();
        let per = self.per();
        let arming = self.arming_keys();
        let nf = arming.len() as u64;
        let first = arming[(idx % nf) as usize];
        idx /= nf;
        let mut n = 0;
        loop {
            let b = per.pow(n);
            if idx < b {
                break;
            }
            idx -= b;
            n += 1;
            if n > nmax {
                return None;
            }
        }
        let mut evs = vec![(0, HE::P(first)), (1, HE::R(first))];
        let mut last_release = 1u64;
        for _ in 0..n {
            let gi = idx % gaps.len() as u64;
            idx /= gaps.len() as u64;
            let k = (idx % self.nkeys()) as u8;
            idx /= self.nkeys();
            let t = last_release + gaps[gi as usize];
            let hold = 1 + 2 * ((gi + k as u64) % 2);
            evs.push((t, HE::P(k)));
            evs.push((t + hold, HE::R(k)));
            last_release = t + hold;
        }
        Some(evs)
    }
    pub fn pick(&self, i: u64) -> Option<Vec<(u64, HE)>> {
        let s2 = self.space(2);
        if i < s2 {
            return self.scen(i, 2);
        }
        let s3 = self.depth3_space();
        let j = i - s2;
        let sidx = if s3 > CAP_H3 { j.wrapping_mul(STRIDE) % s3 } else { j };
        let per = self.per();
        let nf = self.arming_keys().len() as u64;
        let idx = (1 + per + per * per + sidx / nf) * nf + sidx % nf;
        self.scen(idx, 3)
    }
    fn horizon(&self, evs: &[(u64, HE)]) -> u64 {
        evs.last().map(|e| e.0).unwrap_or(0) + self.ds.iter().sum::<u64>() + self.ds.iter().max().copied().unwrap_or(0) + 8 * self.ds.len() as u64 + 30
    }
}

pub fn configs_h() -> Vec<ConfH> {
    let c = |name: &'static str, ds: &[u64], keys: &[&[usize]], legacy: bool, order: Order| ConfH { name, ds: ds.to_vec(), keys: keys.iter().map(|k| k.to_vec()).collect(), legacy, order };
    let mut v = vec![];
    for order in [Order::PredFirst, Order::EventFirst] {
        // two entries with the same timeout: in one multi, and on two separate keys
        v.push(c("two-equal", &[10, 10], &[&[0, 1], &[0], &[1], &[]], false, order));
        // three entries with the same timeout: all in one multi, two in a multi, one alone
        v.push(c("three-equal", &[10, 10, 10], &[&[0, 1, 2], &[0, 1], &[2], &[]], false, order));
        // two short + one long (the long one shares a multi with a short one)
        v.push(c("two-short-one-long", &[10, 10, 25], &[&[0, 1, 2], &[0], &[1, 2], &[]], false, order));
        // one short + two long, every entry also on a key of its own
        v.push(c("one-short-two-long", &[8, 20, 20], &[&[0, 1, 2], &[1], &[2], &[0], &[]], false, order));
    }
    v.push(c("two-equal-long", &[25, 25], &[&[0, 1], &[0], &[1], &[]], false, Order::PredFirst));
    // timeouts one tick apart: the two with 10 are due together, the one with 11 is not (the fired
    // keys are activity) and waits for a new idle time
    v.push(c("two-equal-one-a-tick-longer", &[10, 11, 10], &[&[0, 1, 2], &[0, 1], &[2], &[]], false, Order::PredFirst));
    // control: all different, never two due in the same tick
    v.push(c("all-different", &[8, 14, 20], &[&[0, 1, 2], &[0], &[1, 2], &[]], false, Order::PredFirst));
    v.push(c("two-equal", &[10, 10], &[&[0, 1], &[0], &[1], &[]], true, Order::PredFirst));
    v
}

#[derive(Clone, Copy, PartialEq, Eq, Debug)]
pub enum HE {
    P(u8),
    R(u8),
    /// press / release of the virtual key of entry i
    VP(u8),
    VR(u8),
}

#[derive(Clone, Debug, PartialEq, Eq)]
struct HOut {
    at: u64,
    down: bool,
    /// 0..2 = output of virtual key i, 3 = plain key, 9 = anything else
    key: u8,
}

/// entries that fired in one tick
#[derive(Clone, Debug)]
struct Group {
    at: u64,
    entries: Vec<usize>,
}

#[derive(Default, Debug, Clone)]
struct HStats {
    firings: u64,
    groups: Vec<Group>,
    /// ticks in which exactly 2 / 3 entries were due together
    due_together_2: u64,
    due_together_3: u64,
    /// ... whose entries were all armed by one press (one multi) / by presses of different keys
    due_together_armed_by_one_multi: u64,
    due_together_armed_by_different_keys: u64,
    /// ... while an entry with another (longer) timeout stayed pending
    due_together_with_longer_entry_left_pending: u64,
    /// firings of an entry that had been left pending by an earlier firing (its idle time started
    /// anew after the fired keys went up)
    firings_of_entry_left_pending_by_earlier_firing: u64,
    /// input events that arrived while the operation of fired virtual keys was still queued
    inputs_while_fired_keys_queued: u64,
    /// an entry pending was armed again (by the same or another key) before it fired
    rearms_of_pending_entry: u64,
    max_pending: u64,
}

/// Model. One loop iteration per tick: the idle count advances at the blocking predicate if kanata
/// is idle (nothing queued, no output key down) and at least one entry is pending; every input event
/// restarts it, and so does arming. At the end of the tick every pending entry whose timeout the
/// count has reached fires: press and release of its virtual key are queued (one queued event is
/// consumed per tick). Entries due in the same tick may fire in any order: `obs` is only consulted
/// to choose among these orders (the order in which the observed stream brings their keys down).
fn model(c: &ConfH, evs: &[(u64, HE)], horizon: u64, obs: &[HOut]) -> (Vec<HOut>, HStats) {
    let n = c.ds.len();
    let mut outs = vec![];
    let mut st = HStats::default();
    let mut q: VecDeque<HE> = VecDeque::new();
    let mut next = 0;
    // per entry: serial number of the press that armed it (latest)
    let mut pending: Vec<Option<usize>> = vec![None; n];
    // per entry: left pending by an earlier firing
    let mut left: Vec<bool> = vec![false; n];
    let mut counter = 0u64;
    let mut plain_down = false;
    let mut vdown = vec![false; n];
    let mut serial = 0usize;
    for tick in 1..=horizon {
        let predicate = |q: &VecDeque<HE>, plain_down: bool, vdown: &[bool], pending: &[Option<usize>], counter: &mut u64| {
            let idle = q.is_empty() && !plain_down && !vdown.iter().any(|x| *x);
            if !idle {
                *counter = 0;
            } else if pending.iter().any(|p| p.is_some()) {
                *counter += 1;
            }
        };
        if c.order == Order::PredFirst {
            predicate(&q, plain_down, &vdown, &pending, &mut counter);
        }
        while next < evs.len() && evs[next].0 < tick {
            if q.iter().any(|e| matches!(e, HE::VP(_) | HE::VR(_))) {
                st.inputs_while_fired_keys_queued += 1;
            }
            q.push_back(evs[next].1);
            next += 1;
            counter = 0;
        }
        if c.order == Order::EventFirst {
            predicate(&q, plain_down, &vdown, &pending, &mut counter);
        }
        if let Some(e) = q.pop_front() {
            match e {
                HE::P(k) => {
                    let es = &c.keys[k as usize];
                    if es.is_empty() {
                        plain_down = true;
                        outs.push(HOut { at: tick, down: true, key: PLAIN_IX });
                    } else {
                        serial += 1;
                        for i in es {
                            if pending[*i].is_some() {
                                st.rearms_of_pending_entry += 1;
                            }
                            pending[*i] = Some(serial);
                        }
                        counter = 0;
                        st.max_pending = st.max_pending.max(pending.iter().filter(|p| p.is_some()).count() as u64);
                    }
                }
                HE::R(k) => {
                    if c.keys[k as usize].is_empty() {
                        plain_down = false;
                        outs.push(HOut { at: tick, down: false, key: PLAIN_IX });
                    }
                }
                HE::VP(i) => {
                    vdown[i as usize] = true;
                    outs.push(HOut { at: tick, down: true, key: i });
                }
                HE::VR(i) => {
                    vdown[i as usize] = false;
                    outs.push(HOut { at: tick, down: false, key: i });
                }
            }
        }
        let mut due: Vec<usize> = (0..n).filter(|i| pending[*i].is_some() && counter >= c.ds[*i]).collect();
        if !due.is_empty() {
            // any order is allowed: take the one in which the observed keys come down
            let first_down = |i: usize| obs.iter().find(|o| o.at > tick && o.down && o.key == i as u8).map(|o| o.at).unwrap_or(u64::MAX);
            due.sort_by_key(|i| (first_down(*i), *i));
            let serials: BTreeSet<usize> = due.iter().filter_map(|i| pending[*i]).collect();
            for i in &due {
                q.push_back(HE::VP(*i as u8));
                q.push_back(HE::VR(*i as u8));
                pending[*i] = None;
                st.firings += 1;
                if left[*i] {
                    st.firings_of_entry_left_pending_by_earlier_firing += 1;
                    left[*i] = false;
                }
            }
            let others = (0..n).filter(|i| pending[*i].is_some()).count();
            for i in 0..n {
                if pending[i].is_some() {
                    left[i] = true;
                }
            }
            if due.len() >= 2 {
                if due.len() == 2 {
                    st.due_together_2 += 1;
                } else {
                    st.due_together_3 += 1;
                }
                if serials.len() == 1 {
                    st.due_together_armed_by_one_multi += 1;
                } else {
                    st.due_together_armed_by_different_keys += 1;
                }
                if others > 0 {
                    st.due_together_with_longer_entry_left_pending += 1;
                }
            }
            st.groups.push(Group { at: tick, entries: due });
        }
    }
    (outs, st)
}

fn names() -> [String; 4] {
    [code_name(osc(H_VOUTS[0])), code_name(osc(H_VOUTS[1])), code_name(osc(H_VOUTS[2])), code_name(osc(HKEYS[4]))]
}

fn render(v: &[HOut], nm: &[String; 4]) -> Vec<String> {
    v.iter().map(|o| format!("{}{}@{}", if o.down { "↓" } else { "↑" }, nm.get(o.key as usize).map(|s| s.as_str()).unwrap_or("<unexpected>"), o.at)).collect()
}

fn run(c: &ConfH, evs: &[(u64, HE)], horizon: u64, nm: &[String; 4]) -> (Vec<HOut>, Vec<String>, Vec<Ev>, bool, usize) {
    let Ok(mut sim) = Sim::new(&c.text()) else {
        return (vec![], vec!["config rejected".into()], vec![], false, 0);
    };
    let mut hist = vec![];
    let mut next = 0;
    let mut gap = 0u32;
    for tick in 1..=horizon {
        if c.order == Order::PredFirst {
            let _ = sim.k.can_block_update_idle_waiting(1);
        }
        while next < evs.len() && evs[next].0 < tick {
            if gap > 0 {
                hist.push(Ev::T(gap));
                gap = 0;
            }
            match evs[next].1 {
                HE::P(k) => {
                    let code = osc(c.key_name(k as usize));
                    sim.press(code);
                    hist.push(Ev::P(code));
                }
                HE::R(k) => {
                    let code = osc(c.key_name(k as usize));
                    sim.release(code);
                    hist.push(Ev::R(code));
                }
                _ => {}
            }
            next += 1;
        }
        if c.order == Order::EventFirst {
            let _ = sim.k.can_block_update_idle_waiting(1);
        }
        sim.tick();
        gap += 1;
    }
    hist.push(Ev::T(gap));
    let mut outs = vec![];
    let mut raw = vec![];
    for o in &sim.trace {
        raw.push(o.short());
        if o.redundant {
            continue;
        }
        let down = o.kind == OutKind::Down;
        let key = if !matches!(o.kind, OutKind::Down | OutKind::Up) || o.repress { 9 } else { nm.iter().position(|n| *n == o.name).map(|p| p as u8).unwrap_or(9) };
        outs.push(HOut { at: o.at, down, key });
    }
    let still_pending = sim.k.waiting_for_idle.len();
    let ok = sim.os.all_up() && sim.is_idle();
    (outs, raw, hist, ok, still_pending)
}

pub fn run_chunk(out: &mut CaseOut, ci: usize, a: u64, b: u64) {
    let confs = configs_h();
    let c = &confs[ci];
    let nm = names();
    let mut reported: BTreeSet<String> = Default::default();
    for i in a..b {
        let Some(evs) = c.pick(i) else { continue };
        let horizon = c.horizon(&evs);
        let (obs, raw, hist, ok, still_pending) = run(c, &evs, horizon, &nm);
        let (exp, st) = model(c, &evs, horizon, &obs);
        out.inc("idle_multi_scenarios");
        if c.order == Order::PredFirst {
            out.inc("idle_multi_scenarios_loop_order");
        }
        if c.legacy {
            out.inc("idle_multi_scenarios_legacy_form");
        }
        out.count("idle_multi_firings", st.firings);
        out.count("idle_multi_ticks_with_2_entries_due_together", st.due_together_2);
        out.count("idle_multi_ticks_with_3_entries_due_together", st.due_together_3);
        out.count("idle_multi_due_together_armed_by_one_multi", st.due_together_armed_by_one_multi);
        out.count("idle_multi_due_together_armed_by_different_keys", st.due_together_armed_by_different_keys);
        out.count("idle_multi_due_together_with_longer_entry_left_pending", st.due_together_with_longer_entry_left_pending);
        out.count("idle_multi_firings_of_entry_left_pending_by_earlier_firing", st.firings_of_entry_left_pending_by_earlier_firing);
        out.count("idle_multi_inputs_while_fired_keys_queued", st.inputs_while_fired_keys_queued);
        out.count("idle_multi_rearms_of_pending_entry", st.rearms_of_pending_entry);
        out.max("idle_multi_max_entries_pending", st.max_pending);
        let together = st.due_together_2 + st.due_together_3;
        out.tag(format!("{}|{}|{}|{}|{}|{}", c.label(), evs.len(), st.firings, together, st.due_together_armed_by_different_keys, st.firings_of_entry_left_pending_by_earlier_firing));

        let is_v = |o: &HOut| (o.key as usize) < c.ds.len();
        let cnt = |v: &[HOut]| v.iter().filter(|o| is_v(o) && o.down).count();
        let mut sig: Option<(String, String)> = None;
        if obs != exp || !ok || still_pending > 0 {
            // structure: was the first difference preceded by a tick in which two or more entries
            // were due together (in the model)?
            let first_diff_at = obs.iter().zip(&exp).find(|(x, y)| x != y).map(|(x, y)| x.at.min(y.at)).or_else(|| {
                if obs.len() > exp.len() {
                    obs.get(exp.len()).map(|o| o.at)
                } else {
                    exp.get(obs.len()).map(|o| o.at)
                }
            });
            let group = st.groups.iter().filter(|g| g.entries.len() >= 2 && first_diff_at.map(|t| g.at < t).unwrap_or(true)).last();
            let structure = if group.is_some() { "entries-due-in-same-tick" } else { "no-entries-due-in-same-tick" };
            // the property in plain form for that tick: every entry due fires, and they fire together
            let mut plain: Option<(String, String)> = None;
            if let Some(g) = group {
                let downs: Vec<Option<u64>> = g.entries.iter().map(|i| obs.iter().find(|o| o.at > g.at && o.down && o.key == *i as u8).map(|o| o.at)).collect();
                let n = g.entries.len() as u64;
                if downs.iter().any(|d| d.is_none()) {
                    plain = Some(("due-together-not-all-fired".into(), format!("{} entries had been idle for their timeout in tick {} but not all of their virtual keys were operated afterwards", n, g.at)));
                } else {
                    let ts: Vec<u64> = downs.iter().flatten().copied().collect();
                    let (lo, hi) = (ts.iter().min().copied().unwrap_or(0), ts.iter().max().copied().unwrap_or(0));
                    if hi - lo > 2 * (n - 1) {
                        plain = Some(("due-together-fired-apart".into(), format!("{} entries had been idle for their timeout in tick {}; their virtual keys came down {} ticks apart (one queued event per tick allows {})", n, g.at, hi - lo, 2 * (n - 1))));
                    }
                }
            }
            if let Some(p) = plain {
                sig = Some(p);
            } else if obs.iter().any(|o| o.key == 9) {
                sig = Some((format!("unexpected-output:{structure}"), "an output that none of the keys can produce".into()));
            } else if cnt(&obs) > cnt(&exp) {
                sig = Some((format!("fired-too-often-or-early:{structure}"), "more operations of on-idle virtual keys than the model has".into()));
            } else if cnt(&obs) < cnt(&exp) {
                sig = Some((format!("not-fired:{structure}"), "fewer operations of on-idle virtual keys than the model has".into()));
            } else if obs != exp {
                let same_order = obs.len() == exp.len() && obs.iter().zip(&exp).all(|(x, y)| x.down == y.down && x.key == y.key);
                let class = if same_order {
                    match obs.iter().zip(&exp).find(|(x, y)| x.at != y.at) {
                        Some((x, y)) if is_v(x) && x.down => {
                            if x.at < y.at {
                                "fired-early"
                            } else {
                                "fired-late"
                            }
                        }
                        _ => "timing",
                    }
                } else {
                    "order"
                };
                sig = Some((format!("{class}:{structure}"), "the OS key stream differs from the model's".into()));
            } else if still_pending > 0 {
                sig = Some((format!("entry-still-pending-at-end:{structure}"), format!("{still_pending} on-idle entries are still waiting long after kanata became idle")));
            } else {
                sig = Some((format!("stuck:{structure}"), "a key stayed down or kanata did not become idle".into()));
            }
        }
        if let Some((class, what)) = sig {
            let sig = format!("C18:on-idle-multi:{class}");
            if reported.insert(sig.clone()) {
                out.violate(
                    sig,
                    format!("{}: {what}", c.label()),
                    json!({"config": c.text(), "history": render_hist(&hist), "observed": raw, "expected": render(&exp, &nm), "entries_due_together_in_model": st.groups.iter().filter(|g| g.entries.len() >= 2).map(|g| format!("tick {}: {}", g.at, g.entries.iter().map(|i| H_VNAMES[*i]).collect::<Vec<_>>().join(" "))).collect::<Vec<_>>(), "note": if c.order == Order::PredFirst { "every millisecond is driven like one iteration of the processing loop: blocking predicate (it advances the idle count), the event if one is due, the tick; entries due in the same tick may fire in any order (the expected stream uses the order of the observed one)" } else { "the blocking predicate is consulted between the event of a millisecond and its tick; entries due in the same tick may fire in any order (the expected stream uses the order of the observed one)" }}),
                );
            }
        }
        if out.sample.is_none() && a == 0 && st.due_together_3 > 0 && evs.len() >= 4 {
            out.sample = Some(json!({"config": c.text(), "history": render_hist(&hist), "observed": raw, "expected": render(&exp, &nm)}));
        }
    }
}
