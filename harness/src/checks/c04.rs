//! C04 — layered remapping fidelity: on the fragment {plain keys, output chords, multi, XX, `_`,
//! use-defsrc, layer-while-held, layer-switch, release-key, release-layer} kanata's OS output must
//! equal, tick by tick, the output of the simple layered-keymap model of the configuration guide.
//!
//! The model (DESIGN.md appendix E.1) is driven by this file's own description of the generated
//! configuration (`Cfg`), never by kanata's parsed tables, so the parser's table construction
//! (defsrc order, deflayermap, `_` / XX fill, block-unmapped-keys) is inside the judged path.

#[path = "a_util.rs"]
pub mod util;

use self::util::*;
use crate::core::rng::Rng;
use crate::core::sim::{code_name, render_hist, Ev, Sim};
use crate::core::{CaseOut, Check, Ctx, Tier};
use serde_json::{json, Value};
use std::collections::VecDeque;

pub struct C04Check;
pub static C04: C04Check = C04Check;

// ------------------------------------------------------------------ configuration description

#[derive(Clone, Debug, PartialEq)]
pub enum Ac {
    Key(&'static str),
    /// output chord: modifiers then the final key, e.g. S-a = [lsft, a]
    Chord(Vec<&'static str>),
    Multi(Vec<Ac>),
    NoOp,
    Trans,
    Src,
    Lwh(usize),
    Lsw(usize),
    RelKey(&'static str),
    RelLayer(usize),
}

#[derive(Clone, Debug)]
pub struct Cfg {
    /// defsrc, in defsrc order
    pub keys: Vec<&'static str>,
    /// a physical key that is not in defsrc (only pressed when process-unmapped-keys is yes)
    pub unmapped: Option<&'static str>,
    /// layers[l][i] = action of defsrc key i on layer l
    pub layers: Vec<Vec<Ac>>,
    /// transparent-key-resolution layer-stack (true) / to-base-layer (false)
    pub v2: bool,
    pub delegate: bool,
    pub block: bool,
    pub process_unmapped: bool,
    /// render layer l as deflayermap (transparent entries omitted)
    pub layermap: Vec<bool>,
    /// write the resolution options into defcfg even when they are the defaults
    pub explicit: bool,
}

fn mod_prefix(m: &str) -> &'static str {
    match m {
        "lsft" => "S-",
        "lctl" => "C-",
        "lalt" => "A-",
        "lmet" => "M-",
        "ralt" => "RA-",
        "rsft" => "RS-",
        "rctl" => "RC-",
        _ => "S-",
    }
}

impl Ac {
    pub fn render(&self) -> String {
        match self {
            Ac::Key(k) => k.to_string(),
            Ac::Chord(v) => {
                let mut s = String::new();
                for m in &v[..v.len() - 1] {
                    s.push_str(mod_prefix(m));
                }
                s.push_str(v[v.len() - 1]);
                s
            }
            Ac::Multi(v) => format!("(multi {})", v.iter().map(|a| a.render()).collect::<Vec<_>>().join(" ")),
            Ac::NoOp => "XX".into(),
            Ac::Trans => "_".into(),
            Ac::Src => "use-defsrc".into(),
            Ac::Lwh(i) => format!("(layer-while-held l{i})"),
            Ac::Lsw(i) => format!("(layer-switch l{i})"),
            Ac::RelKey(k) => format!("(release-key {k})"),
            Ac::RelLayer(i) => format!("(release-layer l{i})"),
        }
    }
    fn kind_letters(&self, s: &mut String) {
        match self {
            Ac::Key(_) => s.push('k'),
            Ac::Chord(_) => s.push('c'),
            Ac::Multi(v) => {
                s.push('m');
                for a in v {
                    a.kind_letters(s)
                }
            }
            Ac::NoOp => s.push('x'),
            Ac::Trans => s.push('_'),
            Ac::Src => s.push('s'),
            Ac::Lwh(_) => s.push('L'),
            Ac::Lsw(_) => s.push('W'),
            Ac::RelKey(_) => s.push('r'),
            Ac::RelLayer(_) => s.push('R'),
        }
    }
}

impl Cfg {
    pub fn render(&self) -> String {
        let mut s = String::new();
        let mut opts = vec![];
        if self.process_unmapped {
            opts.push("process-unmapped-keys yes".to_string());
        }
        if self.block {
            opts.push("block-unmapped-keys yes".to_string());
        }
        if self.delegate {
            opts.push("delegate-to-first-layer yes".to_string());
        } else if self.explicit {
            opts.push("delegate-to-first-layer no".to_string());
        }
        if !self.v2 {
            opts.push("transparent-key-resolution to-base-layer".to_string());
        } else if self.explicit {
            opts.push("transparent-key-resolution layer-stack".to_string());
        }
        if !opts.is_empty() {
            s.push_str(&format!("(defcfg {})\n", opts.join(" ")));
        }
        s.push_str(&format!("(defsrc {})\n", self.keys.join(" ")));
        for (l, row) in self.layers.iter().enumerate() {
            if self.layermap.get(l).copied().unwrap_or(false) {
                let mut items = vec![];
                for (i, a) in row.iter().enumerate() {
                    if *a != Ac::Trans {
                        items.push(format!("{} {}", self.keys[i], a.render()));
                    }
                }
                s.push_str(&format!("(deflayermap (l{l}) {})\n", items.join(" ")));
            } else {
                s.push_str(&format!("(deflayer l{l} {})\n", row.iter().map(|a| a.render()).collect::<Vec<_>>().join(" ")));
            }
        }
        s
    }
    /// all physical keys that histories may use: defsrc keys, then the unmapped key
    pub fn phys(&self) -> Vec<&'static str> {
        let mut v = self.keys.clone();
        if self.process_unmapped {
            if let Some(u) = self.unmapped {
                v.push(u);
            }
        }
        v
    }
    fn shape(&self) -> String {
        let mut s = format!("v{}d{}b{}p{}|", self.v2 as u8, self.delegate as u8, self.block as u8, self.process_unmapped as u8);
        for (l, row) in self.layers.iter().enumerate() {
            if self.layermap.get(l).copied().unwrap_or(false) {
                s.push('M');
            }
            for a in row {
                a.kind_letters(&mut s);
                s.push(',');
            }
            s.push('|');
        }
        s
    }
}

// ------------------------------------------------------------------ reference model

#[derive(Clone, Debug, PartialEq)]
enum St {
    Key { c: usize, kc: u16, clear: bool },
    Layer { c: usize, idx: usize },
}

#[derive(Default, Clone, Debug)]
pub struct MStats {
    pub resolved_below_top: u64,
    pub release_on_changed_stack: u64,
    pub max_held: u64,
    pub chord_cleared: u64,
    pub release_key_hits: u64,
    pub release_layer_hits: u64,
    pub dup_keycode_held: u64,
    pub layer_switches: u64,
    pub presses: u64,
    pub presses_over_cap: u64,
    pub nested_trans: u64,
    pub first_layer_delegations: u64,
}

/// what the statement's search over ALL held layers gives for a press, when that differs from the
/// search over the 10 most recent held layers that kanata's 12-entry stack has room for
#[derive(Clone)]
pub struct Alt<'a> {
    model: Box<Model<'a>>,
    out: TickOut,
}

/// kanata searches at most this many (most recent) held layers, then the base layer (+ first layer)
pub const HELD_CAP: usize = 10;
/// beyond this many held layers (or model work per tick) a history leaves the judged scope: nested `_`
/// inside multi on a layer held n times multiplies the work by 2^n, and kanata's 64-entry state list fills
pub const HELD_GUARD: usize = 16;
const OPS_GUARD: u64 = 2_000_000;

#[derive(Clone)]
pub struct Model<'a> {
    cfg: &'a Cfg,
    phys: Vec<u16>,
    q: VecDeque<(bool, usize)>,
    st: Vec<St>,
    default_layer: usize,
    diff: OsDiff,
    press_order: Vec<Option<Vec<usize>>>,
    deleg_appended: bool,
    ops: u64,
    pub blown: bool,
    pub alt: Option<Alt<'a>>,
    pub stats: MStats,
}

impl<'a> Model<'a> {
    pub fn new(cfg: &'a Cfg) -> Self {
        let phys: Vec<u16> = cfg.phys().iter().map(|k| kc(k)).collect();
        let n = phys.len();
        Model { cfg, phys, q: VecDeque::new(), st: vec![], default_layer: 0, diff: OsDiff::default(), press_order: vec![None; n], deleg_appended: false, ops: 0, blown: false, alt: None, stats: MStats::default() }
    }
    pub fn push(&mut self, press: bool, c: usize) {
        self.q.push_back((press, c));
    }
    pub fn pending(&self) -> usize {
        self.q.len()
    }
    pub fn idle(&self) -> bool {
        self.q.is_empty() && self.st.is_empty() && self.diff.all_up()
    }
    pub fn held_count(&self) -> usize {
        self.st.iter().filter(|s| matches!(s, St::Layer { .. })).count()
    }
    pub fn reset_default_layer(&mut self) {
        self.default_layer = 0;
    }
    fn cell(&self, l: usize, c: usize) -> Ac {
        if c < self.cfg.keys.len() {
            self.cfg.layers[l][c].clone()
        } else if self.cfg.block {
            Ac::NoOp
        } else {
            Ac::Trans
        }
    }
    fn held_layers(&self) -> Vec<usize> {
        self.st.iter().rev().filter_map(|s| if let St::Layer { idx, .. } = s { Some(*idx) } else { None }).collect()
    }
    fn current_layer(&self) -> usize {
        self.held_layers().first().copied().unwrap_or(self.default_layer)
    }
    /// layers searched by a press, in order (the defsrc key comes after them)
    fn order(&self) -> Vec<usize> {
        self.order_with(Some(HELD_CAP))
    }
    /// `cap` = how many of the most recent held layers are searched (None: all, as the statement says)
    fn order_with(&self, cap: Option<usize>) -> Vec<usize> {
        let cur = self.current_layer();
        if self.cfg.v2 {
            let mut v = self.held_layers();
            if let Some(c) = cap {
                v.truncate(c);
            }
            v.push(self.default_layer);
            if self.cfg.delegate && cur != 0 && self.default_layer != 0 {
                v.push(0);
            }
            v
        } else {
            let mut v = vec![cur];
            if self.cfg.delegate && cur != 0 {
                v.push(0);
            }
            v
        }
    }
    fn resolve(&mut self, c: usize, order: &mut std::slice::Iter<usize>, top: bool) -> Ac {
        let mut first = true;
        let n_total = order.len();
        for (i, &l) in order.by_ref().enumerate() {
            let a = self.cell(l, c);
            if a != Ac::Trans {
                if !first && top {
                    self.stats.resolved_below_top += 1;
                }
                if self.deleg_appended && l == 0 && i + 1 == n_total && top {
                    self.stats.first_layer_delegations += 1;
                }
                return a;
            }
            first = false;
        }
        if top {
            self.stats.resolved_below_top += 1;
        }
        Ac::Key(self.cfg.phys()[c])
    }
    fn act(&mut self, a: &Ac, c: usize, order: &mut std::slice::Iter<usize>, depth: usize) {
        self.ops += 1;
        if self.ops > OPS_GUARD {
            self.blown = true;
        }
        if depth > 40 || self.blown {
            return;
        }
        let a = if *a == Ac::Trans {
            if depth > 0 {
                self.stats.nested_trans += 1;
            }
            self.resolve(c, order, depth == 0)
        } else {
            a.clone()
        };
        let before = self.st.len();
        self.st.retain(|s| !matches!(s, St::Key { clear: true, .. }));
        self.stats.chord_cleared += (before - self.st.len()) as u64;
        match &a {
            Ac::Key(k) => {
                let code = kc(k);
                if self.st.iter().any(|s| matches!(s, St::Key { kc, .. } if *kc == code)) {
                    self.stats.dup_keycode_held += 1;
                }
                self.st.push(St::Key { c, kc: code, clear: false })
            }
            Ac::Chord(v) => {
                for k in v {
                    self.st.push(St::Key { c, kc: kc(k), clear: true });
                }
            }
            Ac::Multi(v) => {
                for x in v {
                    let mut o = order.clone();
                    self.act(x, c, &mut o, depth + 1);
                }
            }
            Ac::NoOp => {}
            Ac::Trans => {}
            Ac::Src => {
                let s = Ac::Key(self.cfg.phys()[c]);
                let e: Vec<usize> = vec![];
                self.act(&s, c, &mut e.iter(), depth + 1);
            }
            Ac::Lwh(i) => {
                self.st.push(St::Layer { c, idx: *i });
                let n = self.st.iter().filter(|s| matches!(s, St::Layer { .. })).count() as u64;
                self.stats.max_held = self.stats.max_held.max(n);
            }
            Ac::Lsw(i) => {
                if self.default_layer != *i {
                    self.stats.layer_switches += 1;
                }
                self.default_layer = *i
            }
            Ac::RelKey(k) => {
                let code = kc(k);
                let before = self.st.len();
                self.st.retain(|s| !matches!(s, St::Key { kc, .. } if *kc == code));
                self.stats.release_key_hits += (before - self.st.len()) as u64;
            }
            Ac::RelLayer(i) => {
                let before = self.st.len();
                self.st.retain(|s| !matches!(s, St::Layer { idx, .. } if idx == i));
                self.stats.release_layer_hits += (before - self.st.len()) as u64;
            }
        }
    }
    pub fn tick(&mut self) -> TickOut {
        self.ops = 0;
        self.alt = None;
        let mut alt: Option<Box<Model<'a>>> = None;
        if let Some((press, c)) = self.q.pop_front() {
            if press {
                self.stats.presses += 1;
                let order = self.order();
                let full = self.order_with(None);
                let cur = self.current_layer();
                self.deleg_appended = self.cfg.delegate && cur != 0 && (!self.cfg.v2 || self.default_layer != 0);
                if full != order {
                    // more than 10 layers held: also run the statement's search over all of them
                    self.stats.presses_over_cap += 1;
                    let mut a = Box::new(self.clone());
                    a.press_order[c] = Some(full.clone());
                    let mut it = full.iter();
                    a.act(&Ac::Trans, c, &mut it, 0);
                    if a.blown {
                        self.blown = true;
                    }
                    alt = Some(a);
                }
                self.press_order[c] = Some(order.clone());
                let mut it = order.iter();
                self.act(&Ac::Trans, c, &mut it, 0);
            } else {
                if let Some(o) = self.press_order[c].take() {
                    if o != self.order() {
                        self.stats.release_on_changed_stack += 1;
                    }
                }
                self.st.retain(|s| match s {
                    St::Key { c: cc, .. } | St::Layer { c: cc, .. } => *cc != c,
                });
            }
        }
        if let Some(mut a) = alt {
            if a.st != self.st || a.default_layer != self.default_layer {
                let cur: Vec<u16> = a.st.iter().filter_map(|s| if let St::Key { kc, .. } = s { Some(*kc) } else { None }).collect();
                let out = a.diff.step(&cur);
                a.stats = self.stats.clone();
                self.alt = Some(Alt { model: a, out });
            }
        }
        let cur: Vec<u16> = self.st.iter().filter_map(|s| if let St::Key { kc, .. } = s { Some(*kc) } else { None }).collect();
        self.diff.step(&cur)
    }
    pub fn state_len(&self) -> usize {
        self.st.len()
    }
    /// kanata followed the search over all held layers: continue from that state
    fn adopt(&mut self, alt: Alt<'a>) {
        let q = std::mem::take(&mut self.q);
        *self = *alt.model;
        self.q = q;
        self.alt = None;
    }
}

// ------------------------------------------------------------------ lockstep execution

#[derive(Clone, Debug)]
pub struct Mismatch {
    pub tick: u64,
    pub kanata: TickOut,
    pub model: TickOut,
    /// an output appeared while an input event was handled (never expected on this fragment)
    pub at_event: bool,
    /// more than 10 layers were held and the statement's search over all of them finds the action
    /// on a held layer older than the 10 most recent, which kanata does not search; `model` is then
    /// what the statement's search gives
    pub over_layers: bool,
    /// not a disagreement: the history was stopped because it left the judged scope
    pub out_of_scope: bool,
}

struct Lock<'a> {
    sim: Sim,
    model: Model<'a>,
    codes: Vec<u16>,
    max_pending: usize,
    ticks: u64,
    outputs: u64,
    ktrace: Vec<(u64, TickOut)>,
    mtrace: Vec<(u64, TickOut)>,
    record: bool,
    pub over_histories: u64,
}

impl<'a> Lock<'a> {
    fn new(cfg: &'a Cfg, text: &str) -> Result<Self, String> {
        let sim = Sim::new(text)?;
        let model = Model::new(cfg);
        let codes = model.phys.clone();
        Ok(Lock { sim, model, codes, max_pending: 0, ticks: 0, outputs: 0, ktrace: vec![], mtrace: vec![], record: false, over_histories: 0 })
    }
    fn tick(&mut self) -> Option<Mismatch> {
        self.sim.tick();
        let k = kanata_outs(self.sim.last());
        let mut m = self.model.tick();
        self.ticks += 1;
        self.outputs += k.len() as u64;
        let mut deviation = false;
        let guard = self.model.blown || self.model.held_count() > HELD_GUARD || self.model.state_len() > 56;
        if !guard {
            if let Some(alt) = self.model.alt.take() {
                if k == m {
                    // kanata stopped after the 10 most recent held layers
                    deviation = true;
                    m = alt.out;
                } else if k == alt.out {
                    // kanata searched all held layers, as the statement says
                    m = alt.out.clone();
                    self.model.adopt(alt);
                }
            }
        }
        if self.record {
            if !k.is_empty() {
                self.ktrace.push((self.sim.now, k.clone()));
            }
            if !m.is_empty() {
                self.mtrace.push((self.sim.now, m.clone()));
            }
        }
        if guard {
            // the history leaves the judged scope (2^n work / kanata's 64-entry state list)
            self.over_histories += 1;
            return Some(Mismatch { tick: self.sim.now, kanata: k, model: m, at_event: false, over_layers: false, out_of_scope: true });
        }
        if deviation {
            return Some(Mismatch { tick: self.sim.now, kanata: k, model: m, at_event: false, over_layers: true, out_of_scope: false });
        }
        if k != m {
            return Some(Mismatch { tick: self.sim.now, kanata: k, model: m, at_event: false, over_layers: false, out_of_scope: false });
        }
        None
    }
    /// run one history plus a drain; None = agreed on every tick
    fn run(&mut self, h: &[Ev]) -> Option<Mismatch> {
        self.model.blown = false;
        for e in h {
            match e {
                Ev::T(n) => {
                    for _ in 0..*n {
                        if let Some(m) = self.tick() {
                            return Some(m);
                        }
                    }
                }
                Ev::P(code) | Ev::R(code) => {
                    let press = matches!(e, Ev::P(_));
                    let Some(c) = self.codes.iter().position(|x| x == code) else { continue };
                    if press {
                        self.sim.press(*code);
                    } else {
                        self.sim.release(*code);
                    }
                    self.model.push(press, c);
                    self.max_pending = self.max_pending.max(self.model.pending());
                    if !self.sim.last().is_empty() {
                        return Some(Mismatch { tick: self.sim.now, kanata: kanata_outs(self.sim.last()), model: vec![], at_event: true, over_layers: false, out_of_scope: false });
                    }
                }
                _ => {}
            }
        }
        let mut left = self.model.pending() + 3;
        while left > 0 {
            if let Some(m) = self.tick() {
                return Some(m);
            }
            left -= 1;
        }
        None
    }
    /// everything must be back to the initial state after a history in which every key was released
    fn clean(&self) -> Result<(), String> {
        let l = self.sim.k.layout.b();
        if !self.sim.os.all_up() {
            return Err(format!("OS still holds {}", self.sim.os.describe()));
        }
        if !l.states.is_empty() {
            return Err(format!("layout states not empty: {:?}", l.states));
        }
        if !l.queue.is_empty() {
            return Err("layout queue not empty".into());
        }
        if !self.model.idle() {
            return Err("model not idle (harness)".into());
        }
        Ok(())
    }
    /// between histories: both sides back to the start-up base layer
    fn rebase(&mut self) {
        self.sim.k.layout.bm().set_default_layer(0);
        self.model.reset_default_layer();
        clear_trace(&mut self.sim);
    }
}

pub struct FreshRun {
    pub mismatch: Option<Mismatch>,
    pub unclean: Option<String>,
    pub observed: Vec<String>,
    pub expected: Vec<String>,
}

/// judge one (config, history) pair on a fresh kanata and a fresh model
pub fn fresh_run(cfg: &Cfg, text: &str, h: &[Ev]) -> Option<FreshRun> {
    let mut l = Lock::new(cfg, text).ok()?;
    l.record = true;
    let mut mismatch = l.run(h);
    if mismatch.as_ref().map(|m| m.out_of_scope).unwrap_or(false) {
        return Some(FreshRun { mismatch: None, unclean: None, observed: fmt_trace(&l.ktrace), expected: fmt_trace(&l.mtrace) });
    }
    if let Some(m) = mismatch.as_mut() {
        m.out_of_scope = false;
    }
    let unclean = if mismatch.is_none() { l.clean().err() } else { None };
    if mismatch.is_some() {
        // let kanata run on so the witness shows what it did afterwards
        for _ in 0..6 {
            l.sim.tick();
            let k = kanata_outs(l.sim.last());
            if !k.is_empty() {
                l.ktrace.push((l.sim.now, k));
            }
        }
    }
    Some(FreshRun { mismatch, unclean, observed: fmt_trace(&l.ktrace), expected: fmt_trace(&l.mtrace) })
}

fn report(out: &mut CaseOut, cfg: &Cfg, text: &str, h: &[Ev], part: &str, reused: Option<&Mismatch>, reused_unclean: Option<&str>) {
    // confirm on a fresh instance, minimise, write the witness
    let fr = fresh_run(cfg, text, h);
    let fresh_bad = fr.as_ref().map(|f| f.mismatch.is_some() || f.unclean.is_some()).unwrap_or(false);
    if fresh_bad {
        let over0 = fr.as_ref().and_then(|f| f.mismatch.as_ref()).map(|m| m.over_layers).unwrap_or(false);
        let hm = minimise_hist(h, &mut |c| fresh_run(cfg, text, c).map(|f| (f.mismatch.is_some() || f.unclean.is_some()) && f.mismatch.as_ref().map(|m| m.over_layers).unwrap_or(false) == over0).unwrap_or(false));
        let f = fresh_run(cfg, text, &hm).unwrap_or(FreshRun { mismatch: None, unclean: None, observed: vec![], expected: vec![] });
        let (sig, what) = match (&f.mismatch, &f.unclean) {
            (Some(m), _) if m.at_event => ("C04:output-at-event".to_string(), format!("output [{}] while an input event was handled", fmt_tick(&m.kanata))),
            (Some(m), _) if m.over_layers => (
                "C04:more-than-10-held-layers:oldest-not-searched".to_string(),
                format!("tick {}: more than 10 layers held and the action is found on a held layer older than the 10 most recent: kanata went on to the base layer and wrote [{}], the search over all held layers gives [{}]{}", m.tick, fmt_tick(&m.kanata), fmt_tick(&m.model), if m.kanata == m.model { " (same output in this tick, different held layers / keys afterwards)" } else { "" }),
            ),
            (Some(m), _) => (
                format!("C04:{}", classify(&m.kanata, &m.model)),
                format!("tick {}: kanata wrote [{}], the layered-keymap model expects [{}]", m.tick, fmt_tick(&m.kanata), fmt_tick(&m.model)),
            ),
            (None, Some(u)) => ("C04:not-clean-after-history".to_string(), format!("after every key was released: {u}")),
            _ => ("C04:unstable-minimisation".to_string(), "mismatch vanished while minimising".to_string()),
        };
        out.violate(
            sig,
            what,
            json!({"part": part, "config": text, "history": render_hist(&hm), "original_history": render_hist(h), "observed": f.observed, "expected": f.expected,
                   "first_diff_tick": f.mismatch.as_ref().map(|m| m.tick), "reproduced_on_fresh_instance": true}),
        );
    } else {
        // only visible with state carried over from earlier histories of this case
        let (sig, what) = match (reused, reused_unclean) {
            (Some(m), _) => (
                format!("C04:carry-over:{}", classify(&m.kanata, &m.model)),
                format!("tick {}: kanata wrote [{}], model expects [{}] (only after earlier histories on the same instance)", m.tick, fmt_tick(&m.kanata), fmt_tick(&m.model)),
            ),
            (None, Some(u)) => ("C04:carry-over:not-clean".to_string(), u.to_string()),
            _ => ("C04:carry-over".to_string(), String::new()),
        };
        out.violate(sig, what, json!({"part": part, "config": text, "history": render_hist(h), "observed": reused.map(|m| fmt_tick(&m.kanata)), "expected": reused.map(|m| fmt_tick(&m.model)), "reproduced_on_fresh_instance": false}));
    }
}

// ------------------------------------------------------------------ the eight fixed configurations

fn k(s: &'static str) -> Ac {
    Ac::Key(s)
}
fn ch(v: &[&'static str]) -> Ac {
    Ac::Chord(v.to_vec())
}
fn mu(v: Vec<Ac>) -> Ac {
    Ac::Multi(v)
}

pub fn fixed_cfgs() -> Vec<Cfg> {
    use Ac::*;
    let base = |layers: Vec<Vec<Ac>>, v2: bool, delegate: bool| Cfg {
        keys: vec!["a", "b", "c"],
        unmapped: None,
        layermap: vec![false; layers.len()],
        layers,
        v2,
        delegate,
        block: false,
        process_unmapped: false,
        explicit: false,
    };
    let mut v = vec![];
    // 0: the classic: one held layer, transparent fall-through
    v.push(base(vec![vec![k("a"), k("b"), Lwh(1)], vec![k("1"), Trans, Trans]], true, false));
    // 1: stacked held layers, chord on the top one, a key shared between layers
    v.push(base(vec![vec![Lwh(1), Lwh(2), k("c")], vec![Trans, Lwh(2), k("x")], vec![Lwh(1), Trans, ch(&["lsft", "x"])]], true, false));
    // 2: to-base-layer resolution with delegation, layer-switch back and forth
    v.push(base(vec![vec![Lwh(1), k("b"), Lsw(2)], vec![Trans, Trans, Trans], vec![Lwh(1), Trans, Lsw(0)]], false, true));
    // 3: release-key / release-layer
    v.push(base(vec![vec![Lwh(1), k("lsft"), k("c")], vec![Trans, mu(vec![RelLayer(1), RelKey("c")]), mu(vec![RelKey("lsft"), k("x")])]], true, false));
    // 4: multi with nested transparent items, chords cleared by the next action
    v.push(base(vec![vec![Lwh(1), ch(&["lsft", "b"]), mu(vec![k("lctl"), Trans])], vec![Trans, mu(vec![k("lalt"), Trans]), ch(&["lctl", "lsft", "c"])]], true, false));
    // 5: layer-stack + delegate + layer-switch + use-defsrc + XX
    v.push(base(vec![vec![Lwh(2), k("1"), Lsw(1)], vec![Lwh(2), Trans, Lsw(0)], vec![NoOp, Trans, Src]], true, true));
    // 6: the same key code from several physical keys (de-duplication), chord containing a held key
    v.push(base(vec![vec![k("a"), k("a"), Lwh(1)], vec![k("lsft"), ch(&["lsft", "a"]), Trans]], true, false));
    // 7: third physical key is not in defsrc; block-unmapped-keys; second layer written as deflayermap is
    //    not combined with block (the guide does not say what an unlisted defsrc key is then)
    let mut c7 = base(vec![vec![Lwh(1), k("b")], vec![Trans, mu(vec![k("c"), Trans])]], false, false);
    c7.keys = vec!["a", "b"];
    c7.unmapped = Some("c");
    c7.process_unmapped = true;
    c7.block = true;
    c7.explicit = true;
    v.push(c7);
    // 8: regression for the repaired 12-layer defect: a and c each hold six copies of l1 (12 held layers),
    //    b is transparent there and must still reach the base layer
    let six = |first: usize| mu(vec![Lwh(first), Lwh(1), Lwh(1), Lwh(1), Lwh(1), Lwh(1)]);
    v.push(base(vec![vec![six(1), k("x"), six(1)], vec![Trans, Trans, Trans]], true, false));
    // 9: the remaining capacity limit: a holds l2 and then five copies of l1, c six copies of l1; with a
    //    pressed first l2 is the 12th most recent held layer, and b (y on l2, transparent on l1, x on the
    //    base layer) is then resolved without looking at l2 (known finding); with c pressed first l2 is
    //    within the 10 most recent and is found
    v.push(base(vec![vec![six(2), k("x"), six(1)], vec![Trans, Trans, Trans], vec![Trans, k("y"), Trans]], true, false));
    v
}

// ------------------------------------------------------------------ random configurations

const PHYS6: [&str; 6] = ["a", "b", "c", "d", "e", "f"];
const OUT_PLAIN: [&str; 7] = ["a", "b", "c", "1", "2", "x", "z"];
const OUT_MODS: [&str; 3] = ["lsft", "lctl", "lalt"];

fn gen_leaf(rng: &mut Rng, nl: usize, l: usize, allow_layer: bool) -> Ac {
    let w_trans = if l == 0 { 6 } else { 28 };
    let w_layer = if nl > 1 && allow_layer { 14 } else { 0 };
    let tot = 30 + 8 + 10 + 5 + w_trans + 5 + w_layer + w_layer / 2 + 6 + if nl > 1 { 5 } else { 0 };
    let mut r = rng.below(tot as u64) as i64;
    let mut take = |w: i64| {
        if r < w {
            r = i64::MAX / 2;
            true
        } else {
            r -= w;
            false
        }
    };
    if take(30) {
        return Ac::Key(*rng.pick(&OUT_PLAIN));
    }
    if take(8) {
        return Ac::Key(*rng.pick(&OUT_MODS));
    }
    if take(10) {
        let mut v: Vec<&'static str> = vec![];
        let nm = 1 + rng.usize(2);
        for i in rng.subset(OUT_MODS.len(), nm) {
            v.push(OUT_MODS[i]);
        }
        v.push(*rng.pick(&OUT_PLAIN));
        return Ac::Chord(v);
    }
    if take(5) {
        return Ac::NoOp;
    }
    if take(w_trans) {
        return Ac::Trans;
    }
    if take(5) {
        return Ac::Src;
    }
    if take(w_layer as i64) {
        return Ac::Lwh(rng.usize(nl));
    }
    if take(w_layer as i64 / 2) {
        return Ac::Lsw(rng.usize(nl));
    }
    if take(6) {
        let all: Vec<&'static str> = OUT_PLAIN.iter().chain(OUT_MODS.iter()).copied().collect();
        return Ac::RelKey(*rng.pick(&all));
    }
    Ac::RelLayer(rng.usize(nl))
}

fn gen_action(rng: &mut Rng, nl: usize, l: usize) -> Ac {
    if rng.chance(14, 100) {
        // multi of 2-3 leaves, at most one layer-while-held per action (so that fewer than 12 layers
        // can ever be held with 6 keys)
        let n = 2 + rng.usize(2);
        let mut v = vec![];
        let mut has_layer = false;
        for _ in 0..n {
            let a = gen_leaf(rng, nl, l, !has_layer);
            if matches!(a, Ac::Lwh(_)) {
                has_layer = true;
            }
            v.push(a);
        }
        Ac::Multi(v)
    } else {
        gen_leaf(rng, nl, l, true)
    }
}

pub fn gen_cfg(rng: &mut Rng) -> Cfg {
    let nl = 1 + rng.usize(4);
    let nk = 2 + rng.usize(5);
    let mut order: Vec<usize> = (0..6).collect();
    rng.shuffle(&mut order);
    let keys: Vec<&'static str> = order[..nk].iter().map(|i| PHYS6[*i]).collect();
    let process_unmapped = rng.coin();
    let block = process_unmapped && rng.coin();
    let mut layers = vec![];
    for l in 0..nl {
        let mut row = vec![];
        for _ in 0..nk {
            row.push(gen_action(rng, nl, l));
        }
        layers.push(row);
    }
    if nl > 1 && rng.chance(7, 10) {
        // make sure another layer is reachable from the start
        let i = rng.usize(nk);
        layers[0][i] = Ac::Lwh(1 + rng.usize(nl - 1));
    }
    let layermap: Vec<bool> = (0..nl).map(|_| !block && rng.chance(1, 4)).collect();
    // a key that is not in defsrc: one of the unused physical keys, or a key that is also an output
    let unmapped = if nk < 6 && rng.coin() { Some(PHYS6[order[nk]]) } else { Some("g") };
    Cfg { keys, unmapped, layers, v2: rng.coin(), delegate: rng.coin(), block, process_unmapped, layermap, explicit: rng.coin() }
}

/// physically consistent random history that keeps fewer than 32 events pending
pub fn gen_hist(rng: &mut Rng, codes: &[u16], n_events: usize, burst: bool) -> Vec<Ev> {
    let mut h = vec![];
    let mut down: Vec<u16> = vec![];
    let mut pending: u32 = 0;
    let gaps: &[u32] = if burst { &[0, 0, 0, 0, 0, 0, 0, 1] } else { &[0, 0, 1, 1, 2, 3, 5] };
    for _ in 0..n_events {
        let can_press = down.len() < codes.len();
        let do_press = if down.is_empty() { true } else if !can_press { false } else { rng.chance(55, 100) };
        if do_press {
            let ups: Vec<u16> = codes.iter().copied().filter(|c| !down.contains(c)).collect();
            let c = *rng.pick(&ups);
            down.push(c);
            h.push(Ev::P(c));
        } else {
            let i = rng.usize(down.len());
            h.push(Ev::R(down.remove(i)));
        }
        pending += 1;
        let mut g = *rng.pick(gaps);
        if pending >= 29 {
            g = g.max(10 + rng.below(25) as u32);
        }
        if g > 0 {
            h.push(Ev::T(g));
            pending = pending.saturating_sub(g);
        }
    }
    rng.shuffle(&mut down);
    for c in down {
        h.push(Ev::R(c));
        pending += 1;
        let mut g = *rng.pick(gaps);
        if pending >= 29 {
            g = g.max(10);
        }
        if g > 0 {
            h.push(Ev::T(g));
            pending = pending.saturating_sub(g);
        }
    }
    h
}

// ------------------------------------------------------------------ the check

const GAPS: [u32; 3] = [0, 1, 2];

fn exh_n(tier: Tier) -> usize {
    tier.sel(6, 7)
}
/// exhaustive cases: (config, first three key choices)
fn n_exh_cases() -> u64 {
    (fixed_cfgs().len() * 27) as u64
}
fn n_random(tier: Tier) -> u64 {
    tier.sel(2_400, 50_000)
}

fn add_stats(out: &mut CaseOut, l: &Lock) {
    let s = &l.model.stats;
    out.count("presses", s.presses);
    out.count("presses_with_more_than_10_held_layers", s.presses_over_cap);
    out.count("press_resolved_below_top_layer", s.resolved_below_top);
    out.count("release_on_changed_layer_stack", s.release_on_changed_stack);
    out.count("chord_keys_cleared_by_next_action", s.chord_cleared);
    out.count("release_key_hits", s.release_key_hits);
    out.count("release_layer_hits", s.release_layer_hits);
    out.count("same_keycode_held_twice", s.dup_keycode_held);
    out.count("layer_switches", s.layer_switches);
    out.count("nested_transparent_resolutions", s.nested_trans);
    out.count("first_layer_delegations", s.first_layer_delegations);
    out.count("ticks_compared", l.ticks);
    out.count("outputs_compared", l.outputs);
    out.max("held_layers", s.max_held);
    out.max("pending_events", l.max_pending as u64);
}

impl C04Check {
    fn run_exhaustive(&self, ctx: &Ctx, idx: u64, out: &mut CaseOut) {
        let cfgs = fixed_cfgs();
        let ci = (idx / 27) as usize;
        let p0 = ((idx % 27) / 9) as usize;
        let p1 = ((idx % 9) / 3) as usize;
        let p2 = (idx % 3) as usize;
        let cfg = &cfgs[ci];
        let text = cfg.render();
        let n = exh_n(ctx.tier);
        let mut lock = match Lock::new(cfg, &text) {
            Ok(l) => l,
            Err(e) => {
                out.violate("C04:fixed-config-rejected", format!("fixed configuration {ci} rejected: {}", e.lines().next().unwrap_or("")), json!({"config": text, "error": e}));
                return;
            }
        };
        let codes: Vec<u16> = ["a", "b", "c"].iter().map(|s| kc(s)).collect();
        let mut reported = 0;
        let mut deviations: Vec<(Vec<Ev>, Option<Mismatch>, Option<String>)> = vec![];
        // every length 2..=n (length-1 histories are prefixes of these up to the final release)
        for len in 2..=n {
            let mut pending: Vec<(Vec<Ev>, Option<Mismatch>, Option<String>)> = vec![];
            if len == 2 && p2 != 0 {
                continue;
            }
            let prefix: Vec<usize> = if len == 2 { vec![p0, p1] } else { vec![p0, p1, p2] };
            for_each_schedule(3, GAPS.len(), len, &prefix, |keys, gaps| {
                let h = schedule_to_hist(&codes, keys, gaps, &GAPS, 2, 1);
                let before = lock.model.stats.release_on_changed_stack;
                let mm = lock.run(&h);
                let unclean = if mm.is_none() { lock.clean().err() } else { None };
                out.inc("histories");
                out.inc("histories_exhaustive");
                out.count("events", h.iter().filter(|e| !matches!(e, Ev::T(_))).count() as u64);
                if gaps.iter().all(|g| *g == 0) {
                    let ks: String = keys.iter().map(|k| char::from(b'a' + *k as u8)).collect();
                    out.tag(format!("E{ci}:{ks}:{}", (lock.model.stats.release_on_changed_stack > before) as u8));
                }
                if mm.is_some() || unclean.is_some() {
                    let scope_cut = mm.as_ref().map(|m| m.out_of_scope).unwrap_or(false);
                    let known_class = mm.as_ref().map(|m| m.over_layers).unwrap_or(false);
                    if scope_cut {
                        out.inc("histories_cut_by_layer_guard");
                    } else if known_class {
                        // the enumeration goes on; the first one of a case is written out
                        out.inc("oldest_held_layer_not_searched");
                        if deviations.len() < 2 {
                            deviations.push((h, mm, unclean));
                        }
                    } else {
                        pending.push((h, mm, unclean));
                    }
                    // the instance may be in any state now: start over
                    add_stats(out, &lock);
                    match Lock::new(cfg, &text) {
                        Ok(l) => lock = l,
                        Err(_) => return false,
                    }
                    return pending.len() < 3;
                }
                lock.rebase();
                true
            });
            for (h, mm, un) in pending {
                if reported < 3 {
                    reported += 1;
                    report(out, cfg, &text, &h, "exhaustive", mm.as_ref(), un.as_deref());
                }
            }
            if reported >= 3 {
                break;
            }
        }
        for (h, mm, un) in deviations.iter().take(1) {
            report(out, cfg, &text, h, "exhaustive", mm.as_ref(), un.as_deref());
        }
        add_stats(out, &lock);
        out.inc("configs");
        if p0 == 0 && p1 == 2 && p2 == 1 {
            out.sample = Some(json!({"part": "exhaustive", "config_index": ci, "config": text, "first_three_keys": [p0, p1, p2], "max_events": n, "gaps": GAPS,
                "example_history": render_hist(&schedule_to_hist(&codes, &[p0, p1, 1, 2, 0], &[0, 1, 0, 2, 1], &GAPS, 2, 1))}));
        }
    }

    fn random_case(&self, ctx: &Ctx, idx: u64) -> (Cfg, Vec<Vec<Ev>>) {
        let mut rng = Rng::for_case(ctx.seed, "C04", "random", idx);
        let cfg = gen_cfg(&mut rng);
        let codes: Vec<u16> = cfg.phys().iter().map(|k| kc(k)).collect();
        let nh = 6;
        let mut hs = vec![];
        for i in 0..nh {
            let n = 20 + rng.usize(41);
            hs.push(gen_hist(&mut rng, &codes, n, i % 3 == 2));
        }
        (cfg, hs)
    }

    fn run_random(&self, ctx: &Ctx, idx: u64, out: &mut CaseOut) {
        let (cfg, hs) = self.random_case(ctx, idx);
        let text = cfg.render();
        if ctx.verbose {
            eprintln!("config:\n{text}");
        }
        let mut lock = match Lock::new(&cfg, &text) {
            Ok(l) => l,
            Err(e) => {
                // every configuration of the fragment is valid by the guide
                out.violate("C04:fragment-config-rejected", format!("configuration of the layered fragment rejected: {}", e.lines().next().unwrap_or("")), json!({"config": text, "error": e, "history": "", "observed": "parse error", "expected": "accepted"}));
                return;
            }
        };
        out.inc("configs");
        out.inc("configs_random");
        let mut reported = 0;
        for (hi, h) in hs.iter().enumerate() {
            if ctx.verbose {
                eprintln!("history {hi}: {}", render_hist(h));
            }
            let mm = lock.run(h);
            if mm.as_ref().map(|m| m.out_of_scope).unwrap_or(false) {
                // more than 16 layers held / exponential work: the rest of the history is not judged
                out.inc("histories");
                out.inc("histories_random");
                out.inc("histories_cut_by_layer_guard");
                add_stats(out, &lock);
                match Lock::new(&cfg, &text) {
                    Ok(l) => lock = l,
                    Err(_) => return,
                }
                continue;
            }
            let unclean = if mm.is_none() { lock.clean().err() } else { None };
            out.inc("histories");
            out.inc("histories_random");
            out.count("events", h.iter().filter(|e| !matches!(e, Ev::T(_))).count() as u64);
            if mm.is_some() || unclean.is_some() {
                if mm.as_ref().map(|m| m.over_layers).unwrap_or(false) {
                    out.inc("oldest_held_layer_not_searched");
                }
                if reported < 2 {
                    reported += 1;
                    report(out, &cfg, &text, h, "random", mm.as_ref(), unclean.as_deref());
                }
                add_stats(out, &lock);
                match Lock::new(&cfg, &text) {
                    Ok(l) => lock = l,
                    Err(_) => return,
                }
                continue;
            }
            lock.rebase();
        }
        add_stats(out, &lock);
        out.tag(format!("R:{}", cfg.shape()));
        if idx % 700 == n_exh_cases() % 700 {
            out.sample = Some(json!({"part": "random", "config": text, "history": render_hist(&hs[0]), "physical_keys": cfg.phys().iter().map(|k| code_name(kc(k))).collect::<Vec<_>>()}));
        }
    }
}

impl Check for C04Check {
    fn id(&self) -> &'static str {
        "C04"
    }
    fn n_cases(&self, ctx: &Ctx) -> u64 {
        n_exh_cases() + n_random(ctx.tier)
    }
    fn describe(&self, ctx: &Ctx, idx: u64) -> Value {
        if idx < n_exh_cases() {
            let cfgs = fixed_cfgs();
            let ci = (idx / 27) as usize;
            json!({"part": "exhaustive", "config": cfgs[ci].render(), "first_three_keys": [(idx % 27) / 9, (idx % 9) / 3, idx % 3], "max_events": exh_n(ctx.tier), "gaps": GAPS})
        } else {
            let (cfg, hs) = self.random_case(ctx, idx);
            json!({"part": "random", "config": cfg.render(), "histories": hs.iter().map(|h| render_hist(h)).collect::<Vec<_>>()})
        }
    }
    fn run_case(&self, ctx: &Ctx, idx: u64) -> CaseOut {
        let mut out = CaseOut::new();
        if idx < n_exh_cases() {
            self.run_exhaustive(ctx, idx, &mut out);
        } else {
            self.run_random(ctx, idx, &mut out);
        }
        out
    }
    fn rule(&self) -> String {
        format!(
            "Part 1 (exhaustive, seed-independent): 10 fixed configurations over the physical keys a b c (held layers with transparent fall-through, stacked layers, to-base-layer + delegate-to-first-layer, layer-switch, release-key/-layer, multi with nested `_`, output chords, use-defsrc, XX, the same key code from two keys, an unmapped key with block-unmapped-keys, 12 held copies of one layer with a transparent key that must reach the base layer, 12 held layers of which the oldest is the only one that maps the key) x EVERY physically consistent history of 2..=N events (N = {} quick / {} thorough) with every inter-event gap in {{0,1,2}} ticks, every key still down released at the end. Part 2 (random): generated configurations of the fragment (1-4 layers, 2-6 defsrc keys in shuffled order, deflayer or deflayermap, both transparent-key-resolution settings, delegate-to-first-layer on/off, process-/block-unmapped-keys on/off, one key outside defsrc) x 6 histories of 20-60 events (gaps 0-5 ticks; every third history is a zero-gap burst that keeps up to 29 events pending). Every tick of every history, kanata's key presses/releases (redundant releases dropped) are compared, in order, with the layered-keymap reference model; after each history the OS model, the layout's state list and its queue must be empty. One kanata instance runs all histories of a case; a disagreement is re-judged on a fresh instance and minimised. distinct_nontrivial = (fixed config, key sequence, whether a release happened under a changed layer stack) for part 1, configuration shape for part 2.",
            exh_n(Tier::Quick),
            exh_n(Tier::Thorough)
        )
    }
    fn assumptions(&self) -> Vec<String> {
        vec![
            "fewer than 32 events pending (the generators keep at most 29 in the queue)".into(),
            "kanata's 12-entry resolution stack searches the 10 most recent held layers, then the base layer (and the first layer with delegate-to-first-layer). The model runs that search and, when more than 10 layers are held, also the statement's search over all held layers: if kanata agrees with the capped search and the two differ (the action is on a held layer older than the 10 most recent) that is the known finding C04:more-than-10-held-layers:oldest-not-searched; if kanata agrees with the full search the model follows it; anything else is an ordinary violation".into(),
            "a history is cut (not judged further) once more than 16 layers are held, the model needs more than 2,000,000 action steps for one press, or more than 56 states are active: nested `_` inside multi on a layer held n times multiplies the work by 2^n and kanata's state list holds 64 entries".into(),
            "the order of several outputs within one tick is compared as 'releases in the order of the previous key list, then presses in state order' (appendix A convention)".into(),
            "delegate-to-first-layer is modelled as acting through the layer search order only (first layer searched after the base layer); use-defsrc and the final fallback are always the plain defsrc key".into(),
            "deflayermap is not combined with block-unmapped-keys (the guide does not say what a defsrc key that a deflayermap does not list becomes then); keys outside defsrc are only pressed with process-unmapped-keys yes".into(),
            "boundary convention: an event injected after p ticks is processed by tick p+1, one queued event per tick".into(),
        ]
    }
    fn floors(&self, ctx: &Ctx) -> Vec<(&'static str, u64)> {
        vec![
            ("histories_exhaustive", ctx.tier.sel(1_000_000, 10_000_000)),
            ("histories_random", ctx.tier.sel(10_000, 250_000)),
            ("release_on_changed_layer_stack", 100_000),
            ("press_resolved_below_top_layer", 100_000),
            ("chord_keys_cleared_by_next_action", 10_000),
            ("release_key_hits", 1_000),
            ("release_layer_hits", 1_000),
            ("same_keycode_held_twice", 10_000),
            ("nested_transparent_resolutions", 10_000),
            ("first_layer_delegations", 100),
            ("layer_switches", 1_000),
            ("presses_with_more_than_10_held_layers", 10_000),
            ("max_pending_events", 25),
            ("max_held_layers", 3),
        ]
    }
    fn exhaustive(&self, _ctx: &Ctx) -> bool {
        true
    }
    fn watchdog_s(&self, _ctx: &Ctx) -> u64 {
        180
    }
}
