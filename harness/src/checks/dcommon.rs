//! Helpers shared by C07 and C15 (agent d). `core/sim.rs` keeps its output drain private; the
//! drivers here (loop emulator stamped with virtual wall time, real threaded loop, reload driver)
//! advance the real `Kanata` through other entry points than `Sim::tick`, so they need the same
//! drain on the public fields of `Sim`. The logic is a copy of `Sim::drain` / `parse_out`.

use crate::core::sim::{OsModel, Out, OutKind, Sim};

pub fn parse_out(s: &str) -> Option<(OutKind, String)> {
    if s.starts_with("t:") && s.ends_with("ms") {
        return None;
    }
    if let Some(r) = s.strip_prefix("out:↓") {
        return Some((OutKind::Down, r.to_string()));
    }
    if let Some(r) = s.strip_prefix("out:↑") {
        return Some((OutKind::Up, r.to_string()));
    }
    if let Some(r) = s.strip_prefix("out🖰:↓") {
        return Some((OutKind::BtnDown, r.to_string()));
    }
    if let Some(r) = s.strip_prefix("out🖰:↑") {
        return Some((OutKind::BtnUp, r.to_string()));
    }
    if let Some(r) = s.strip_prefix("out🖰:move ") {
        return Some((OutKind::Move, r.to_string()));
    }
    if let Some(r) = s.strip_prefix("scroll:") {
        return Some((OutKind::Scroll, r.to_string()));
    }
    if let Some(r) = s.strip_prefix("outU:") {
        return Some((OutKind::Unicode, r.to_string()));
    }
    if let Some(r) = s.strip_prefix("out-code:") {
        return Some((OutKind::Code, r.to_string()));
    }
    Some((OutKind::Other, s.to_string()))
}

/// Apply one recorded output line to an OS model; returns the classified output.
pub fn apply_line(os: &mut OsModel, s: &str, at: u64, in_tick: bool) -> Option<Out> {
    let (mut kind, name) = parse_out(s)?;
    let mut redundant = false;
    let mut repress = false;
    if !in_tick && kind == OutKind::Down {
        kind = OutKind::Repeat;
    }
    match kind {
        OutKind::Repeat => {
            os.repeats += 1;
            if !os.keys_down.contains(&name) {
                repress = true;
                os.repeats_of_up_keys += 1;
            }
        }
        OutKind::Down => {
            if !os.keys_down.insert(name.clone()) {
                repress = true;
                os.represses += 1;
            }
        }
        OutKind::Up => {
            if !os.keys_down.remove(&name) {
                redundant = true;
                os.redundant_releases += 1;
            }
        }
        OutKind::BtnDown => {
            if !os.btns_down.insert(name.clone()) {
                repress = true;
            }
        }
        OutKind::BtnUp => {
            if !os.btns_down.remove(&name) {
                redundant = true;
                os.redundant_releases += 1;
            }
        }
        OutKind::Code => {
            if let Some((c, v)) = name.split_once(';') {
                if v == "Press" {
                    os.codes_down.insert(c.to_string());
                } else if !os.codes_down.remove(c) {
                    redundant = true;
                }
            }
        }
        _ => {}
    }
    os.outputs += 1;
    Some(Out { at, in_tick, kind, name, redundant, repress })
}

/// Same as the private `Sim::drain`: move what the recorder collected into the trace / OS model.
pub fn drain_into(sim: &mut Sim, in_tick: bool) {
    sim.last_step_start = sim.trace.len();
    if sim.k.kbd_out.outputs.events.is_empty() {
        return;
    }
    let evs = std::mem::take(&mut sim.k.kbd_out.outputs.events);
    for s in evs {
        if let Some(o) = apply_line(&mut sim.os, &s, sim.now, in_tick) {
            if sim.keep_trace {
                sim.trace.push(o);
            }
        }
    }
    sim.k.kbd_out.log = kanata_state_machine::oskbd::LogFmt::new();
}

/// Ordered OS-visible stream of a list of recorder lines, redundant releases dropped, no timing.
pub fn ordered_stream(lines: &[String]) -> (Vec<String>, OsModel) {
    let mut os = OsModel::default();
    let mut v = vec![];
    for s in lines {
        if let Some(o) = apply_line(&mut os, s, 0, true) {
            if !o.redundant {
                let p = match o.kind {
                    OutKind::Repeat => "⟳",
                    OutKind::Down => "↓",
                    OutKind::Up => "↑",
                    OutKind::BtnDown => "🖰↓",
                    OutKind::BtnUp => "🖰↑",
                    OutKind::Scroll => "scroll:",
                    OutKind::Move => "move:",
                    OutKind::Unicode => "U:",
                    OutKind::Code => "code:",
                    OutKind::Other => "?:",
                };
                v.push(format!("{p}{}", o.name));
            }
        }
    }
    (v, os)
}

pub fn kind_class(k: &OutKind) -> &'static str {
    match k {
        OutKind::Repeat => "repeat",
        OutKind::Down | OutKind::Up => "key",
        OutKind::BtnDown | OutKind::BtnUp => "button",
        OutKind::Scroll => "scroll",
        OutKind::Move => "move",
        OutKind::Unicode => "unicode",
        OutKind::Code => "code",
        OutKind::Other => "other",
    }
}
