//! C11 part 9: several configurations read by ONE process (start-up + live reloads, `lrld-next`
//! cycling between `--cfg` files, any embedding that parses more than one configuration).
//!
//! "A key name denotes the same code wherever it is written" is a statement about one
//! configuration: the denotation of a name is the number its OWN `deflocalkeys-linux` block gives
//! it, else its built-in code, else nothing (the name is unknown and the configuration is refused).
//! The parser keeps the configured names in a process-global table, so what an EARLIER
//! configuration defined must not be visible in a later one. All other parts of C11 look at one
//! configuration in a fresh table; here a sequence C0, C1, ... Cn of configurations is read through
//! the same entry point without the harness touching the table in between (it is put back to the
//! defaults once, before C0), and every Ci is judged
//! (a) absolutely, with the denotation computed by the generator: accepted iff every written name
//!     is known to Ci; `Cfg.mapped_keys` = defsrc + deflayermap inputs (+ all known keys - the
//!     exception list); the defsrc position of each key holds the action written for it;
//!     `str_to_oscode` right after the parse answers with Ci's denotation for every name that
//!     occurs anywhere in the sequence;
//! (b) relationally: accept/reject, mapped keys, every cell of every layer, the overrides and the
//!     name look-ups are those of Ci read alone in a fresh table.
//! Entry points: `cfg::new_from_str`, `cfg::new_from_file` (start-up and live reload use it), and
//! a real Kanata started from the files of the sequence (`Kanata::new`) that is sent through the
//! sequence by pressing a key mapped to `lrld-next` (the real `handle_time_ticks` ->
//! `do_live_reload`); after every (re)load the keys of the current configuration are pressed with
//! their physical codes and must come out as the action written for them, and the running layout
//! must be the one of Ci loaded alone.
//! Dimensions of a sequence: 2-4 configurations (+ optionally C0 again at the end); per
//! configuration no deflocalkeys at all / a deflocalkeys-linux block / only a block of another
//! platform variant / both / an empty linux block; the blocks redefine built-in names (the
//! punctuation names non-US users redefine: ; ' [ ] - = ` \ , . / + < ..., and arbitrary pinned
//! names) and add brand-new names (ü ö ä ß ...), different numbers in different configurations;
//! the names of the whole sequence are written in defsrc, as layer action, deflayermap input,
//! exception list, fork trigger and unmod of every configuration; a configuration may write a name
//! that only ANOTHER configuration of the sequence defines (must be refused) and may be refused for
//! that reason in the middle of the sequence.

use super::{expected_identity, kc_of, pinned_keycode_names, refs, Exp, ACTION_SHADOWED, UNDECIDED};
use crate::core::rng::Rng;
use crate::core::sim::{render_hist, Ev, OutKind, Sim};
use crate::core::{CaseOut, Ctx};
use kanata_keyberon::action::Action;
use kanata_parser::cfg::Cfg;
use kanata_parser::keys::{str_to_oscode, OsCode};
use kanata_tcp_protocol::ServerMessage;
use serde_json::{json, Value};
use std::collections::{BTreeSet, HashMap};
use std::path::PathBuf;
use std::sync::mpsc::SyncSender;
use std::sync::OnceLock;

// ------------------------------------------------------------------ tables

/// names and codes the scaffolding of the configurations uses; never redefined, never a target
const RESERVED_NAMES: [&str; 3] = ["f21", "f22", "f23"];
const RESERVED_CODES: [u16; 3] = [191, 192, 193];
/// the names users of non-US layouts redefine
const PUNCT: [&str; 18] = [";", "'", "[", "]", "-", "=", "`", "\\", ",", ".", "/", "+", "<", "yen", "ro", "grv", "min", "eql"];
const NEW_NAMES: [&str; 10] = ["ü", "ö", "ä", "ß", "é", "ñ", "ì", "zzk1", "zzk2", "lkey9"];
const OTHER_VARIANTS: [&str; 4] = ["deflocalkeys-win", "deflocalkeys-winiov2", "deflocalkeys-wintercept", "deflocalkeys-macos"];

struct Tables {
    names: Vec<(&'static str, u16)>,
    by_name: HashMap<&'static str, u16>,
    punct: Vec<&'static str>,
    /// codes whose identity mapping is an ordinary key event (targets of the blocks)
    plain_codes: Vec<u16>,
}

fn tables() -> &'static Tables {
    static T: OnceLock<Tables> = OnceLock::new();
    T.get_or_init(|| {
        let mut names = vec![];
        let mut by_name: HashMap<&'static str, u16> = HashMap::new();
        for (n, c) in refs::KEY_NAMES {
            if !by_name.contains_key(n) {
                by_name.insert(n, *c);
                if *c != 0 && *c != 240 && !RESERVED_NAMES.contains(n) && !RESERVED_CODES.contains(c) && !n.parse::<u32>().is_ok() {
                    names.push((*n, *c));
                }
            }
        }
        let punct = PUNCT.iter().copied().filter(|p| by_name.contains_key(p)).collect();
        let overlap = u16::from(OsCode::from(kanata_parser::sequences::KEY_OVERLAP));
        let plain_codes = (1..749u16)
            .filter(|c| *c != 240 && *c != overlap && !RESERVED_CODES.contains(c) && OsCode::from_u16(*c).is_some() && matches!(expected_identity(*c), Exp::Key(_)))
            .collect();
        Tables { names, by_name, punct, plain_codes }
    })
}

fn reset_names() {
    kanata_parser::keys::replace_custom_str_oscode_mapping(&Default::default());
}

// ------------------------------------------------------------------ generator

#[derive(Clone, Copy, PartialEq, Debug)]
enum Block {
    None,
    Linux,
    OtherOnly,
    LinuxAndOther,
    EmptyLinux,
}
impl Block {
    fn tag(self) -> &'static str {
        match self {
            Block::None => "no-block",
            Block::Linux => "linux-block",
            Block::OtherOnly => "other-variant-block",
            Block::LinuxAndOther => "linux-and-other-block",
            Block::EmptyLinux => "empty-linux-block",
        }
    }
    fn has_linux(self) -> bool {
        matches!(self, Block::Linux | Block::LinuxAndOther | Block::EmptyLinux)
    }
}

#[derive(Clone, Debug)]
struct Spec {
    block: Block,
    linux: Vec<(String, u16)>,
    other: Option<(&'static str, Vec<(String, u16)>)>,
    /// (defsrc name, action name written at that position)
    keys: Vec<(String, String)>,
    /// deflayermap (l1) input -> action name
    lm: Vec<(String, String)>,
    /// process-unmapped-keys: None = no, Some(list) = (all-except list) (yes when empty)
    pu: Option<Vec<String>>,
    fork: Option<String>,
    unmod: Option<String>,
    /// with the `lrld-next` key (live-reload entry)
    reload_key: bool,
}

impl Spec {
    fn denote(&self, name: &str) -> Option<u16> {
        if self.block.has_linux() {
            if let Some(e) = self.linux.iter().find(|e| e.0 == name) {
                return Some(e.1);
            }
        }
        tables().by_name.get(name).copied()
    }
    fn written(&self) -> Vec<&str> {
        let mut v: Vec<&str> = vec![];
        for (a, b) in self.keys.iter().chain(self.lm.iter()) {
            v.push(a);
            v.push(b);
        }
        if let Some(l) = &self.pu {
            v.extend(l.iter().map(|s| s.as_str()));
        }
        v.extend(self.fork.iter().map(|s| s.as_str()));
        v.extend(self.unmod.iter().map(|s| s.as_str()));
        v
    }
    fn unknown_written(&self) -> Vec<&str> {
        self.written().into_iter().filter(|n| self.denote(n).is_none()).collect()
    }
    fn text(&self) -> String {
        let mut s = String::new();
        let blk = |s: &mut String, head: &str, e: &[(String, u16)]| {
            s.push_str(&format!("({head}"));
            for (n, c) in e {
                s.push_str(&format!(" {n} {c}"));
            }
            s.push_str(")\n");
        };
        if self.block.has_linux() {
            blk(&mut s, "deflocalkeys-linux", &self.linux);
        }
        if let Some((v, e)) = &self.other {
            blk(&mut s, v, e);
        }
        s.push_str("(defcfg process-unmapped-keys ");
        match &self.pu {
            None => s.push_str("no"),
            Some(l) if l.is_empty() => s.push_str("yes"),
            Some(l) => s.push_str(&format!("(all-except {})", l.join(" "))),
        }
        s.push_str(")\n(defsrc");
        for (n, _) in &self.keys {
            s.push_str(&format!(" {n}"));
        }
        s.push_str(" f22 f23");
        if self.reload_key {
            s.push_str(" f21");
        }
        s.push_str(")\n(deflayer l0");
        for (_, a) in &self.keys {
            s.push_str(&format!(" {a}"));
        }
        match &self.fork {
            Some(n) => s.push_str(&format!(" (fork f22 f23 ({n}))")),
            None => s.push_str(" f22"),
        }
        match &self.unmod {
            Some(n) => s.push_str(&format!(" (unmod {n})")),
            None => s.push_str(" f23"),
        }
        if self.reload_key {
            s.push_str(" lrld-next");
        }
        s.push_str(")\n(deflayermap (l1)");
        for (i, a) in &self.lm {
            s.push_str(&format!(" {i} {a}"));
        }
        s.push_str(")\n");
        s
    }
    /// expected `Cfg.mapped_keys` when every name is known
    fn expected_mapped(&self) -> BTreeSet<u16> {
        let mut e: BTreeSet<u16> = BTreeSet::new();
        for (n, _) in self.keys.iter().chain(self.lm.iter()) {
            if let Some(c) = self.denote(n) {
                e.insert(c);
            }
        }
        e.insert(192);
        e.insert(193);
        if self.reload_key {
            e.insert(191);
        }
        if let Some(l) = &self.pu {
            let exc: BTreeSet<u16> = l.iter().filter_map(|n| self.denote(n)).collect();
            for c in 1..767u16 {
                if OsCode::from_u16(c).is_some() && !exc.contains(&c) {
                    e.insert(c);
                }
            }
        }
        e
    }
}

#[derive(Clone, Copy, PartialEq, Debug)]
pub enum Entry {
    Str,
    File,
    Reload,
}
impl Entry {
    fn tag(self) -> &'static str {
        match self {
            Entry::Str => "new_from_str",
            Entry::File => "new_from_file",
            Entry::Reload => "live-reload",
        }
    }
}

struct SeqCase {
    entry: Entry,
    specs: Vec<Spec>,
    /// every name that some block of the sequence defines or some configuration writes
    pool: Vec<String>,
}

fn n_str(ctx: &Ctx) -> u64 {
    ctx.tier.sel(1_600, 16_000)
}
fn n_file(ctx: &Ctx) -> u64 {
    ctx.tier.sel(600, 6_000)
}
fn n_reload(ctx: &Ctx) -> u64 {
    ctx.tier.sel(400, 4_000)
}
pub fn n_cases(ctx: &Ctx) -> u64 {
    n_str(ctx) + n_file(ctx) + n_reload(ctx)
}

fn make(ctx: &Ctx, idx: u64) -> SeqCase {
    let t = tables();
    let mut rng = Rng::for_case(ctx.seed, "C11", "parse-sequence", idx);
    let entry = if idx < n_str(ctx) {
        Entry::Str
    } else if idx < n_str(ctx) + n_file(ctx) {
        Entry::File
    } else {
        Entry::Reload
    };
    // theme: the names the blocks of this sequence are about
    let mut theme: Vec<String> = vec![];
    let n_theme = rng.range(1, 4) as usize;
    let mut guard = 0;
    while theme.len() < n_theme && guard < 100 {
        guard += 1;
        let n: String = match rng.usize(10) {
            0..=3 => rng.pick(&t.punct).to_string(),
            4..=6 => rng.pick(&t.names).0.to_string(),
            _ => rng.pick(&NEW_NAMES).to_string(),
        };
        if !theme.contains(&n) {
            theme.push(n);
        }
    }
    let n_cfg = rng.range(2, 4) as usize;
    let mut specs: Vec<Spec> = vec![];
    for ci in 0..n_cfg {
        let block = *rng.pick_weighted(&[(7u32, Block::None), (7, Block::Linux), (3, Block::OtherOnly), (2, Block::LinuxAndOther), (1, Block::EmptyLinux)]);
        // the first configuration of a sequence should usually define something
        let block = if ci == 0 && rng.chance(2, 3) { if rng.chance(1, 5) { Block::LinuxAndOther } else { Block::Linux } } else { block };
        let mut used_codes: BTreeSet<u16> = RESERVED_CODES.iter().copied().collect();
        let mut linux: Vec<(String, u16)> = vec![];
        if matches!(block, Block::Linux | Block::LinuxAndOther) {
            for n in &theme {
                if rng.chance(3, 4) || linux.is_empty() {
                    let c = *rng.pick(&t.plain_codes);
                    if t.by_name.get(n.as_str()) != Some(&c) && !linux.iter().any(|e| e.1 == c) {
                        linux.push((n.clone(), c));
                    }
                }
            }
            if rng.chance(1, 4) {
                let n = if rng.coin() { rng.pick(&t.names).0.to_string() } else { rng.pick(&NEW_NAMES).to_string() };
                let c = *rng.pick(&t.plain_codes);
                if !linux.iter().any(|e| e.0 == n || e.1 == c) && t.by_name.get(n.as_str()) != Some(&c) {
                    linux.push((n, c));
                }
            }
        }
        let other = if matches!(block, Block::OtherOnly | Block::LinuxAndOther) {
            let v = *rng.pick(&OTHER_VARIANTS);
            let mut e: Vec<(String, u16)> = vec![];
            for n in &theme {
                let c = *rng.pick(&t.plain_codes);
                e.push((n.clone(), c));
            }
            Some((v, e))
        } else {
            None
        };
        let mut spec = Spec { block, linux, other, keys: vec![], lm: vec![], pu: None, fork: None, unmod: None, reload_key: entry == Entry::Reload };
        // candidate names: the theme, what the blocks of the earlier configurations defined, own
        // entries, and unrelated built-in names
        let mut cands: Vec<String> = theme.clone();
        for p in &specs {
            for e in &p.linux {
                if !cands.contains(&e.0) {
                    cands.push(e.0.clone());
                }
            }
        }
        for e in &spec.linux {
            if !cands.contains(&e.0) {
                cands.push(e.0.clone());
            }
        }
        // a name of this sequence that this configuration does not know: written (and the
        // configuration must be refused) only sometimes and never on the live-reload entry
        let allow_unknown = entry != Entry::Reload && rng.chance(1, 6);
        let pick_name = |rng: &mut Rng, spec: &Spec| -> Option<String> {
            let n = if rng.chance(2, 3) { rng.pick(&cands).clone() } else { rng.pick(&t.names).0.to_string() };
            match spec.denote(&n) {
                Some(_) => Some(n),
                None if allow_unknown => Some(n),
                None => None,
            }
        };
        // defsrc keys: every known theme name first, then a few more
        let mut want: Vec<String> = cands.iter().filter(|n| spec.denote(n).is_some() || allow_unknown).cloned().collect();
        rng.shuffle(&mut want);
        want.truncate(rng.range(1, 4) as usize);
        for _ in 0..rng.usize(3) {
            if let Some(n) = pick_name(&mut rng, &spec) {
                want.push(n);
            }
        }
        for n in want {
            let c = spec.denote(&n);
            if let Some(c) = c {
                if !used_codes.insert(c) {
                    continue;
                }
            } else if spec.keys.iter().any(|k| k.0 == n) {
                continue;
            }
            // action: a name of the sequence or an unrelated one; on the live-reload entry only
            // names whose code is an ordinary key (the probe reads the key that comes out)
            let mut act = None;
            for _ in 0..8 {
                if let Some(a) = pick_name(&mut rng, &spec) {
                    let plain = spec.denote(&a).map(|c| t.plain_codes.contains(&c)).unwrap_or(entry != Entry::Reload);
                    if !ACTION_SHADOWED.contains(&a.as_str()) && plain {
                        act = Some(a);
                        break;
                    }
                }
            }
            spec.keys.push((n, act.unwrap_or_else(|| "f22".to_string())));
        }
        // deflayermap inputs
        if rng.coin() {
            let mut lm_codes: BTreeSet<u16> = BTreeSet::new();
            for _ in 0..rng.range(1, 3) {
                if let (Some(i), Some(a)) = (pick_name(&mut rng, &spec), pick_name(&mut rng, &spec)) {
                    if ACTION_SHADOWED.contains(&a.as_str()) || spec.lm.iter().any(|x| x.0 == i) {
                        continue;
                    }
                    if let Some(c) = spec.denote(&i) {
                        if RESERVED_CODES.contains(&c) || !lm_codes.insert(c) {
                            continue;
                        }
                    }
                    spec.lm.push((i, a));
                }
            }
        }
        // process-unmapped-keys
        match rng.usize(4) {
            0 => spec.pu = Some(vec![]),
            1 => {
                let mut l: Vec<String> = vec![];
                let mut codes: BTreeSet<u16> = BTreeSet::new();
                for _ in 0..rng.range(1, 3) {
                    if let Some(n) = pick_name(&mut rng, &spec) {
                        let c = spec.denote(&n);
                        // an excepted key cannot be in defsrc; deflayermap inputs may be excepted
                        let clash = c.map(|c| used_codes.contains(&c) || !codes.insert(c)).unwrap_or(false);
                        if !clash && !l.contains(&n) && !spec.keys.iter().any(|k| k.0 == n) {
                            l.push(n);
                        }
                    }
                }
                spec.pu = Some(l);
            }
            _ => {}
        }
        if rng.coin() {
            spec.fork = pick_name(&mut rng, &spec);
        }
        if rng.coin() {
            spec.unmod = pick_name(&mut rng, &spec);
        }
        specs.push(spec);
    }
    // back to the first configuration at the end
    if rng.coin() {
        let first = specs[0].clone();
        specs.push(first);
    }
    let mut pool: Vec<String> = theme.clone();
    for s in &specs {
        for e in &s.linux {
            if !pool.contains(&e.0) {
                pool.push(e.0.clone());
            }
        }
        for n in s.written() {
            if !pool.iter().any(|p| p == n) {
                pool.push(n.to_string());
            }
        }
    }
    SeqCase { entry, specs, pool }
}

// ------------------------------------------------------------------ observation

#[derive(PartialEq, Clone)]
struct Summary {
    mapped: BTreeSet<u16>,
    /// Debug text of every cell, per layer
    cells: Vec<Vec<String>>,
    overrides: String,
}

fn layout_cells(l: &kanata_parser::cfg::BorrowedKLayout) -> Vec<Vec<String>> {
    l.layers.iter().map(|layer| layer[0].iter().map(|a| format!("{a:?}")).collect()).collect()
}

fn summarize(cfg: &Cfg) -> Summary {
    Summary { mapped: cfg.mapped_keys.iter().map(|o| o.as_u16()).collect(), cells: layout_cells(cfg.layout.b()), overrides: format!("{:?}", cfg.overrides) }
}

fn lookups(pool: &[String]) -> Vec<Option<u16>> {
    pool.iter().map(|n| str_to_oscode(n).map(|o| o.as_u16())).collect()
}

fn cell_diff(a: &[Vec<String>], b: &[Vec<String>]) -> Vec<String> {
    let mut v = vec![];
    if a.len() != b.len() {
        v.push(format!("{} layers vs {}", a.len(), b.len()));
    }
    for (li, (x, y)) in a.iter().zip(b.iter()).enumerate() {
        for (c, (p, q)) in x.iter().zip(y.iter()).enumerate() {
            if p != q && v.len() < 6 {
                v.push(format!("layer #{li} coordinate {c}: {p} (in sequence) vs {q} (alone)"));
            }
        }
    }
    v
}

struct Scratch {
    dir: PathBuf,
}
impl Scratch {
    fn new(idx: u64) -> Scratch {
        let dir = std::env::temp_dir().join(format!("kvmon-c11seq-{}-{idx}", std::process::id()));
        let _ = std::fs::create_dir_all(&dir);
        Scratch { dir }
    }
    fn write(&self, name: &str, text: &str) -> PathBuf {
        let p = self.dir.join(name);
        let _ = std::fs::write(&p, text);
        p
    }
}
impl Drop for Scratch {
    fn drop(&mut self) {
        let _ = std::fs::remove_dir_all(&self.dir);
    }
}

fn parse(entry: Entry, text: &str, file: &PathBuf) -> Result<Cfg, String> {
    let r = match entry {
        Entry::Str => kanata_parser::cfg::new_from_str(text, Default::default()),
        _ => kanata_parser::cfg::new_from_file(file),
    };
    r.map_err(|e| format!("{e:?}").lines().take(10).collect::<Vec<_>>().join(" | "))
}

fn witness(sc: &SeqCase, step: usize, observed: Value, expected: Value) -> Value {
    json!({
        "config": sc.specs[step].text(),
        "history": format!("one process, entry point {}: the configurations of `sequence` are read in order without resetting the parser's name table; judged: #{step}", sc.entry.tag()),
        "sequence": sc.specs.iter().map(|s| s.text()).collect::<Vec<_>>(),
        "step": step,
        "observed": observed,
        "expected": expected,
    })
}

/// class used in violation signatures: the deflocalkeys shape of the judged configuration and
/// whether it is the first one the process read
fn sig_class(sc: &SeqCase, step: usize) -> String {
    format!("{}{}", sc.specs[step].block.tag(), if step == 0 { ":first-read" } else { "" })
}

/// structural class of a step (counters): what the configuration read before had, what this one has
fn step_class(sc: &SeqCase, step: usize) -> String {
    let prev = if step == 0 { "first".to_string() } else { sc.specs[step - 1].block.tag().to_string() };
    format!("{}-after-{}", sc.specs[step].block.tag(), prev)
}

fn judge_absolute(out: &mut CaseOut, sc: &SeqCase, step: usize, res: &Result<Summary, String>, names: &[Option<u16>]) {
    let spec = &sc.specs[step];
    let entry = sc.entry.tag();
    let class = sig_class(sc, step);
    let unknown = spec.unknown_written();
    match res {
        Ok(sum) => {
            if !unknown.is_empty() {
                out.violate(
                    format!("C11:parse-seq:accepted-unknown-name:{entry}:{class}"),
                    format!("configuration #{step} of the sequence writes {unknown:?}, which neither its own deflocalkeys-linux nor the built-in table defines, and was accepted"),
                    witness(sc, step, json!("accepted"), json!({"rejected": "unknown key name", "unknown": unknown})),
                );
                return;
            }
            out.inc("seq_abs_accepted_all_names_known");
            let mut got = sum.mapped.clone();
            let mut exp = spec.expected_mapped();
            for u in UNDECIDED {
                got.remove(&u);
                exp.remove(&u);
            }
            if got != exp {
                let extra: Vec<&u16> = got.difference(&exp).take(12).collect();
                let missing: Vec<&u16> = exp.difference(&got).take(12).collect();
                out.violate(
                    format!("C11:parse-seq:mapped-keys:{entry}:{class}"),
                    format!("configuration #{step} of the sequence: Cfg.mapped_keys is not defsrc + deflayermap inputs under the configuration's own key names: extra {extra:?}, missing {missing:?}"),
                    witness(sc, step, json!({"extra": extra, "missing": missing}), json!({"size": exp.len()})),
                );
            } else {
                out.inc("seq_abs_mapped_keys_ok");
            }
            // the defsrc position of each key holds the action written for it
            for (n, a) in &spec.keys {
                let (Some(c), Some(ac)) = (spec.denote(n), spec.denote(a)) else { continue };
                let got = sum.cells.first().and_then(|l| l.get(c as usize)).cloned().unwrap_or_default();
                let exp = kc_of(ac).map(|k| format!("{:?}", Action::<()>::KeyCode(k))).unwrap_or_default();
                if got != exp {
                    out.violate(
                        format!("C11:parse-seq:layer-cell:{entry}:{class}"),
                        format!("configuration #{step} of the sequence: `{n}` (code {c}) is mapped to `{a}` (code {ac}) but the cell at coordinate {c} is {got}"),
                        witness(sc, step, json!({"coordinate": c, "cell": got}), json!({"cell": exp})),
                    );
                    break;
                }
                out.inc("seq_abs_layer_cells_ok");
            }
        }
        Err(e) => {
            if unknown.is_empty() {
                // judged by the relation (a configuration the generator believed valid may be
                // refused by the language for reasons of its own; then it is refused alone too)
                out.inc("seq_abs_rejected_though_all_names_known");
                let _ = e;
            } else {
                out.inc("seq_abs_rejected_unknown_name");
            }
        }
    }
    // name look-ups right after the parse (only meaningful when the parse got past the blocks;
    // judged when the configuration was accepted)
    if res.is_ok() {
        for (n, got) in sc.pool.iter().zip(names.iter()) {
            let exp = spec.denote(n);
            out.inc("seq_abs_name_lookups");
            if *got != exp {
                out.violate(
                    format!("C11:parse-seq:name-denotation:{entry}:{class}"),
                    format!("after reading configuration #{step} of the sequence str_to_oscode(\"{n}\") = {got:?}; the configuration's own names give {exp:?}"),
                    witness(sc, step, json!({"name": n, "code": got}), json!({"code": exp})),
                );
                break;
            }
        }
    }
}

fn judge_relation(out: &mut CaseOut, sc: &SeqCase, step: usize, seq: &(Result<Summary, String>, Vec<Option<u16>>), alone: &(Result<Summary, String>, Vec<Option<u16>>)) {
    let entry = sc.entry.tag();
    let class = sig_class(sc, step);
    out.inc("seq_rel_steps_compared");
    if step > 0 {
        out.inc("seq_rel_later_steps_compared");
    }
    match (&seq.0, &alone.0) {
        (Ok(a), Ok(b)) => {
            out.inc("seq_rel_both_accepted");
            if a.mapped != b.mapped {
                let extra: Vec<&u16> = a.mapped.difference(&b.mapped).take(12).collect();
                let missing: Vec<&u16> = b.mapped.difference(&a.mapped).take(12).collect();
                out.violate(
                    format!("C11:parse-seq:differs-from-alone:mapped-keys:{entry}:{class}"),
                    format!("configuration #{step} read after the others has other mapped keys than read alone: extra {extra:?}, missing {missing:?}"),
                    witness(sc, step, json!({"extra": extra, "missing": missing}), json!("the mapped keys of the configuration read alone")),
                );
            } else if a.cells != b.cells {
                let d = cell_diff(&a.cells, &b.cells);
                out.violate(
                    format!("C11:parse-seq:differs-from-alone:layer-cells:{entry}:{class}"),
                    format!("configuration #{step} read after the others has other layer cells than read alone: {}", d.first().cloned().unwrap_or_default()),
                    witness(sc, step, json!(d), json!("the layers of the configuration read alone")),
                );
            } else if a.overrides != b.overrides {
                out.violate(
                    format!("C11:parse-seq:differs-from-alone:overrides:{entry}:{class}"),
                    format!("configuration #{step} read after the others has other overrides than read alone"),
                    witness(sc, step, json!(a.overrides), json!(b.overrides)),
                );
            } else if seq.1 != alone.1 {
                let d: Vec<String> = sc.pool.iter().zip(seq.1.iter().zip(alone.1.iter())).filter(|x| x.1 .0 != x.1 .1).map(|x| format!("{}: {:?} vs {:?}", x.0, x.1 .0, x.1 .1)).collect();
                out.violate(
                    format!("C11:parse-seq:differs-from-alone:name-lookup:{entry}:{class}"),
                    format!("after configuration #{step} read after the others, key names resolve differently than after reading it alone: {d:?}"),
                    witness(sc, step, json!(d), json!("the look-ups after reading the configuration alone")),
                );
            } else {
                out.inc("seq_rel_identical_to_alone");
            }
        }
        (Err(_), Err(_)) => {
            out.inc("seq_rel_both_rejected");
        }
        (Ok(_), Err(e)) => {
            out.violate(
                format!("C11:parse-seq:differs-from-alone:accepted:{entry}:{class}"),
                format!("configuration #{step} is accepted after the others but refused when read alone"),
                witness(sc, step, json!("accepted"), json!({"rejected": e})),
            );
        }
        (Err(e), Ok(_)) => {
            out.violate(
                format!("C11:parse-seq:differs-from-alone:rejected:{entry}:{class}"),
                format!("configuration #{step} is refused after the others but accepted when read alone"),
                witness(sc, step, json!({"rejected": e}), json!("accepted")),
            );
        }
    }
}

fn count_dimensions(out: &mut CaseOut, sc: &SeqCase) {
    out.inc(&format!("seq_entry_{}", sc.entry.tag()));
    out.count("seq_configurations", sc.specs.len() as u64);
    for (i, s) in sc.specs.iter().enumerate() {
        if i == 0 {
            continue;
        }
        let p = &sc.specs[i - 1];
        out.inc(&format!("seq_step_{}", step_class(sc, i)));
        // the configuration before bound a name that this one writes and does not bind itself
        let inherited: Vec<&str> = s.written().into_iter().filter(|n| p.block.has_linux() && p.linux.iter().any(|e| e.0 == *n) && !(s.block.has_linux() && s.linux.iter().any(|e| e.0 == *n))).collect();
        if !inherited.is_empty() {
            out.inc("seq_steps_writing_a_name_the_previous_block_bound");
            if inherited.iter().any(|n| tables().by_name.contains_key(n)) {
                out.inc("seq_steps_writing_a_builtin_name_the_previous_block_redefined");
            }
            if inherited.iter().any(|n| !tables().by_name.contains_key(n)) {
                out.inc("seq_steps_writing_a_new_name_only_the_previous_block_defined");
            }
        }
        if !s.block.has_linux() && sc.specs[..i].iter().any(|q| q.block.has_linux() && !q.linux.is_empty()) {
            out.inc("seq_steps_without_linux_block_after_one_with");
        }
        if s.block.has_linux() && p.block.has_linux() && s.linux != p.linux {
            out.inc("seq_steps_with_a_different_linux_block");
        }
    }
}

fn run_parse_sequence(out: &mut CaseOut, sc: &SeqCase, idx: u64) {
    let scratch = Scratch::new(idx);
    let files: Vec<PathBuf> = sc.specs.iter().enumerate().map(|(i, s)| if sc.entry == Entry::File { scratch.write(&format!("c{i}.kbd"), &s.text()) } else { PathBuf::new() }).collect();
    // the sequence: one fresh table, then no reset
    reset_names();
    let mut seq: Vec<(Result<Summary, String>, Vec<Option<u16>>)> = vec![];
    for (i, s) in sc.specs.iter().enumerate() {
        let r = parse(sc.entry, &s.text(), &files[i]).map(|c| summarize(&c));
        seq.push((r, lookups(&sc.pool)));
    }
    // each configuration alone in a fresh table
    for (i, s) in sc.specs.iter().enumerate() {
        reset_names();
        let r = parse(sc.entry, &s.text(), &files[i]).map(|c| summarize(&c));
        let alone = (r, lookups(&sc.pool));
        judge_absolute(out, sc, i, &seq[i].0, &seq[i].1);
        judge_relation(out, sc, i, &seq[i], &alone);
    }
    reset_names();
}

// ------------------------------------------------------------------ live reload on a real Kanata

/// press / release of every key of the configuration by physical code; (history, observed key events)
fn probe(sim: &mut Sim, spec: &Spec) -> (Vec<Ev>, Vec<(OutKind, String)>) {
    let mut h = vec![];
    for (n, _) in &spec.keys {
        if let Some(c) = spec.denote(n) {
            h.extend([Ev::P(c), Ev::T(3), Ev::R(c), Ev::T(3)]);
        }
    }
    let from = sim.trace.len();
    sim.run(&h);
    let got = sim.trace[from..].iter().filter(|o| !o.redundant).map(|o| (o.kind.clone(), o.name.clone())).collect();
    (h, got)
}

fn expected_probe(spec: &Spec) -> Vec<(OutKind, String)> {
    let names = pinned_keycode_names();
    let mut v = vec![];
    for (n, a) in &spec.keys {
        if spec.denote(n).is_none() {
            continue;
        }
        if let Some(ac) = spec.denote(a) {
            let k = names.get(ac as usize).copied().unwrap_or("?").to_string();
            v.push((OutKind::Down, k.clone()));
            v.push((OutKind::Up, k));
        }
    }
    v
}

/// press the `lrld-next` key and run the real tick handler until the reload has been done
fn reload_next(sim: &mut Sim) -> bool {
    sim.run(&[Ev::P(191), Ev::T(2), Ev::R(191), Ev::T(2)]);
    if !sim.k.verif_live_reload_requested() {
        return false;
    }
    let tx: Option<SyncSender<ServerMessage>> = None;
    for _ in 0..20 {
        sim.k.verif_rewind_last_tick(std::time::Duration::from_micros(1300));
        if sim.k.verif_handle_time_ticks(&tx).is_err() {
            return false;
        }
        if !sim.k.verif_live_reload_requested() {
            break;
        }
    }
    sim.ticks(2);
    !sim.k.verif_live_reload_requested()
}

fn run_reload_sequence(out: &mut CaseOut, sc: &SeqCase, idx: u64) {
    let scratch = Scratch::new(idx);
    let files: Vec<PathBuf> = sc.specs.iter().enumerate().map(|(i, s)| scratch.write(&format!("c{i}.kbd"), &s.text())).collect();
    // references: each configuration started alone in a fresh table
    let mut alone: Vec<Option<(Vec<Vec<String>>, Vec<(OutKind, String)>, Vec<Option<u16>>)>> = vec![];
    for (i, s) in sc.specs.iter().enumerate() {
        reset_names();
        match Sim::from_paths(vec![files[i].clone()]) {
            Ok(mut sim) => {
                let names = lookups(&sc.pool);
                let cells = layout_cells(sim.k.layout.b());
                let (_, got) = probe(&mut sim, s);
                alone.push(Some((cells, got, names)));
            }
            Err(_) => {
                out.inc("seq_reload_configuration_rejected_alone");
                alone.push(None);
            }
        }
    }
    if alone.iter().any(|a| a.is_none()) {
        // the generator writes only known names here; a configuration the language refuses for
        // other reasons makes the sequence meaningless
        reset_names();
        return;
    }
    reset_names();
    let mut sim = match Sim::from_paths(files.clone()) {
        Ok(s) => s,
        Err(e) => {
            out.violate(
                "C11:parse-seq:live-reload:start-up-failed".to_string(),
                "the first configuration starts alone but not as the first of several files".to_string(),
                witness(sc, 0, json!(e), json!("started")),
            );
            reset_names();
            return;
        }
    };
    out.inc("seq_reload_sequences");
    for (i, s) in sc.specs.iter().enumerate() {
        let class = sig_class(sc, i);
        if i > 0 {
            let ok = reload_next(&mut sim);
            out.inc("seq_reload_requests");
            if !ok {
                out.violate(
                    format!("C11:parse-seq:live-reload:not-performed:{class}"),
                    format!("lrld-next to configuration #{i} was not performed with all keys released"),
                    witness(sc, i, json!("reload still pending or not requested"), json!("reloaded")),
                );
                break;
            }
        }
        let Some((ref_cells, ref_probe, ref_names)) = &alone[i] else { break };
        let names = lookups(&sc.pool);
        let cells = layout_cells(sim.k.layout.b());
        let (h, got) = probe(&mut sim, s);
        out.inc("seq_reload_steps_judged");
        if i > 0 {
            out.inc("seq_reload_later_steps_judged");
        }
        out.count("seq_reload_keys_probed", s.keys.len() as u64);
        let exp = expected_probe(s);
        if &cells != ref_cells {
            let d = cell_diff(&cells, ref_cells);
            out.violate(
                format!("C11:parse-seq:live-reload:layout-differs-from-alone:{class}"),
                format!("after the reload to configuration #{i} the running layout is not the one of that configuration started alone: {}", d.first().cloned().unwrap_or_default()),
                witness(sc, i, json!(d), json!("the layers of the configuration started alone")),
            );
            break;
        } else if got != exp || &got != ref_probe {
            let mut w = witness(sc, i, json!(format!("{got:?}")), json!(format!("{exp:?}")));
            w["history"] = json!(format!("start with the files of `sequence`, F21 = lrld-next {i} time(s), then {}", render_hist(&h)));
            w["alone"] = json!(format!("{ref_probe:?}"));
            out.violate(
                format!("C11:parse-seq:live-reload:key-output:{class}"),
                format!("after the reload to configuration #{i} its keys, pressed by their physical codes, do not come out as the actions written for them"),
                w,
            );
            break;
        } else if &names != ref_names {
            out.violate(
                format!("C11:parse-seq:live-reload:name-lookup:{class}"),
                format!("after the reload to configuration #{i} key names resolve differently than after starting it alone"),
                witness(sc, i, json!(format!("{names:?}")), json!(format!("{ref_names:?}"))),
            );
            break;
        } else {
            out.inc("seq_reload_steps_ok");
        }
        if !sim.os.all_up() {
            out.violate(
                format!("C11:parse-seq:live-reload:stuck:{class}"),
                format!("after probing configuration #{i} something is still held"),
                witness(sc, i, json!(sim.os.describe()), json!("nothing held")),
            );
            break;
        }
    }
    reset_names();
}

// ------------------------------------------------------------------ entry points for c11.rs

pub fn describe(ctx: &Ctx, idx: u64) -> Value {
    let sc = make(ctx, idx);
    json!({"part": "sequence of configurations in one process", "entry": sc.entry.tag(), "sequence": sc.specs.iter().map(|s| s.text()).collect::<Vec<_>>()})
}

pub fn run_case(out: &mut CaseOut, ctx: &Ctx, idx: u64) {
    let sc = make(ctx, idx);
    count_dimensions(out, &sc);
    let blocks: Vec<&str> = sc.specs.iter().map(|s| s.block.tag()).collect();
    out.tag(format!("seq:{}:{}", sc.entry.tag(), blocks.join(">")));
    match sc.entry {
        Entry::Reload => run_reload_sequence(out, &sc, idx),
        _ => run_parse_sequence(out, &sc, idx),
    }
    if idx % 500 == 1 {
        out.sample = Some(json!({"part": "sequence of configurations in one process", "entry": sc.entry.tag(), "sequence": sc.specs.iter().map(|s| s.text()).collect::<Vec<_>>()}));
    }
}

pub fn floors(ctx: &Ctx) -> Vec<(&'static str, u64)> {
    let q = ctx.tier == crate::core::Tier::Quick;
    let m = if q { 1 } else { 10 };
    vec![
        ("seq_entry_new_from_str", 1_600 * m),
        ("seq_entry_new_from_file", 600 * m),
        ("seq_entry_live-reload", 400 * m),
        ("seq_rel_later_steps_compared", 3_000 * m),
        ("seq_rel_both_accepted", 2_500 * m),
        ("seq_rel_identical_to_alone", 2_500 * m),
        ("seq_rel_both_rejected", 100 * m),
        ("seq_abs_accepted_all_names_known", 2_500 * m),
        ("seq_abs_mapped_keys_ok", 2_500 * m),
        ("seq_abs_layer_cells_ok", 4_000 * m),
        ("seq_abs_name_lookups", 10_000 * m),
        ("seq_abs_rejected_unknown_name", 100 * m),
        ("seq_steps_without_linux_block_after_one_with", 1_000 * m),
        ("seq_steps_with_a_different_linux_block", 300 * m),
        ("seq_steps_writing_a_name_the_previous_block_bound", 500 * m),
        ("seq_steps_writing_a_builtin_name_the_previous_block_redefined", 300 * m),
        ("seq_steps_writing_a_new_name_only_the_previous_block_defined", 50 * m),
        ("seq_step_no-block-after-linux-block", 300 * m),
        ("seq_step_other-variant-block-after-linux-block", 80 * m),
        ("seq_step_linux-block-after-linux-block", 200 * m),
        ("seq_reload_sequences", 300 * m),
        ("seq_reload_requests", 400 * m),
        ("seq_reload_later_steps_judged", 400 * m),
        ("seq_reload_steps_ok", 700 * m),
        ("seq_reload_keys_probed", 1_500 * m),
    ]
}
