//! C02 — an accepted configuration never crashes or hangs event processing.
//!
//! Oracle: the crash oracle of the runner (panic / abort / stack overflow / reproducible watchdog
//! hang) while the real `Kanata` processes hostile histories on grammar-generated accepted
//! configurations. In the `chk` lane arithmetic-overflow panics are violations as well.
//!
//! Three case families: (1) systematic: every action kind in every placement context, in-range and
//! out-of-range numbers; (2) deep switch (c02_deep.rs): `switch` key-match expressions at and beyond
//! the limits the run-time evaluator asserts (6..=12 nested and / or / not lists, opcode counts
//! around 4095) with histories that hold exactly the keys that make the short-circuiting evaluator
//! descend to the innermost list; (3) the whole grammar at random with boundary numbers.

use crate::core::rng::Rng;
use crate::core::sim::{osc, render_hist, Ev, Sim};
use crate::core::{CaseOut, Check, Ctx};
use crate::gen::{self, hist, Profile, K, ALL_KINDS};
use serde_json::{json, Value};

#[path = "c02_deep.rs"]
mod deep;

pub struct C02Check;
pub static C02: C02Check = C02Check;

/// contexts an action can be placed in (systematic core)
const CONTEXTS: &[&str] = &[
    "layer", "alias", "vkey", "chordv1", "chordv2", "tapdance", "tapdance-eager", "fork-left", "fork-right",
    "switch", "multi", "taphold-tap", "taphold-hold", "taphold-timeout", "layermap", "oneshot-layer",
];

fn profile() -> Profile {
    let mut p = Profile::full();
    p.max_depth = 4;
    p
}

struct Case {
    cfg: String,
    hists: Vec<Vec<Ev>>,
    kind_tag: String,
}

/// every kind x context, once with in-range numbers and three times with out-of-range numbers
/// (rejected by the parser today; accepted — and then run — if a range check is ever relaxed)
const SYS_VARIANTS: usize = 4;
fn systematic_count() -> u64 {
    (ALL_KINDS.len() * CONTEXTS.len() * SYS_VARIANTS) as u64
}

fn wrap_in_context(rng: &mut Rng, ctxname: &str, act: &str, k: K) -> String {
    // two physical keys a,b ; layer l1 exists ; vkeys v0 (plain) v1
    let needs_group = k == K::ChordV1;
    let mut s = String::new();
    let concurrent = ctxname == "chordv2" || rng.coin();
    s.push_str(&format!(
        "(defcfg process-unmapped-keys yes{})\n(defsrc a b c)\n(defvirtualkeys v0 x v1 (macro y 5 z))\n",
        if concurrent { " concurrent-tap-hold yes" } else { "" }
    ));
    if needs_group || ctxname == "chordv1" {
        s.push_str(&format!("(defchords cg0 50 (k0) q (k1) w (k0 k1) {})\n", if ctxname == "chordv1" { act } else { "e" }));
    }
    let cell: String = match ctxname {
        "layer" | "layermap" => act.to_string(),
        "alias" => {
            s.push_str(&format!("(defalias al0 {act})\n"));
            "@al0".into()
        }
        "vkey" => {
            s.push_str(&format!("(defvirtualkeys v2 {act})\n"));
            "(multi (on-press press-vkey v2) (on-release release-vkey v2))".into()
        }
        "chordv1" => "(chord cg0 k0)".into(),
        "chordv2" => {
            s.push_str(&format!("(defchordsv2 (a b) {act} 50 {} ())\n", rng.pick(&["first-release", "all-released"])));
            "a".into()
        }
        "tapdance" => format!("(tap-dance 50 (q {act} w))"),
        "tapdance-eager" => format!("(tap-dance-eager 50 (q {act} w))"),
        "fork-left" => format!("(fork {act} q (lsft c))"),
        "fork-right" => format!("(fork q {act} (lsft c))"),
        "switch" => format!("(switch () {act} fallthrough (c) q break ((not c)) {act} break)"),
        "multi" => format!("(multi lctl {act})"),
        "taphold-tap" => format!("(tap-hold 20 20 {act} q)"),
        "taphold-hold" => format!("(tap-hold-press 20 20 q {act})"),
        "taphold-timeout" => format!("(tap-hold-release-timeout 20 20 q w {act})"),
        "oneshot-layer" => "(one-shot 50 (layer-while-held l1))".into(),
        _ => act.to_string(),
    };
    let second = if ctxname == "chordv1" { "(chord cg0 k1)".to_string() } else { "b".to_string() };
    if ctxname == "layermap" {
        s.push_str(&format!("(deflayermap (l0) a {cell} b {second} c c)\n"));
    } else {
        s.push_str(&format!("(deflayer l0 {cell} {second} c)\n"));
    }
    if ctxname == "oneshot-layer" {
        s.push_str(&format!("(deflayer l1 {act} {act} _)\n"));
    } else {
        s.push_str("(deflayer l1 q w (layer-switch l0))\n");
    }
    s
}

/// index layout: [0, nsys) systematic kind x context block, [nsys, nsys + ndeep) deep-switch family
/// (c02_deep.rs), then the random grammar part
fn deep_range(ctx: &Ctx) -> std::ops::Range<u64> {
    systematic_count()..systematic_count() + deep::n_cases(ctx)
}

fn make_case(ctx: &Ctx, idx: u64) -> Case {
    // the random part keeps the case numbering it had before the deep-switch family was inserted
    let idx = if idx >= deep_range(ctx).end { idx - deep::n_cases(ctx) } else { idx };
    let mut rng = Rng::for_case(ctx.seed, "C02", "case", idx);
    let nsys = systematic_count();
    let (cfg, mapped, tag): (String, Vec<u16>, String) = if idx < nsys {
        // systematic core: every action kind in every context (parameters vary with the seed)
        let variant = (idx as usize) % SYS_VARIANTS;
        let kc = (idx as usize) / SYS_VARIANTS;
        let k = ALL_KINDS[kc / CONTEXTS.len()];
        let cx = CONTEXTS[kc % CONTEXTS.len()];
        let mut p = profile().only(&[k, K::Key]);
        p.vkeys = 2;
        let act = {
            let mut g = gen::Gen::new(&mut rng, &p);
            g.out.keys = vec!["a".into(), "b".into(), "c".into()];
            g.out.layers = vec!["l0".into(), "l1".into()];
            g.out.vkeys = vec!["v0".into(), "v1".into()];
            g.preset_vkeys_defined(2);
            if variant > 0 {
                g.force_out_of_range();
            }
            if k == K::ChordV1 {
                g.preset_chord_group("cg0", &["k0", "k1"]);
            }
            // try a few times to get the wanted kind at the top
            let mut a = g.action(2);
            for _ in 0..20 {
                if g.out.kinds_used.contains(k.name()) {
                    break;
                }
                a = g.action(2);
            }
            a
        };
        let cfg = wrap_in_context(&mut rng, cx, &act, k);
        (cfg, vec![osc("a"), osc("b"), osc("c")], format!("sys:{}:{}:{}", k.name(), cx, if variant > 0 { "oor" } else { "ok" }))
    } else {
        let p = profile();
        let g = gen::generate(&mut rng, &p);
        let mapped: Vec<u16> = g.keys.iter().map(|k| osc(k)).collect();
        let mut kinds: Vec<&str> = g.kinds_used.iter().copied().collect();
        kinds.sort();
        (g.text, mapped, format!("rnd:{}", kinds.join(",")))
    };
    let nh = ctx.tier.sel(4, 8);
    let mut hists = vec![];
    for i in 0..nh {
        let gaps: &[u32] = match i % 4 {
            0 => &[0, 1, 2, 5, 20, 51],
            1 => &[0, 0, 0, 1],
            2 => &[1, 19, 20, 21, 49, 50, 51, 200],
            _ => &[0, 1, 3, 1000],
        };
        let n = 10 + rng.usize(ctx.tier.sel(60, 200));
        let mut h = if i % 2 == 0 {
            hist::hostile(&mut rng, &mapped, n, gaps)
        } else {
            hist::consistent(&mut rng, &mapped, n, gaps, true)
        };
        if i == 3 {
            // long quiet stretch to reach the u16 counters, then more input
            h.push(Ev::T(70_000));
            h.extend(hist::consistent(&mut rng, &mapped, 6, &[0, 1, 30], true));
        }
        h.push(Ev::T(300));
        hists.push(h);
    }
    // press flood: 17-40 presses (all mapped keys round-robin, so also repeated presses of keys
    // that are down) with no tick in between, a tick, 5-40 more presses, then every key released
    // in one burst - fills every list that is sized for "the keys that can be pressed at once"
    if !mapped.is_empty() {
        let mut h = vec![];
        let n1 = 17 + rng.usize(24);
        for i in 0..n1 {
            h.push(Ev::P(mapped[i % mapped.len()]));
        }
        h.push(Ev::T(*rng.pick(&[1u32, 1, 2, 30])));
        for i in 0..5 + rng.usize(36) {
            h.push(Ev::P(mapped[(i * 7 + 3) % mapped.len()]));
        }
        h.push(Ev::T(*rng.pick(&[0u32, 1, 60])));
        for k in &mapped {
            h.push(Ev::R(*k));
        }
        h.push(Ev::T(300));
        hists.push(h);
    }
    // edge codes: the ends of the code space (incl. 767 = KEY_MAX, which has no slot in a layer
    // row) pressed, repeated, tapped and released while 0-3 mapped keys (layer keys, chords,
    // tap-holds ... whatever they are) are held
    {
        let mut h = vec![];
        let nheld = rng.usize(4).min(mapped.len());
        for k in mapped.iter().take(nheld) {
            h.push(Ev::P(*k));
            h.push(Ev::T(*rng.pick(&[0u32, 1, 60])));
        }
        for code in [767u16, 0, 766, 1, 765, 255, 256, 767] {
            match rng.usize(4) {
                0 => h.extend([Ev::P(code), Ev::T(1), Ev::R(code)]),
                1 => h.extend([Ev::P(code), Ev::Rep(code), Ev::R(code), Ev::T(1)]),
                2 => h.extend([Ev::Tap(code), Ev::T(2)]),
                _ => h.extend([Ev::R(code), Ev::P(code), Ev::P(code), Ev::T(30), Ev::R(code)]),
            }
        }
        for k in mapped.iter().take(nheld) {
            h.push(Ev::R(*k));
        }
        h.push(Ev::T(300));
        hists.push(h);
    }
    Case { cfg, hists, kind_tag: tag }
}

impl Check for C02Check {
    fn id(&self) -> &'static str {
        "C02"
    }
    fn n_cases(&self, ctx: &Ctx) -> u64 {
        systematic_count() + deep::n_cases(ctx) + ctx.tier.sel(12_000, 150_000)
    }
    fn describe(&self, ctx: &Ctx, idx: u64) -> Value {
        if deep_range(ctx).contains(&idx) {
            return deep::describe(ctx, idx - deep_range(ctx).start);
        }
        let c = make_case(ctx, idx);
        json!({"config": c.cfg, "histories": c.hists.iter().map(|h| render_hist(h)).collect::<Vec<_>>()})
    }
    fn run_case(&self, ctx: &Ctx, idx: u64) -> CaseOut {
        let mut out = CaseOut::new();
        if deep_range(ctx).contains(&idx) {
            deep::run(ctx, idx - deep_range(ctx).start, &mut out);
            return out;
        }
        let c = make_case(ctx, idx);
        if ctx.verbose {
            eprintln!("config:\n{}", c.cfg);
        }
        let mut accepted = false;
        for (hi, h) in c.hists.iter().enumerate() {
            // a fresh instance per history (process-global state is re-initialised by the parse)
            let mut sim = match Sim::new(&c.cfg) {
                Ok(s) => s,
                Err(_) => break,
            };
            accepted = true;
            sim.keep_trace = false;
            if ctx.verbose {
                eprintln!("history {hi}: {}", render_hist(h));
            }
            sim.run(h);
            out.count("events", h.len() as u64);
            out.count("ticks", sim.now);
            out.count("outputs", sim.os.outputs);
            out.max("queue_len_end", sim.k.layout.b().queue.len() as u64);
            out.max("states_len_end", sim.k.layout.b().states.len() as u64);
        }
        if accepted {
            out.inc("configs_accepted");
            out.tag(c.kind_tag.clone());
            if idx < systematic_count() {
                out.inc("systematic_accepted");
            }
        } else {
            out.inc("configs_rejected");
            if idx < systematic_count() {
                out.inc("systematic_rejected");
            }
        }
        if idx % 1000 == 7 || idx == 0 {
            out.sample = Some(json!({"idx": idx, "config": c.cfg, "history0": render_hist(&c.hists[0]), "accepted": accepted}));
        }
        out
    }
    fn rule(&self) -> String {
        "case = one generated configuration (first cases: every action kind x every placement context, systematically; then the deep-switch family described at the end; then the whole grammar at random with boundary numbers) run against 4 (quick) / 8 (thorough) histories: hostile (any of the 768 codes, double presses, releases of keys that are up, repeats, Tap events, floods of 33-100 zero-gap events), one press flood (17-40 presses over all mapped keys with no tick, a tick, 5-40 more presses, every key released in one burst), one edge-code history (codes 0, 1, 255, 256, 765, 766 and 767 pressed / repeated / tapped / released while up to three mapped keys are held) and physically consistent ones with repeats, gap pools around the configured timeouts, one 70 000-tick quiet stretch. Non-trivial = accepted by the parser; distinct = distinct set of action kinds used (random part) or distinct kind x context (systematic part). Deep-switch family (every lane; 7 x 9 x 4 cells x 6 (quick) / 60 (thorough) configurations): a switch whose key-match nests 6..=12 boolean lists (spine), operators per level in nine arrangements (random and/or/not mix, and-not-or cycle, all-not, all-and, all-or, exactly one not, not on every second level, not outermost only, not innermost only), the nested list first / last / in the middle / anywhere among 1-4 operands, innermost list empty or with 1-3 operands, operands = key names, (input real k), layer / base-layer / input virtual constants, key-history / key-timing / input-history items and small sub-lists, optionally one spine level given through a defvar list, the expression first or second in the key-match and in the first or second case, the switch placed on a layer, in an alias, a multi, a virtual key, a fork, a tap-hold hold action or a chords-v2 action; a quarter of the configurations with an acceptable spine (a twentieth of the others) is padded to 4086..=4104 opcodes (either side of the 4095 limit). Each runs 9 histories on fresh instances: nothing held; the descent set (operands preceding / following the nested list held iff their list is an `and`, so that no level is decided early) with the innermost key down, and with it up; every key held; the descent set with every key that is a direct operand of a spine list flipped in turn and the switch key tapped after each flip; two random subsets; one hostile and one consistent random history over the keys of the expression. A rejected configuration is fine (counted); an accepted one must not panic or hang. Distinct there = depth x arrangement x position x placement (x defvar, x padded).".into()
    }
    fn assumptions(&self) -> Vec<String> {
        vec![
            "cmd and clipboard actions are excluded (cmd is not compiled in; the clipboard needs a display and kanata panics by design without one)".into(),
            "on-press-delay/on-release-delay above 2 ms are not generated (real sleeps by design)".into(),
            "bounded work per step is approximated by the per-case wall-clock watchdog only".into(),
            "the OS layer only delivers key codes that OsCode::from_u16 knows; other codes are not injected".into(),
            "deep-switch family: only crashes / hangs are judged, not which case fires. The descent sets are built from the documented meaning of the operators (or / not stop at the first true operand, and at the first false one, a list is entered only when reached); that the code under test really descends is shown by the observed counter deep_innermost_decides (the fired case changes with the innermost key), which has a floor".into(),
            "deep-switch family: what the parser accepts is not judged (the guide gives no nesting or size limit for key-matches); on the unchanged tree 7 nested lists with operands / 8 with an empty innermost list and 4095 opcodes are the largest accepted forms".into(),
        ]
    }
    fn floors(&self, ctx: &Ctx) -> Vec<(&'static str, u64)> {
        // the deep-switch family has ten times as many configurations in the thorough tier
        let m = ctx.tier.sel(1, 10);
        vec![
            ("configs_accepted", 500),
            ("systematic_accepted", 200),
            // deep-switch family: forms on both sides of each limit were generated ...
            ("deep_configs_accepted", 150 * m),
            ("deep_accepted_with_not", 100 * m),
            ("deep_accepted_at_limit", 60 * m),
            ("deep_rejected_beyond_limit", 400 * m),
            ("max_deep_spine_accepted", 7),
            ("deep_wide_accepted", 15 * m),
            ("deep_wide_rejected", 15 * m),
            ("deep_accepted_via_defvar", 25 * m),
            // ... and the descent histories were run and observably reached the innermost operand
            ("deep_descent_histories", 300 * m),
            ("deep_innermost_decides", 70 * m),
            ("deep_innermost_decides_at_limit", 30 * m),
        ]
    }
    fn hang_is_violation(&self) -> bool {
        true
    }
    fn watchdog_s(&self, _ctx: &Ctx) -> u64 {
        30
    }
    fn all_lanes_below(&self, ctx: &Ctx) -> u64 {
        // the systematic block and the first full grid of the deep-switch family (= its quick tier);
        // the rest of that family is sampled by the lane's stride like the random part
        let quick = Ctx { tier: crate::core::Tier::Quick, ..ctx.clone() };
        deep_range(ctx).start + deep::n_cases(&quick).min(deep::n_cases(ctx))
    }
}
